#!/bin/bash
# usage: seedall.sh [pattern]   — runs every seeded change (matching pattern) against the quick check of its
# property in a scratch worktree (no confirmation step) and prints one line per change.
cd /verif
for d in seeded/${1:-*}/; do
  n=$(basename $d)
  [ -f $d/patch.diff ] || continue
  case $n in *superseded*) continue;; esac
  P=${n%%-*}
  out=$(SKIP_CONFIRM=1 ./seedtest2.sh $P $d 2>&1)
  rc=$(echo "$out" | grep -o "exit=[0-9]*" | head -1)
  keys=$(echo "$out" | grep "key=" | sed 's/^ *//' | cut -c1-90 | paste -sd';' | cut -c1-220)
  echo "$n $rc $keys"
done
