//go:build verif

// Package siscript runs generated service-info module scripts through a complete TO2
// and compares what every module received with a reference model (used by C16 and C19).
package siscript

import (
	"bytes"
	"context"
	"encoding/binary"
	"fmt"
	"io"
	"regexp"
	"runtime"
	"sort"
	"strings"
	"sync"
	"time"

	"github.com/fido-device-onboard/go-fdo/serviceinfo"
	"pgregory.net/rapid"

	"verif/harness/deploy"
	"verif/harness/ev"
)

// ---------------------------------------------------------------------------
// script (the descriptor)
// ---------------------------------------------------------------------------

// DevOp is one action of a device module inside a callback.
type DevOp struct {
	Yield  bool `json:"y,omitempty"` // call yield()
	Name   int  `json:"n,omitempty"` // message name index
	Size   int  `json:"s,omitempty"` // bytes written for the message (≥ 1)
	Writes int  `json:"w,omitempty"` // number of extra Write calls the bytes are split over
}

// OwnMsg is one service info an owner module sends, with the device module's reaction to it.
type OwnMsg struct {
	Name  int     `json:"n,omitempty"`
	Size  int     `json:"s"` // wanted body size (≥ 8: id+length header); reduced to what Producer.Available allows
	Reply []DevOp `json:"reply,omitempty"`
}

// OwnRound is one ProduceInfo call of an owner module.
type OwnRound struct {
	Msgs       []OwnMsg `json:"msgs,omitempty"`
	Block      bool     `json:"block,omitempty"` // IsMoreServiceInfo
	YieldReply []DevOp  `json:"yield,omitempty"` // what the device module does in Yield after this round
}

type ModScript struct {
	NameLen      int        `json:"namelen,omitempty"` // extra characters in the module name
	DeviceHas    bool       `json:"devhas"`
	Rounds       []OwnRound `json:"rounds,omitempty"`
	DoneWithLast bool       `json:"donewithlast,omitempty"` // report done together with the last round (no replies allowed there)
	// ActiveYield is what a device-driven module writes from the Yield that follows its activation
	// (the owner's first service info for a module carries nothing but <module>:active)
	ActiveYield []DevOp `json:"activeyield,omitempty"`
}

type Script struct {
	Cfg      int         `json:"cfg"`
	DevMTU   int         `json:"devmtu"` // device's MaxOwnerServiceInfoSize: bound for messages 69
	OwnMTU   int         `json:"ownmtu"` // owner's MaxDeviceServiceInfoSize: bound for messages 68 (0: not announced → 1300)
	Extra    int         `json:"extra"`  // additional device module names (no owner counterpart)
	ExtraLen int         `json:"extralen"`
	Optional bool        `json:"optional,omitempty"` // fill the optional devmod fields
	Mods     []ModScript `json:"mods,omitempty"`
	Sched    int         `json:"sched,omitempty"` // schedule perturbation seed (0: none)
}

var msgNames = []string{"x", "y", "data", "a-rather-long-message-name"}

var cfgs = []deploy.Config{
	{Key: "P-256", Enc: "x509", Kex: "ECDH256", Cipher: "A128GCM"},
	{Key: "P-384", Enc: "x5chain", Kex: "ECDH384", Cipher: "COSEAES256CBC"},
	{Key: "P-256", Enc: "cose", Kex: "ECDH256", Cipher: "COSEAES128CTR"},
}

const minMTU = 256

func modName(i int, m ModScript) string {
	return fmt.Sprintf("m%c%s", 'a'+i, strings.Repeat("o", m.NameLen))
}

func extraName(j, l int) string {
	s := fmt.Sprintf("x%d", j)
	if len(s) < l {
		s += strings.Repeat("e", l-len(s))
	}
	return s
}

func pattern(seed uint32, n int) []byte {
	b := make([]byte, n)
	x := seed*2654435761 + 12345
	for i := range b {
		x ^= x << 13
		x ^= x >> 17
		x ^= x << 5
		b[i] = byte(x)
	}
	return b
}

// sanitize makes a script sound: sizes in range, no device output in a round that reports done.
func Sanitize(s *Script) {
	clampMTU := func(v int) int {
		if v < minMTU {
			return minMTU
		}
		if v > 65535 {
			return 65535
		}
		return v
	}
	s.DevMTU = clampMTU(s.DevMTU)
	if s.OwnMTU != 0 {
		s.OwnMTU = clampMTU(s.OwnMTU)
	}
	s.Cfg = ((s.Cfg % len(cfgs)) + len(cfgs)) % len(cfgs)
	s.Extra = min(max(s.Extra, 0), 200)
	s.ExtraLen = min(max(s.ExtraLen, 1), 40)
	if len(s.Mods) > 6 {
		s.Mods = s.Mods[:6]
	}
	fixOps := func(ops []DevOp) []DevOp {
		for i := range ops {
			ops[i].Size = min(max(ops[i].Size, 1), 200000)
			ops[i].Writes = min(max(ops[i].Writes, 0), 6)
			ops[i].Name = ((ops[i].Name % len(msgNames)) + len(msgNames)) % len(msgNames)
		}
		return ops
	}
	for mi := range s.Mods {
		m := &s.Mods[mi]
		m.NameLen = min(max(m.NameLen, 0), 30)
		m.ActiveYield = fixOps(m.ActiveYield)
		if !m.DeviceHas {
			m.ActiveYield = nil
		}
		for ri := range m.Rounds {
			r := &m.Rounds[ri]
			for i := range r.Msgs {
				r.Msgs[i].Size = min(max(r.Msgs[i].Size, 8), 70000)
				r.Msgs[i].Name = ((r.Msgs[i].Name % len(msgNames)) + len(msgNames)) % len(msgNames)
				r.Msgs[i].Reply = fixOps(r.Msgs[i].Reply)
			}
			r.YieldReply = fixOps(r.YieldReply)
		}
		// The device's reactions to a group of rounds linked by IsMoreServiceInfo are
		// produced only after the group's last message. A module that reports done
		// expects nothing more, so: the last round never blocks, and when done is
		// reported together with the last round its whole group has no reactions.
		if n := len(m.Rounds); n > 0 {
			m.Rounds[n-1].Block = false
			if m.DoneWithLast {
				for ri := n - 1; ri >= 0 && (ri == n-1 || m.Rounds[ri].Block); ri-- {
					for i := range m.Rounds[ri].Msgs {
						m.Rounds[ri].Msgs[i].Reply = nil
					}
					m.Rounds[ri].YieldReply = nil
				}
			}
		}
		if len(m.Rounds) == 0 {
			m.DoneWithLast = false
		}
	}
}

// ---------------------------------------------------------------------------
// instrumented modules
// ---------------------------------------------------------------------------

type rec struct {
	Name string
	Data []byte
}

type world struct {
	s   Script
	mu  sync.Mutex
	seq []string // global owner-side event order: "H:<mod>" "P:<mod>" "D:<mod>"
	// counters
	req68      int
	doneAt68   int // number of 68 requests seen when the last module reported done (-1: never)
	sendSeed   uint32
	problems   []string
	lcg        uint32
	replyByID  map[uint32][]DevOp
	roundByID  map[uint32][2]int // id -> (module, round)
	nextID     uint32
	ownerMods  []*ownMod
	deviceMods []*devMod
}

func (w *world) jitter() {
	if w.s.Sched == 0 {
		return
	}
	w.mu.Lock()
	w.lcg = w.lcg*1664525 + 1013904223
	v := w.lcg >> 16
	w.mu.Unlock()
	for i := uint32(0); i < v%4; i++ {
		runtime.Gosched()
	}
	if v%7 == 0 {
		time.Sleep(time.Duration(v%200) * time.Microsecond)
	}
}

// spin busy-waits 0..4 µs between the writes of one message body (streamed output)
func (w *world) spin() {
	if w.s.Sched == 0 {
		return
	}
	w.mu.Lock()
	w.lcg = w.lcg*1664525 + 1013904223
	v := w.lcg >> 16
	w.mu.Unlock()
	d := time.Duration(v%9) * 500 * time.Nanosecond
	for t0 := time.Now(); time.Since(t0) < d; {
	}
}

func (w *world) problem(format string, a ...any) {
	w.mu.Lock()
	w.problems = append(w.problems, fmt.Sprintf(format, a...))
	w.mu.Unlock()
}

func (w *world) event(e string) {
	w.mu.Lock()
	w.seq = append(w.seq, e)
	w.mu.Unlock()
}

type ownMod struct {
	w       *world
	idx     int
	name    string
	sc      ModScript
	mu      sync.Mutex
	sentAct bool
	active  *bool
	round   int
	pending []OwnMsg
	pendBlk bool
	inRound bool
	done    bool
	Sent    []rec // non-active messages sent
	Got     []rec // everything handled
	ids     [][]uint32
}

func (m *ownMod) HandleInfo(ctx context.Context, name string, body io.Reader) error {
	m.w.jitter()
	b, err := io.ReadAll(body)
	if err != nil {
		return err
	}
	m.mu.Lock()
	defer m.mu.Unlock()
	m.w.event("H:" + m.name)
	if m.done {
		m.w.problem("owner module %s handled %q after it reported done", m.name, name)
	}
	m.Got = append(m.Got, rec{name, b})
	if name == "active" && m.active == nil {
		v := bytes.Equal(b, []byte{0xf5})
		if !v && !bytes.Equal(b, []byte{0xf4}) {
			m.w.problem("owner module %s: active reply is %x", m.name, b)
		}
		m.active = &v
	}
	return nil
}

func (m *ownMod) ProduceInfo(ctx context.Context, p *serviceinfo.Producer) (bool, bool, error) {
	m.w.jitter()
	m.mu.Lock()
	defer m.mu.Unlock()
	m.w.event("P:" + m.name)
	if m.done {
		m.w.problem("owner module %s: ProduceInfo after done", m.name)
		return false, true, nil
	}
	finish := func() (bool, bool, error) {
		m.done = true
		m.w.event("D:" + m.name)
		if m.idx == len(m.w.ownerMods)-1 {
			m.w.mu.Lock()
			m.w.doneAt68 = m.w.req68
			m.w.mu.Unlock()
		}
		return false, true, nil
	}
	if !m.sentAct {
		m.sentAct = true
		return false, false, p.WriteChunk("active", []byte{0xf5})
	}
	if m.active == nil {
		m.w.problem("owner module %s: second ProduceInfo without an active reply from the device", m.name)
		return finish()
	}
	if !*m.active {
		return finish()
	}
	if !m.inRound {
		if m.round >= len(m.sc.Rounds) {
			return finish()
		}
		m.pending = append([]OwnMsg{}, m.sc.Rounds[m.round].Msgs...)
		m.pendBlk = m.sc.Rounds[m.round].Block
		m.inRound = true
	}
	sentHere := 0
	for len(m.pending) > 0 {
		msg := m.pending[0]
		name := msgNames[msg.Name]
		avail := p.Available(name) - 3 // the value's own byte-string head (the FSIMs leave the same margin)
		size := msg.Size
		if size > avail {
			if sentHere > 0 {
				break // continue in the next ProduceInfo with the full MTU
			}
			size = avail
		}
		if size < 8 {
			m.w.problem("owner module %s: no room for a message in an empty service info (available %d)", m.name, avail)
			return false, false, fmt.Errorf("no room")
		}
		id := m.ids[m.round][len(m.sc.Rounds[m.round].Msgs)-len(m.pending)]
		body := make([]byte, 8, size)
		binary.BigEndian.PutUint32(body, id)
		binary.BigEndian.PutUint32(body[4:], uint32(size-8))
		body = append(body, pattern(id, size-8)...)
		if err := p.WriteChunk(name, body); err != nil {
			return false, false, err
		}
		m.Sent = append(m.Sent, rec{name, body})
		m.pending = m.pending[1:]
		sentHere++
	}
	if len(m.pending) > 0 {
		return true, false, nil
	}
	m.inRound = false
	m.round++
	if m.round == len(m.sc.Rounds) && m.sc.DoneWithLast {
		return finish()
	}
	return m.pendBlk, false, nil
}

type devMod struct {
	w        *world
	idx      int
	name     string
	mu       sync.Mutex
	Trans    []bool
	Recv     []rec
	Sent     []rec
	recvBeforeActive bool
	lastRound int
	fresh     bool
	yields    int
	justActivated bool
	scratch       []byte
}

func (d *devMod) Transition(active bool) error {
	d.mu.Lock()
	d.Trans = append(d.Trans, active)
	d.justActivated = active
	d.mu.Unlock()
	return nil
}

func (d *devMod) runOps(ops []DevOp, respond func(string) io.Writer, yield func()) {
	for _, op := range ops {
		d.w.jitter()
		if op.Yield {
			yield()
			continue
		}
		d.w.mu.Lock()
		d.w.sendSeed++
		seed := d.w.sendSeed + 1<<20
		d.w.mu.Unlock()
		payload := pattern(seed, op.Size)
		name := msgNames[op.Name]
		wr := respond(name)
		parts := op.Writes + 1
		rest := payload
		for i := 0; i < parts; i++ {
			n := len(rest) / (parts - i)
			if i == parts-1 {
				n = len(rest)
			}
			if n == 0 && i < parts-1 {
				continue
			}
			// like io.Copy, the module writes from a buffer of its own that it reuses at once:
			// a Writer must not retain the slice it was given
			// (the next part, or the scribble after the message, overwrites the buffer); small
			// parts are written directly so that the sub-microsecond spacing the schedule search
			// of the streams sub relies on is not disturbed
			buf := rest[:n]
			if n >= 256 {
				buf = append(d.scratch[:0], rest[:n]...)
				d.scratch = buf
			}
			if _, err := wr.Write(buf); err != nil {
				d.w.problem("device module %s: write of %q failed: %v", d.name, name, err)
			}
			rest = rest[n:]
			d.w.spin()
		}
		for i := range d.scratch {
			d.scratch[i] = ^d.scratch[i]
		}
		d.mu.Lock()
		d.Sent = append(d.Sent, rec{name, payload})
		d.mu.Unlock()
	}
}

func (d *devMod) Receive(ctx context.Context, name string, body io.Reader, respond func(string) io.Writer, yield func()) error {
	d.w.jitter()
	b, err := io.ReadAll(body)
	if err != nil {
		return err
	}
	d.mu.Lock()
	if len(d.Trans) == 0 || !d.Trans[len(d.Trans)-1] {
		d.recvBeforeActive = true
	}
	d.Recv = append(d.Recv, rec{name, b})
	d.mu.Unlock()
	// the body is one or more scripted messages back to back
	for rest := b; len(rest) >= 8; {
		id, n := binary.BigEndian.Uint32(rest), int(binary.BigEndian.Uint32(rest[4:]))
		if 8+n > len(rest) {
			break
		}
		rest = rest[8+n:]
		d.w.mu.Lock()
		ops := d.w.replyByID[id]
		rd, ok := d.w.roundByID[id]
		d.w.mu.Unlock()
		if ok && rd[0] == d.idx {
			d.mu.Lock()
			d.lastRound, d.fresh = rd[1], true
			d.mu.Unlock()
			d.runOps(ops, respond, yield)
		}
	}
	return nil
}

func (d *devMod) Yield(ctx context.Context, respond func(string) io.Writer, yield func()) error {
	d.w.jitter()
	d.mu.Lock()
	d.yields++
	fresh, r := d.fresh, d.lastRound
	d.fresh = false
	activated := d.justActivated
	d.justActivated = false
	d.mu.Unlock()
	if activated && d.idx < len(d.w.s.Mods) {
		d.runOps(d.w.s.Mods[d.idx].ActiveYield, respond, yield)
	}
	if fresh && d.idx < len(d.w.s.Mods) && r < len(d.w.s.Mods[d.idx].Rounds) {
		d.runOps(d.w.s.Mods[d.idx].Rounds[r].YieldReply, respond, yield)
	}
	return nil
}

// merged concatenates consecutive records of equal name ("one stream, or consecutive fragments").
func merged(rs []rec) []rec {
	var out []rec
	for _, r := range rs {
		if n := len(out); n > 0 && out[n-1].Name == r.Name {
			out[n-1].Data = append(append([]byte{}, out[n-1].Data...), r.Data...)
			continue
		}
		out = append(out, rec{r.Name, append([]byte{}, r.Data...)})
	}
	return out
}

func diffStreams(want, got []rec) string {
	w, g := merged(want), merged(got)
	for i := 0; i < len(w) || i < len(g); i++ {
		switch {
		case i >= len(g):
			return fmt.Sprintf("message #%d %q (%d bytes) and %d later ones never arrived", i, w[i].Name, len(w[i].Data), len(w)-i-1)
		case i >= len(w):
			return fmt.Sprintf("unexpected extra message #%d %q (%d bytes)", i, g[i].Name, len(g[i].Data))
		case w[i].Name != g[i].Name:
			return fmt.Sprintf("message #%d: sent %q, received %q", i, w[i].Name, g[i].Name)
		case !bytes.Equal(w[i].Data, g[i].Data):
			k := 0
			for k < len(w[i].Data) && k < len(g[i].Data) && w[i].Data[k] == g[i].Data[k] {
				k++
			}
			return fmt.Sprintf("message #%d %q: sent %d bytes, received %d bytes, first difference at offset %d", i, w[i].Name, len(w[i].Data), len(g[i].Data), k)
		}
	}
	return ""
}

var digits = regexp.MustCompile(`[0-9]+`)
var hexes = regexp.MustCompile(`[0-9a-f]{8,}`)

func normErr(err error) string {
	s := err.Error()
	s = hexes.ReplaceAllString(s, "H")
	s = digits.ReplaceAllString(s, "N")
	if len(s) > 110 {
		s = s[len(s)-110:]
	}
	return s
}

// ---------------------------------------------------------------------------
// evaluation
// ---------------------------------------------------------------------------

func Eval(s Script) ev.Result {
	Sanitize(&s)
	ctx, cancel := context.WithTimeout(context.Background(), 60*time.Second)
	defer cancel()
	cfg := cfgs[s.Cfg]
	w := &world{s: s, doneAt68: -1, lcg: uint32(s.Sched), replyByID: map[uint32][]DevOp{}, roundByID: map[uint32][2]int{}}

	svc := deploy.NewMemService("aio", deploy.KeyOwner1)
	svc.AutoExtendTo = deploy.OwnerPublic(cfg, deploy.KeyOwner1)
	svc.OwnerMTU = uint16(s.OwnMTU)
	dev := deploy.NewDevice(cfg, deploy.KeyDevice)
	dev.MTU = uint16(s.DevMTU)
	if s.Optional {
		dev.Devmod.Serial, dev.Devmod.PathSep, dev.Devmod.Newline, dev.Devmod.Temp, dev.Devmod.Dir, dev.Devmod.ProgEnv, dev.Devmod.MudURL = []byte("sn-0001"), "/", "\n", "/tmp", "/opt/fdo", "bin:py3", "https://mud.example/dev.json"
	}
	dev.Modules = map[string]serviceinfo.DeviceModule{}
	for i, m := range s.Mods {
		om := &ownMod{w: w, idx: i, name: modName(i, m), sc: m}
		for ri, r := range m.Rounds {
			var ids []uint32
			for _, msg := range r.Msgs {
				w.nextID++
				ids = append(ids, w.nextID)
				w.replyByID[w.nextID] = msg.Reply
				w.roundByID[w.nextID] = [2]int{i, ri}
			}
			om.ids = append(om.ids, ids)
		}
		w.ownerMods = append(w.ownerMods, om)
		dm := &devMod{w: w, idx: i, name: om.name}
		w.deviceMods = append(w.deviceMods, dm)
		if m.DeviceHas {
			dev.Modules[om.name] = dm
		}
	}
	var extras []string
	for j := 0; j < s.Extra; j++ {
		n := extraName(j, s.ExtraLen)
		extras = append(extras, n)
		dev.Modules[n] = &devMod{w: w, idx: 1000 + j, name: n}
	}
	svc.Modules.Factory = func(ctx context.Context) []deploy.NamedModule {
		var out []deploy.NamedModule
		for _, om := range w.ownerMods {
			out = append(out, deploy.NamedModule{Name: om.name, Mod: om})
		}
		return out
	}
	if err := dev.DI(ctx, deploy.NewLink(svc)); err != nil {
		return ev.Failf("setup", "DI: %v", err)
	}
	link := deploy.NewLink(svc)
	// whoever announces service info sizes up to 65535 has to let the transport carry them
	link.MaxContent, svc.Handler.MaxContentLength = 1<<18, 1<<18
	var types []uint8
	link.OnRequest = func(ex *deploy.Exchange) *deploy.Action {
		w.mu.Lock()
		types = append(types, ex.ReqType)
		if ex.ReqType == 68 {
			w.req68++
		}
		w.mu.Unlock()
		return nil
	}
	var runErr error
	if !ev.WithTimeout(40*time.Second, func() { _, runErr = dev.TO2(ctx, link, nil) }) {
		cancel()
		w.mu.Lock()
		sofar := append([]uint8{}, types...)
		w.mu.Unlock()
		return ev.Failf("hang:to2", "TO2 did not return within 40 s (types so far %v)", sofar)
	}

	// classification
	cross, multi := false, len(s.Mods) > 1
	ownMTU := s.OwnMTU
	if ownMTU == 0 {
		ownMTU = 1300
	}
	nYield, nOps := 0, 0
	for _, m := range s.Mods {
		for _, r := range m.Rounds {
			for _, ops := range append([][]DevOp{r.YieldReply}, func() (o [][]DevOp) {
				for _, mm := range r.Msgs {
					o = append(o, mm.Reply)
				}
				return
			}()...) {
				for _, op := range ops {
					nOps++
					if op.Yield {
						nYield++
					} else if op.Size > ownMTU-40 {
						cross = true
					}
				}
			}
		}
	}
	cls := fmt.Sprintf("mods=%d cross=%v yield=%v many=%v extra=%s", len(s.Mods), cross, nYield > 0, nOps >= 50, map[bool]string{true: ">0", false: "0"}[s.Extra > 0])
	res := ev.OK(cls)
	res.NonTrivial = cross || multi || s.Extra > 0 || nYield > 0 || nOps >= 50

	if runErr != nil {
		return ev.Failf("to2-failed:"+normErr(runErr), "TO2 failed for a valid script (devMTU %d ownMTU %d, %d owner modules, %d extra device modules): %v", s.DevMTU, s.OwnMTU, len(s.Mods), s.Extra, runErr)
	}
	if len(w.problems) > 0 {
		return ev.Failf("module-contract", "%s", strings.Join(w.problems[:min(3, len(w.problems))], "; "))
	}

	// devmod and module list
	calls := svc.Mem.DevmodCalls()
	if len(calls) == 0 || !calls[len(calls)-1].Complete {
		return ev.Failf("devmod-incomplete", "TO2 succeeded but the owner never stored a complete devmod (%d SetDevmod calls)", len(calls))
	}
	last := calls[len(calls)-1]
	if fmt.Sprintf("%+v", last.Devmod) != fmt.Sprintf("%+v", dev.Devmod) {
		return ev.Failf("devmod-fields", "owner stored devmod %+v, device has %+v", last.Devmod, dev.Devmod)
	}
	wantMods := []string{"devmod"}
	for n := range dev.Modules {
		wantMods = append(wantMods, n)
	}
	gotMods := append([]string{}, last.Modules...)
	sort.Strings(wantMods)
	sort.Strings(gotMods)
	if strings.Join(wantMods, ",") != strings.Join(gotMods, ",") {
		return ev.Failf("devmod-modules", "owner stored %d module names, device has %d; stored %.200q want %.200q", len(gotMods), len(wantMods), gotMods, wantMods)
	}

	// per module streams
	for i, om := range w.ownerMods {
		dm := w.deviceMods[i]
		if !om.done {
			return ev.Failf("module-not-run", "TO2 succeeded although owner module %s never reported done", om.name)
		}
		if !s.Mods[i].DeviceHas {
			if len(om.Got) != 1 || om.Got[0].Name != "active" || !bytes.Equal(om.Got[0].Data, []byte{0xf4}) {
				return ev.Failf("unknown-module", "owner module %s has no device counterpart but received %d messages (first %v)", om.name, len(om.Got), om.Got[:min(1, len(om.Got))])
			}
			if len(dm.Recv) != 0 || len(dm.Trans) != 0 {
				return ev.Failf("unknown-module", "unregistered device module %s got callbacks", om.name)
			}
			continue
		}
		if len(om.Got) == 0 || om.Got[0].Name != "active" || !bytes.Equal(om.Got[0].Data, []byte{0xf5}) {
			return ev.Failf("active-reply", "owner module %s: first message from the device is not active=true: %v", om.name, om.Got[:min(1, len(om.Got))])
		}
		if dm.recvBeforeActive || len(dm.Trans) != 1 || !dm.Trans[0] {
			return ev.Failf("activation", "device module %s: transitions %v, receive before activation: %v", om.name, dm.Trans, dm.recvBeforeActive)
		}
		if d := diffStreams(om.Sent, dm.Recv); d != "" {
			return ev.Failf("stream:owner->device", "module %s owner→device: %s", om.name, d)
		}
		if d := diffStreams(dm.Sent, om.Got[1:]); d != "" {
			return ev.Failf("stream:device->owner", "module %s device→owner (ownMTU %d): %s", om.name, s.OwnMTU, d)
		}
	}
	for _, n := range extras {
		dm := dev.Modules[n].(*devMod)
		if len(dm.Recv) != 0 || len(dm.Trans) != 0 {
			return ev.Failf("unknown-module", "device module %s without owner counterpart got callbacks", n)
		}
	}

	// owner modules one after another
	cur := 0
	for _, e := range w.seq {
		name := e[2:]
		for cur < len(w.ownerMods) && w.ownerMods[cur].name != name {
			cur++
		}
		if cur == len(w.ownerMods) {
			return ev.Failf("module-order", "owner module events out of order: %v", w.seq)
		}
	}

	// Done exactly when the last module completed
	n70, after := 0, false
	for _, t := range types {
		if t == 70 {
			n70++
			after = true
		} else if after {
			return ev.Failf("done-timing", "messages after Done: %v", types)
		}
	}
	if n70 != 1 {
		return ev.Failf("done-timing", "%d Done messages: %v", n70, types)
	}
	if len(w.ownerMods) > 0 && w.doneAt68 != w.req68 {
		return ev.Failf("done-timing", "the last owner module reported done during DeviceServiceInfo #%d but the device sent %d of them before Done", w.doneAt68, w.req68)
	}
	return res
}

// ---------------------------------------------------------------------------
// generator
// ---------------------------------------------------------------------------

func genMTU(t *rapid.T, label string) int {
	if rapid.IntRange(0, 2).Draw(t, label+"-kind") == 0 {
		return rapid.IntRange(minMTU, 65535).Draw(t, label)
	}
	return rapid.SampledFrom([]int{256, 257, 263, 280, 300, 512, 1024, 1300, 1301, 4096, 16384, 65535}).Draw(t, label)
}

func genSize(t *rapid.T, mtu int, label string, lo int) int {
	var v int
	switch rapid.IntRange(0, 5).Draw(t, label+"-kind") {
	case 0, 1:
		v = rapid.IntRange(lo, 40).Draw(t, label)
	case 2:
		v = mtu + rapid.IntRange(-45, 8).Draw(t, label)
	case 3:
		v = rapid.IntRange(1, 4).Draw(t, label+"-k")*mtu + rapid.IntRange(-60, 8).Draw(t, label)
	case 4:
		v = rapid.IntRange(lo, 3000).Draw(t, label)
	default:
		v = rapid.IntRange(lo, 70000).Draw(t, label)
	}
	return max(v, lo)
}

func genOps(t *rapid.T, mtu int, label string) []DevOp {
	n := rapid.SampledFrom([]int{0, 0, 1, 1, 1, 2, 3, 5}).Draw(t, label+"-n")
	var ops []DevOp
	for i := 0; i < n; i++ {
		if rapid.IntRange(0, 4).Draw(t, label+"-isyield") == 0 {
			ops = append(ops, DevOp{Yield: true})
			continue
		}
		ops = append(ops, DevOp{Name: rapid.IntRange(0, len(msgNames)-1).Draw(t, label+"-name"), Size: genSize(t, mtu, label+"-size", 1), Writes: rapid.SampledFrom([]int{0, 0, 1, 3}).Draw(t, label+"-writes")})
	}
	return ops
}

func GenScript(t *rapid.T) Script {
	s := Script{Cfg: rapid.SampledFrom([]int{0, 0, 0, 0, 1, 2}).Draw(t, "cfg"), DevMTU: genMTU(t, "devmtu"), OwnMTU: genMTU(t, "ownmtu")}
	if rapid.IntRange(0, 9).Draw(t, "default-ownmtu") == 0 {
		s.OwnMTU = 0
	}
	s.Extra = rapid.SampledFrom([]int{0, 0, 0, 1, 3, 10, 40, 120, 200}).Draw(t, "extra")
	s.ExtraLen = rapid.IntRange(1, 40).Draw(t, "extralen")
	s.Optional = rapid.Bool().Draw(t, "optional")
	if rapid.IntRange(0, 3).Draw(t, "sched-on") == 0 {
		s.Sched = rapid.IntRange(1, 1<<20).Draw(t, "sched")
	}
	own := s.OwnMTU
	if own == 0 {
		own = 1300
	}
	nm := rapid.SampledFrom([]int{0, 1, 1, 1, 2, 2, 3, 4}).Draw(t, "nmods")
	for i := 0; i < nm; i++ {
		m := ModScript{DeviceHas: rapid.IntRange(0, 6).Draw(t, "devhas") != 0, DoneWithLast: rapid.Bool().Draw(t, "donewithlast"), NameLen: rapid.SampledFrom([]int{0, 0, 5, 30}).Draw(t, "namelen")}
		nr := rapid.IntRange(0, 4).Draw(t, "nrounds")
		for r := 0; r < nr; r++ {
			rd := OwnRound{Block: rapid.IntRange(0, 4).Draw(t, "block") == 0}
			nmsg := rapid.SampledFrom([]int{0, 1, 1, 2, 3, 6}).Draw(t, "nmsgs")
			for k := 0; k < nmsg; k++ {
				rd.Msgs = append(rd.Msgs, OwnMsg{Name: rapid.IntRange(0, len(msgNames)-1).Draw(t, "mname"), Size: genSize(t, s.DevMTU, "msize", 8), Reply: genOps(t, own, "reply")})
			}
			rd.YieldReply = genOps(t, own, "yreply")
			m.Rounds = append(m.Rounds, rd)
		}
		if rapid.IntRange(0, 2).Draw(t, "activeyield") == 0 {
			m.ActiveYield = genOps(t, own, "ayield")
		}
		s.Mods = append(s.Mods, m)
	}
	Sanitize(&s)
	return s
}

