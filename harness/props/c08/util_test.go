//go:build verif

package c08

import "verif/harness/wire"

type wireProve = wire.ProveOVHdr

func wireParse(b []byte) (*wire.ProveOVHdr, error) { return wire.ParseProveOVHdr(b) }
