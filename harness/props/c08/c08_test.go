//go:build verif

// C08 — server effects happen only through in-order, session-bound message sequences.
package c08

import (
	"bytes"
	"context"
	"crypto/rand"
	"fmt"
	"os"
	"strings"
	"testing"
	"time"

	"github.com/fido-device-onboard/go-fdo/cbor"
	"pgregory.net/rapid"

	"verif/harness/deploy"
	"verif/harness/ev"
	"verif/harness/keys"
	"verif/harness/peer"
	"verif/harness/refcbor"
)

const (
	pDI = iota
	pTO0
	pTO1
	pTO2
)

type step struct {
	Act   string `json:"act"`   // start next replay skip token clienterr
	Slot  int    `json:"slot"`  // session slot 0..3
	Proto int    `json:"proto"` // for start
	Dev   int    `json:"dev"`   // device 0/1
	K     int    `json:"k"`
	Tok   string `json:"tok,omitempty"`
}

type seqDesc struct {
	Backend string `json:"backend"` // mem | sqlite
	Reuse   bool   `json:"reuse"`
	Steps   []step `json:"steps"`
}

type sent struct {
	typ  int
	body []byte
}

type session struct {
	proto    int
	dev      int
	token    string
	phase    int // protocol-specific progress
	live     bool
	started  bool
	recorded []sent
	// protocol data
	secret   []byte // DI device secret
	diResp   []byte // DI.SetCredentials body
	nonce    []byte // TO0/TO1 nonce
	m        *peer.Device
	isDone   bool
	diSerial string
}

type world struct {
	cfg     deploy.Config
	svc     *deploy.Service
	devs    []*deploy.Device
	vouch   [][]byte // encoded vouchers of the pre-provisioned devices (as extended to the owner)
	reg     []bool   // device registered at the rendezvous server
	slots   [4]*session
	byToken map[string]*session
	gone    [2]bool // the device's voucher was replaced by a completed TO2: its other TO2 sessions can no longer proceed
	cleanup func()
}

// (ModuleStateMachine.Module is a pure lookup and not counted as invoking a module)
var effectKinds = []string{"AddVoucher", "SetRVBlob", "ReplaceVoucher", "NextModule", "HandleInfo", "ProduceInfo"}

func newWorld(ctx context.Context, d seqDesc) (*world, error) {
	w := &world{cfg: deploy.Config{Key: "P-256", Enc: "x509", Kex: "ECDH256", Cipher: "A128GCM"}, byToken: map[string]*session{}, cleanup: func() {}}
	if d.Backend == "sqlite" {
		dir := deploy.ScratchDir()
		svc, db, err := deploy.NewSQLiteService("aio", dir+"/state.db", deploy.KeyOwner1, true)
		if err != nil {
			os.RemoveAll(dir)
			return nil, err
		}
		w.svc = svc
		w.cleanup = func() { db.Close(); os.RemoveAll(dir) }
	} else {
		w.svc = deploy.NewMemService("aio", deploy.KeyOwner1)
	}
	w.svc.Reuse = d.Reuse
	w.svc.AutoExtendTo = deploy.OwnerPublic(w.cfg, deploy.KeyOwner1) // manufacturer key == owner key #1 here: self-extension makes the voucher usable for TO0/TO2
	w.svc.Modules.Factory = func(ctx context.Context) []deploy.NamedModule {
		tr, _ := cbor.Marshal(true)
		return []deploy.NamedModule{{Name: "probe", Mod: &deploy.ScriptOwnerModule{ModName: "probe", J: w.svc.J, Steps: []deploy.OwnerStep{{Send: []deploy.KVMsg{{Name: "active", Body: tr}}, Done: true}}}}}
	}
	for i, idx := range []int{deploy.KeyDevice, deploy.KeyDevice2} {
		dv := deploy.NewDevice(w.cfg, idx)
		dv.Reuse = d.Reuse
		if err := dv.DI(ctx, deploy.NewLink(w.svc)); err != nil {
			w.cleanup()
			return nil, fmt.Errorf("DI %d: %w", i, err)
		}
		ov, err := w.svc.State.Voucher(ctx, dv.Cred.GUID)
		if err != nil {
			w.cleanup()
			return nil, err
		}
		vb, _ := cbor.Marshal(ov)
		w.devs, w.vouch, w.reg = append(w.devs, dv), append(w.vouch, vb), append(w.reg, false)
	}
	return w, nil
}

// expected returns the message types that are the legitimate next message of a live session.
func (s *session) expected() []int {
	if s == nil || !s.live {
		return nil
	}
	switch s.proto {
	case pDI:
		if s.phase == 1 {
			return []int{12}
		}
	case pTO0:
		if s.phase == 1 {
			return []int{22}
		}
	case pTO1:
		if s.phase == 1 {
			return []int{32}
		}
	case pTO2:
		switch s.phase {
		case 1:
			return []int{62, 64}
		case 2:
			return []int{66}
		case 3:
			if s.isDone {
				return []int{70}
			}
			return []int{68}
		}
	}
	return nil
}

func contains(a []int, x int) bool {
	for _, v := range a {
		if v == x {
			return true
		}
	}
	return false
}

// build produces the honest message of the given type for a session in its current state.
func (w *world) build(s *session, typ int) ([]byte, bool) {
	dv := w.devs[s.dev]
	switch typ {
	case 12:
		if s.diResp == nil {
			return nil, false
		}
		return peer.SetHmacBody(s.secret, s.diResp, false)
	case 22:
		if s.nonce == nil {
			return nil, false
		}
		return peer.OwnerSignBody(w.cfg, w.vouch[s.dev], 3600, s.nonce, keys.Get(w.cfg.Kind(), deploy.KeyOwner1)), true
	case 32:
		if s.nonce == nil {
			return nil, false
		}
		return peer.ProveToRVBody(w.cfg, dv.Key, dv.Cred.GUID[:], s.nonce), true
	case 62:
		return refcbor.Encode(refcbor.A(refcbor.U(0))), true
	case 64:
		if s.m == nil || s.m.Prove == nil {
			return nil, false
		}
		if s.m.XB == nil {
			if err := s.m.KeyExchange(); err != nil {
				return nil, false
			}
		}
		return s.m.ProveDeviceBody(peer.Token64{}), true
	case 66, 68, 70:
		if s.m == nil || s.m.XB == nil {
			return nil, false
		}
		var plain []byte
		switch typ {
		case 66:
			plain = peer.ReadyBody(0, nil, 1300)
			if !w.svc.Reuse {
				plain = peer.ReadyBody(5, make([]byte, 32), 1300)
			}
		case 68:
			if s.phase == 3 && len(s.recorded) > 0 && s.recorded[len(s.recorded)-1].typ == 68 {
				plain = peer.ServiceInfoBody(false)
			} else {
				plain = peer.ServiceInfoBody(false, peer.DevmodKVs("probe")...)
			}
		default:
			plain = peer.DoneBody(s.m.Prove.CUPHNonce)
		}
		b, err := s.m.Encrypt(plain)
		return b, err == nil
	}
	return nil, false
}

func damage(tok, how string) string {
	if tok == "" {
		tok = "QUJDREVGR0hJSktMTU5PUFFSU1RVVldYWVo"
	}
	switch how {
	case "none", "empty":
		return ""
	case "flip-id":
		b := []byte(tok)
		if b[1] == 'A' {
			b[1] = 'B'
		} else {
			b[1] = 'A'
		}
		return string(b)
	case "flip-mac":
		b := []byte(tok)
		i := len(b) - 2
		if b[i] == 'A' {
			b[i] = 'B'
		} else {
			b[i] = 'A'
		}
		return string(b)
	case "trunc":
		return tok[:len(tok)/3]
	case "short":
		return tok[:4]
	case "nonb64":
		return "!!!*not*base64*!!!"
	default:
		r := make([]byte, 24)
		_, _ = rand.Read(r)
		return fmt.Sprintf("%x", r)
	}
}

// known is consulted when a violation is about to be reported: a listed known
// finding is counted and the sequence continues behind it.
var known = func(key string) bool { return false }

func evalSeq(d seqDesc) ev.Result {
	ctx, cancel := context.WithTimeout(context.Background(), 60*time.Second)
	defer cancel()
	w, err := newWorld(ctx, d)
	if err != nil {
		return ev.Failf("setup", "%v", err)
	}
	defer w.cleanup()
	h := w.svc.Handler
	illegit, progressed := 0, 0
	trace := []string{}

	// post sends a request and applies the generic oracle.
	//   tokOwner: the session the token belongs to (nil: none / forged)
	//   legit:    the model says this request is the legitimate next message of tokOwner
	ctxKey := ""
	// tolerate: the request IS the in-order next message of its live session, but the session may
	// legitimately fail because another session of the same device already replaced the voucher;
	// the message's normal effects are allowed, success is not required
	tolerate := false
	post := func(typ int, token string, body []byte, tokOwner *session, legit bool, what string) (peer.Resp, *ev.Result) {
		ck := ctxKey
		ctxKey = ""
		tol := tolerate
		tolerate = false
		j0 := w.svc.J.Len()
		r := peer.Post(h, typ, token, body)
		trace = append(trace, fmt.Sprintf("%s:%d->%d/%d", what, typ, r.Status, r.Type))
		fail := func(key, format string, a ...any) *ev.Result {
			res := ev.Failf(key, "%s [%s] trace: %s", fmt.Sprintf(format, a...), d.Backend, strings.Join(trace[max(0, len(trace)-14):], " "))
			return &res
		}
		if r.Panic != "" {
			return r, fail(peer.PanicKey(r.Panic), "server panicked on %s (type %d)", what, typ)
		}
		var effects []string
		for _, e := range w.svc.J.Since(j0) {
			for _, k := range effectKinds {
				if e.Kind == k {
					effects = append(effects, e.Kind)
				}
			}
		}
		for _, e := range effects {
			if e == "ReplaceVoucher" && tokOwner != nil {
				w.gone[tokOwner.dev] = true // however it came about, the device's old voucher is gone now
			}
		}
		allowed := map[string]bool{}
		if legit || tol {
			switch typ {
			case 12:
				allowed["AddVoucher"] = true
			case 22:
				allowed["SetRVBlob"] = true
			case 68:
				allowed["NextModule"], allowed["HandleInfo"], allowed["ProduceInfo"] = true, true, true
			case 70:
				allowed["ReplaceVoucher"] = true
			}
		}
		for _, e := range effects {
			if !allowed[e] {
				why := "the request is not the legitimate next message of a live session"
				if legit {
					why = "that effect does not belong to this message type"
				}
				key := fmt.Sprintf("effect-%s-on-%d", e, typ)
				if ck != "" {
					key += ":" + ck
				}
				if known(key) {
					continue
				}
				return r, fail(key, "%s (type %d) caused %v although %s", what, typ, effects, why)
			}
		}
		isStart := typ == 10 || typ == 20 || typ == 30 || typ == 60
		success := r.Status == 200 && r.Type == typ+1
		if !isStart && typ != 255 {
			if tokOwner == nil || !tokOwner.live {
				// missing, forged, foreign or dead token: must be an error
				if success {
					return r, fail(fmt.Sprintf("served-%d-without-live-session", typ+1), "%s (type %d) was answered with %d although the token is missing, forged or no longer valid", what, typ, r.Type)
				}
			}
			if tokOwner != nil && tokOwner.live {
				if legit && !success {
					return r, fail(fmt.Sprintf("legit-%d-refused", typ), "%s: the legitimate message %d of a live session was refused (%d/%d %x)", what, typ, r.Status, r.Type, r.Body[:min(len(r.Body), 50)])
				}
				if !success {
					tokOwner.live = false // any error ends the session
				}
				if success && (r.Type == 13 || r.Type == 23 || r.Type == 33 || r.Type == 71) {
					tokOwner.live = false // a final message ends the session, however it was reached
				}
			}
		}
		if r.Status == 200 && r.Type != typ+1 && r.Type != 255 && typ != 255 {
			return r, fail("odd-response", "%s (type %d) answered 200 with Message-Type %d", what, typ, r.Type)
		}
		return r, nil
	}

	// advance updates the model after a successful legitimate message.
	advance := func(s *session, typ int, body []byte, r peer.Resp) {
		s.recorded = append(s.recorded, sent{typ, body})
		switch typ {
		case 12, 22, 32, 70:
			s.live = false // final message: token invalidated
			if typ == 22 {
				w.reg[s.dev] = true
			}
			if typ == 70 && !w.svc.Reuse {
				w.gone[s.dev] = true // the voucher was replaced: the device's old GUID is gone from the owner
			}
		case 62:
		case 64:
			s.phase = 2
		case 66:
			s.phase = 3
		case 68:
			if pt, err := s.m.Decrypt(r.Body); err == nil {
				if n, err := refcbor.ParseAll(pt); err == nil && len(n.Items) == 3 && n.Items[1].Kind == refcbor.Simple && n.Items[1].Val == 21 {
					s.isDone = true
				}
			}
		}
	}

	for i, st := range d.Steps {
		slot := st.Slot % len(w.slots)
		s := w.slots[slot]
		switch st.Act {
		case "start":
			ns := &session{proto: st.Proto % 4, dev: st.Dev % 2}
			dv := w.devs[ns.dev]
			var typ int
			var body []byte
			switch ns.proto {
			case pDI:
				typ = 10
				ns.secret = make([]byte, 32)
				_, _ = rand.Read(ns.secret)
				ns.diSerial = fmt.Sprintf("sm-%d", i)
				body = peer.AppStartBody(w.cfg, keys.Get(w.cfg.Kind(), deploy.KeyStranger), ns.diSerial, "statemachine")
			case pTO0:
				typ, body = 20, []byte{0x80}
			case pTO1:
				typ, body = 30, peer.HelloRVBody(w.cfg, dv.Key, dv.Cred.GUID[:])
			default:
				typ = 60
				ns.m = peer.NewDevice(w.cfg, dv.Key, dv.Cred.GUID[:], h)
				body = ns.m.HelloBody()
			}
			// a protocol start ignores any token it is sent with
			tok := ""
			if st.Tok != "" && s != nil {
				tok = s.token
			}
			r, bad := post(typ, tok, body, nil, false, fmt.Sprintf("step %d start(proto %d)", i, ns.proto))
			if bad != nil {
				return *bad
			}
			ok := r.Status == 200 && r.Type == typ+1
			expectOK := true
			if ns.proto == pTO1 && !w.reg[ns.dev] {
				expectOK = false
			}
			if ns.proto == pTO2 && !d.Reuse {
				// after a completed replace-TO2 the old GUID is gone; the model does not track this: accept either
				expectOK = ok
			}
			if ok != expectOK {
				return ev.Failf("start-outcome", "step %d: start of protocol %d answered %d/%d, expected success=%v [%s] %s", i, ns.proto, r.Status, r.Type, expectOK, d.Backend, strings.Join(trace, " "))
			}
			if !ok {
				continue
			}
			ns.token, ns.live, ns.started, ns.phase = r.Token, true, true, 1
			ns.recorded = append(ns.recorded, sent{typ, body})
			switch ns.proto {
			case pDI:
				ns.diResp = r.Body
			case pTO0, pTO1:
				ns.nonce = peer.FirstBytes(r.Body)
			default:
				ns.m.Token = r.Token
				if p, err := parseProve(r.Body); err == nil {
					ns.m.Prove = p
					ns.m.Sess = w.cfg.Suite().New(bytes.Clone(p.XA), w.cfg.CipherID())
				}
			}
			w.slots[slot] = ns
			w.byToken[ns.token] = ns
			progressed++

		case "next":
			if s == nil || !s.started {
				continue
			}
			exp := s.expected()
			var typ int
			if len(exp) > 0 {
				typ = exp[st.K%len(exp)]
			} else {
				// dead session: resend what would have been next (or the last message)
				typ = s.recorded[len(s.recorded)-1].typ
				switch typ {
				case 10, 20, 30, 60:
					typ += 2
				}
				illegit++
			}
			body, ok := w.build(s, typ)
			if !ok {
				continue
			}
			legit := len(exp) > 0
			if legit && s.proto == pTO2 && w.gone[s.dev] {
				// doomed: another session of this device already replaced the voucher; the messages are
				// still in order within their own session, so they may be served or refused
				legit, tolerate = false, true
			}
			doomed := tolerate
			r, bad := post(typ, s.token, body, s, legit, fmt.Sprintf("step %d next(slot %d)", i, slot))
			if bad != nil {
				return *bad
			}
			if (legit || doomed) && r.Status == 200 && r.Type == typ+1 {
				advance(s, typ, body, r)
				progressed++
			}

		case "replay":
			if s == nil || len(s.recorded) < 2 {
				continue
			}
			rec := s.recorded[1+st.K%(len(s.recorded)-1)]
			// a recorded message is legitimate again only if it happens to be what the session expects and is not bound to a consumed state
			legit := s.live && contains(s.expected(), rec.typ) && (rec.typ == 62)
			if rec.typ == 68 && s.live && contains(s.expected(), 68) {
				continue // replaying an encrypted 68 while 68 is expected is indistinguishable from a fresh one for the server
			}
			illegit++
			r, bad := post(rec.typ, s.token, rec.body, s, legit, fmt.Sprintf("step %d replay(slot %d, type %d)", i, slot, rec.typ))
			if bad != nil {
				return *bad
			}
			_ = r

		case "skip":
			if s == nil || !s.live || s.proto != pTO2 {
				continue
			}
			var typ int
			switch s.phase {
			case 1:
				typ = []int{66, 68, 70}[st.K%3] // before ProveDevice
			case 2:
				typ = []int{68, 70}[st.K%2] // 66 skipped
			case 3:
				if s.isDone {
					continue
				}
				typ = 70 // Done before the owner said IsDone
				ctxKey = "done-before-isdone"
			default:
				continue
			}
			if typ >= 66 && s.m.XB == nil {
				if err := s.m.KeyExchange(); err != nil {
					continue
				}
			}
			body, ok := w.build(s, typ)
			if !ok {
				continue
			}
			illegit++
			if _, bad := post(typ, s.token, body, s, false, fmt.Sprintf("step %d skip(slot %d, phase %d)", i, slot, s.phase)); bad != nil {
				return *bad
			}

		case "token":
			if s == nil || !s.live {
				continue
			}
			exp := s.expected()
			if len(exp) == 0 {
				continue
			}
			typ := exp[st.K%len(exp)]
			body, ok := w.build(s, typ)
			if !ok {
				continue
			}
			var tok string
			var owner *session
			switch st.Tok {
			case "otherproto", "othersame":
				for _, o := range w.slots {
					if o != nil && o != s && o.started && (o.proto == s.proto) == (st.Tok == "othersame") {
						tok, owner = o.token, o
					}
				}
				if owner == nil {
					continue
				}
				if st.Tok == "othersame" && (typ == 62 || typ == 12) {
					continue // not bound to the session: legitimately served for the other session
				}
			default:
				tok = damage(s.token, st.Tok)
			}
			illegit++
			if _, bad := post(typ, tok, body, owner, false, fmt.Sprintf("step %d token(slot %d, %s)", i, slot, st.Tok)); bad != nil {
				return *bad
			}

		case "clienterr":
			if s == nil || !s.started {
				continue
			}
			last := s.recorded[len(s.recorded)-1].typ
			// whatever the error message looks like, it ends the session
			eb := peer.ErrorBody(last)
			switch st.K {
			case 1:
				eb = peer.ErrorBody(99) // a previous-message type no protocol has
			case 2:
				if last >= 60 { // a type of another protocol
					eb = peer.ErrorBody(11)
				} else {
					eb = peer.ErrorBody(61)
				}
			case 3:
				eb = eb[:3] // truncated
			case 4:
				eb = nil
			case 5:
				eb = []byte{0xff, 0x00, 0x17}
			}
			if _, bad := post(255, s.token, eb, s, false, fmt.Sprintf("step %d clienterr(slot %d, variant %d)", i, slot, st.K)); bad != nil {
				return *bad
			}
			s.live = false
			illegit++
		}
	}
	res := ev.Result{Class: fmt.Sprintf("%s/illegit%d", d.Backend, min(illegit, 5)), NonTrivial: illegit > 0 && progressed > 1}
	return res
}

func parseProve(body []byte) (*wireProve, error) { return wireParse(body) }

func genSeq(t *rapid.T) seqDesc {
	d := seqDesc{Backend: "mem", Reuse: rapid.Bool().Draw(t, "reuse")}
	if rapid.IntRange(0, 23).Draw(t, "sqlite") == 0 {
		d.Backend = "sqlite"
	}
	n := rapid.IntRange(4, 24).Draw(t, "nsteps")
	for i := 0; i < n; i++ {
		st := step{Slot: rapid.IntRange(0, 3).Draw(t, "slot"), K: rapid.IntRange(0, 5).Draw(t, "k")}
		st.Act = rapid.SampledFrom([]string{"start", "next", "next", "next", "next", "next", "replay", "skip", "skip", "token", "token", "clienterr"}).Draw(t, "act")
		switch st.Act {
		case "start":
			st.Proto = rapid.SampledFrom([]int{pDI, pTO0, pTO1, pTO2, pTO2, pTO2}).Draw(t, "proto")
			st.Dev = rapid.IntRange(0, 1).Draw(t, "dev")
			if rapid.IntRange(0, 3).Draw(t, "withtok") == 0 {
				st.Tok = "x"
			}
		case "token":
			st.Tok = rapid.SampledFrom([]string{"none", "otherproto", "othersame", "flip-id", "flip-mac", "trunc", "short", "nonb64", "garbage"}).Draw(t, "tok")
		}
		d.Steps = append(d.Steps, st)
	}
	return d
}

func TestC08(t *testing.T) {
	r := ev.Start(t, "C08")
	defer r.Finish()

	// hand-written sequences: positive controls and the canonical illegitimate orders, on both backends
	scripts := map[string][]step{
		"all-honest": {{Act: "start", Slot: 0, Proto: pDI}, {Act: "next", Slot: 0}, {Act: "start", Slot: 1, Proto: pTO0}, {Act: "next", Slot: 1}, {Act: "start", Slot: 2, Proto: pTO1}, {Act: "next", Slot: 2},
			{Act: "start", Slot: 3, Proto: pTO2}, {Act: "next", Slot: 3}, {Act: "next", Slot: 3, K: 1}, {Act: "next", Slot: 3}, {Act: "next", Slot: 3}, {Act: "next", Slot: 3}, {Act: "next", Slot: 3}, {Act: "next", Slot: 3}},
		"di-client-error-then-sethmac":  {{Act: "start", Slot: 0, Proto: pDI}, {Act: "clienterr", Slot: 0}, {Act: "next", Slot: 0}},
		"di-client-error-unknown-prev":  {{Act: "start", Slot: 0, Proto: pDI}, {Act: "clienterr", Slot: 0, K: 1}, {Act: "next", Slot: 0}},
		"di-client-error-foreign-prev":  {{Act: "start", Slot: 0, Proto: pDI}, {Act: "clienterr", Slot: 0, K: 2}, {Act: "next", Slot: 0}},
		"di-client-error-truncated":     {{Act: "start", Slot: 0, Proto: pDI}, {Act: "clienterr", Slot: 0, K: 3}, {Act: "next", Slot: 0}},
		"to0-client-error-empty":        {{Act: "start", Slot: 0, Proto: pTO0}, {Act: "clienterr", Slot: 0, K: 4}, {Act: "next", Slot: 0}},
		"to0-client-error-garbage":      {{Act: "start", Slot: 0, Proto: pTO0}, {Act: "clienterr", Slot: 0, K: 5}, {Act: "next", Slot: 0}},
		"to2-client-error-unknown-prev": {{Act: "start", Slot: 0, Proto: pTO2}, {Act: "next", Slot: 0}, {Act: "clienterr", Slot: 0, K: 1}, {Act: "next", Slot: 0}},
		"to2-client-error-truncated":    {{Act: "start", Slot: 0, Proto: pTO2}, {Act: "next", Slot: 0}, {Act: "clienterr", Slot: 0, K: 3}, {Act: "next", Slot: 0}},
		"to2-skip-66":                   {{Act: "start", Slot: 0, Proto: pTO2}, {Act: "next", Slot: 0}, {Act: "next", Slot: 0, K: 1}, {Act: "skip", Slot: 0, K: 0}, {Act: "next", Slot: 0}},
		"to2-done-before-isdone":        {{Act: "start", Slot: 0, Proto: pTO2}, {Act: "next", Slot: 0, K: 1}, {Act: "next", Slot: 0}, {Act: "skip", Slot: 0}},
		"to2-done-without-prove":        {{Act: "start", Slot: 0, Proto: pTO2}, {Act: "skip", Slot: 0, K: 2}},
		"finished-token-reuse":          {{Act: "start", Slot: 0, Proto: pTO0}, {Act: "next", Slot: 0}, {Act: "next", Slot: 0}, {Act: "replay", Slot: 0}},
		"damaged-tokens": {{Act: "start", Slot: 0, Proto: pTO2}, {Act: "token", Slot: 0, Tok: "short"}, {Act: "token", Slot: 0, Tok: "flip-mac", K: 1}, {Act: "token", Slot: 0, Tok: "nonb64"}, {Act: "token", Slot: 0, Tok: "trunc"},
			{Act: "token", Slot: 0, Tok: "none"}, {Act: "next", Slot: 0, K: 1}, {Act: "token", Slot: 0, Tok: "flip-id"}, {Act: "next", Slot: 0}},
	}
	known = func(key string) bool { return r.HitKnown("scripts", key) }
	r.SetRule("scripts", "hand-written sequences on both backends (in-memory and real SQLite): the all-honest run of all four protocols, client error then SetHMAC, TO2 without 66, Done before the owner said IsDone, Done without ProveDevice, re-use of a finished token, damaged tokens; same oracle as sequences")
	ev.Enum(r, "scripts", true, func(yield func(seqDesc) bool) {
		i := 0
		for _, name := range []string{"all-honest", "di-client-error-then-sethmac", "to2-skip-66", "to2-done-before-isdone", "to2-done-without-prove", "finished-token-reuse", "damaged-tokens"} {
			for _, be := range []string{"mem", "sqlite"} {
				for _, reuse := range []bool{false, true} {
					i++
					if !r.Mine(i) {
						continue
					}
					if !yield(seqDesc{Backend: be, Reuse: reuse, Steps: scripts[name]}) {
						return
					}
				}
			}
		}
	}, func(d seqDesc) ev.Result {
		res := evalSeq(d)
		if res.Fail == "" {
			res.NonTrivial = true
		}
		return res
	})

	r.SetRule("sequences", "rapid state machine over one server (all four responders behind the real HTTP handler; in-memory backend, 1/24 real SQLite) with two provisioned devices and four session slots; 4..24 steps drawn from: start a protocol (10/20/30/60, optionally carrying some token), send the honest next message of a slot's session (12/22/32/62/64/66/68/70 built by manual peers from the CDDL), replay a recorded request, skip ahead in TO2 (66/68/70 before ProveDevice, 68/70 without 66, Done before the owner reported IsDone), send the honest next message under another token (none, other protocol's, another session's, id/MAC bit flip, truncated, 4 characters, non-base64, random), send a client error 255 (well-formed, naming an unknown or foreign previous message type, truncated, empty, or garbage). Reference model per token: protocol, phase, liveness (dead after the final message, after any error response, after a client error). Oracle after every step: journal delta contains AddVoucher/SetRVBlob/module calls/ReplaceVoucher only if the model says this is the legitimate 12/22/68/70 of a live session; a request under a missing, forged, foreign or dead token is never answered with the success type; legitimate messages succeed; no panic. Non-trivial: ≥1 illegitimate request after some progress; distinct by sequence.")
	known = func(key string) bool { return r.HitKnown("sequences", key) }
	ev.Rapid(r, "sequences", ev.N{Quick: 5000, Thorough: 120000}, genSeq, evalSeq)
	ev.CheckWitness(r, "sequences", evalSeq)
	ev.CheckWitness(r, "scripts", evalSeq)
}
