//go:build verif

package c16

import (
	"bytes"
	"context"
	"fmt"
	"io"
	"time"

	"github.com/fido-device-onboard/go-fdo/cbor"
	"github.com/fido-device-onboard/go-fdo/serviceinfo"
	"pgregory.net/rapid"

	"verif/harness/deploy"
	"verif/harness/ev"
)

// lateCase: 2..4 owner modules run one after another; some of them are "fire and
// forget": they report done together with their last message, while the device
// module still reacts to that message, so the reaction reaches the owner when the
// NEXT module is already current. What the library does with such a late reaction
// is its own business (it hands it to the current module); what must still hold is
// that every owner module's output reaches the device module of the same name,
// complete and in order, that no device module receives anything else, and that
// every device module with a counterpart is activated exactly once.
type lateMod struct {
	Msgs      []int `json:"msgs"`      // sizes of the owner messages (one round each)
	FireForget bool `json:"fireforget"` // done reported with the last message
	ReplySize int   `json:"replysize"` // the device module's reaction to every message (0: none)
}

type lateCase struct {
	Cfg    int       `json:"cfg"`
	OwnMTU int       `json:"ownmtu"`
	Mods   []lateMod `json:"mods"`
}

func genLate(t *rapid.T) lateCase {
	c := lateCase{Cfg: rapid.IntRange(0, 1).Draw(t, "cfg"), OwnMTU: rapid.SampledFrom([]int{0, 300, 1300}).Draw(t, "ownmtu")}
	n := rapid.IntRange(2, 4).Draw(t, "nmods")
	for i := 0; i < n; i++ {
		m := lateMod{FireForget: rapid.IntRange(0, 2).Draw(t, "ff") > 0, ReplySize: rapid.SampledFrom([]int{0, 1, 5, 40, 400, 1500}).Draw(t, "reply")}
		for k := 0; k < rapid.IntRange(1, 3).Draw(t, "nmsgs"); k++ {
			m.Msgs = append(m.Msgs, rapid.SampledFrom([]int{1, 8, 100, 900}).Draw(t, "msize"))
		}
		c.Mods = append(c.Mods, m)
	}
	return c
}

func evalLate(c lateCase) ev.Result {
	cfgs := []deploy.Config{{Key: "P-256", Enc: "x509", Kex: "ECDH256", Cipher: "A128GCM"}, {Key: "P-384", Enc: "x5chain", Kex: "ECDH384", Cipher: "COSEAES256CBC"}}
	cfg := cfgs[((c.Cfg%len(cfgs))+len(cfgs))%len(cfgs)]
	if len(c.Mods) < 2 {
		return ev.Result{Skip: true}
	}
	ctx, cancel := context.WithTimeout(context.Background(), 60*time.Second)
	defer cancel()
	svc := deploy.NewMemService("aio", deploy.KeyOwner1)
	svc.AutoExtendTo = deploy.OwnerPublic(cfg, deploy.KeyOwner1)
	if c.OwnMTU >= 256 {
		svc.OwnerMTU = uint16(c.OwnMTU)
	}
	tr, _ := cbor.Marshal(true)
	name := func(i int) string { return fmt.Sprintf("mod%c", 'a'+i) }
	body := func(i, k, size int) []byte {
		b, _ := cbor.Marshal(bytes.Repeat([]byte{byte('A' + i), byte('0' + k)}, (size+1)/2)[:size])
		return b
	}
	owners := make([]*deploy.ScriptOwnerModule, len(c.Mods))
	devs := make([]*deploy.RecDeviceModule, len(c.Mods))
	dev := deploy.NewDevice(cfg, deploy.KeyDevice)
	dev.Modules = map[string]serviceinfo.DeviceModule{}
	var mods []deploy.NamedModule
	for i, m := range c.Mods {
		i, m := i, m
		if len(m.Msgs) == 0 {
			m.Msgs = []int{1}
		}
		steps := []deploy.OwnerStep{{Send: []deploy.KVMsg{{Name: "active", Body: tr}}}}
		for k, sz := range m.Msgs {
			st := deploy.OwnerStep{Send: []deploy.KVMsg{{Name: "m", Body: body(i, k, min(max(sz, 1), 900))}}}
			if k == len(m.Msgs)-1 && m.FireForget {
				st.Done = true
			}
			steps = append(steps, st)
		}
		if !m.FireForget {
			steps = append(steps, deploy.OwnerStep{Done: true})
		}
		owners[i] = &deploy.ScriptOwnerModule{ModName: name(i), Steps: steps}
		mods = append(mods, deploy.NamedModule{Name: name(i), Mod: owners[i]})
		devs[i] = &deploy.RecDeviceModule{}
		if m.ReplySize > 0 {
			rs := min(m.ReplySize, 4000)
			devs[i].OnReceive = func(n string, b []byte, respond func(string) io.Writer, yield func()) {
				if n == "m" {
					_, _ = respond("r").Write(bytes.Repeat([]byte{byte('a' + i)}, rs))
				}
			}
		}
		dev.Modules[name(i)] = devs[i]
	}
	svc.Modules.Factory = func(context.Context) []deploy.NamedModule { return mods }
	if err := dev.DI(ctx, deploy.NewLink(svc)); err != nil {
		return ev.Failf("setup", "DI: %v", err)
	}
	var runErr error
	if !ev.WithTimeout(50*time.Second, func() { _, runErr = dev.TO2(ctx, deploy.NewLink(svc), nil) }) {
		cancel()
		return ev.Failf("hang:to2", "TO2 with late replies did not return within 50 s")
	}
	tag := fmt.Sprintf("%s ownMTU=%d mods=%+v", cfg.Key, c.OwnMTU, c.Mods)
	late := false
	for i, m := range c.Mods {
		if m.FireForget && m.ReplySize > 0 && i < len(c.Mods)-1 {
			late = true
		}
	}
	if runErr != nil {
		return ev.Failf("late:to2-failed:"+normLate(runErr), "%s: TO2 failed: %v", tag, runErr)
	}
	for i, m := range c.Mods {
		calls := devs[i].Snapshot()
		nTrans, want := 0, 0
		var got [][]byte
		for _, cl := range calls {
			switch cl.Kind {
			case "Transition":
				if cl.Flag {
					nTrans++
				}
			case "Receive":
				if nTrans == 0 {
					return ev.Failf("late:receive-before-activation", "%s: device module %s received %q before it was activated", tag, name(i), cl.Name)
				}
				if cl.Name != "m" {
					return ev.Failf("late:foreign-message", "%s: device module %s received a message named %q", tag, name(i), cl.Name)
				}
				got = append(got, cl.Data)
			}
		}
		if nTrans != 1 {
			return ev.Failf("late:activation", "%s: device module %s was activated %d times (owner module %s ran)", tag, name(i), nTrans, name(i))
		}
		msgs := m.Msgs
		if len(msgs) == 0 {
			msgs = []int{1}
		}
		for k, sz := range msgs {
			w := body(i, k, min(max(sz, 1), 900))
			if want >= len(got) || !bytes.Equal(got[want], w) {
				return ev.Failf("late:stream:owner->device", "%s: device module %s did not receive message %d of owner module %s (it received %d messages; another module got it or it was lost)", tag, name(i), k, name(i), len(got))
			}
			want++
		}
		if len(got) != want {
			return ev.Failf("late:stream:owner->device", "%s: device module %s received %d messages, its owner module sent %d", tag, name(i), len(got), want)
		}
	}
	res := ev.OK(fmt.Sprintf("late/mods=%d/late-reaction=%v", len(c.Mods), late))
	res.NonTrivial = late
	return res
}

func normLate(err error) string {
	s := err.Error()
	var b []byte
	for i := 0; i < len(s); i++ {
		if s[i] < '0' || s[i] > '9' {
			b = append(b, s[i])
		}
	}
	if len(b) > 90 {
		b = b[len(b)-90:]
	}
	return string(b)
}
