//go:build verif

// C16 — TO2 service info is delivered exactly once, in order, until modules finish.
package c16

import (
	"testing"

	"pgregory.net/rapid"

	"verif/harness/ev"
	. "verif/harness/siscript"
)

type (
	script    = Script
	devOp     = DevOp
	ownMsg    = OwnMsg
	ownRound  = OwnRound
	modScript = ModScript
)

var eval, genScript, sanitize = Eval, GenScript, Sanitize

func TestC16(t *testing.T) {
	r := ev.Start(t, "C16")
	defer r.Finish()

	r.SetRule("devmod", "exhaustive over the grid: 0..200 extra device module names × name length {1,7,24,40} × device send MTU {256,257,263,280,300,512,1300,65535}: a complete TO2 with one scripted module; the owner must store exactly the device's devmod fields and the complete module list, and TO2 must succeed")
	ev.Enum(r, "devmod", true, func(yield func(script) bool) {
		i := 0
		for _, mtu := range []int{256, 257, 263, 280, 300, 512, 1300, 65535} {
			for _, l := range []int{1, 7, 24, 40} {
				for extra := 0; extra <= 200; extra++ {
					if !r.Thorough() && extra > 12 && extra%9 != 0 && extra < 190 {
						continue
					}
					i++
					if !r.Mine(i) {
						continue
					}
					s := script{DevMTU: 1300, OwnMTU: mtu, Extra: extra, ExtraLen: l, Optional: extra%2 == 0, Mods: []modScript{{DeviceHas: true, Rounds: []ownRound{{Msgs: []ownMsg{{Size: 20, Reply: []devOp{{Size: 9}}}}}}}}}
					if !yield(s) {
						return
					}
				}
			}
		}
	}, eval)

	r.SetRule("yields", "exhaustive over short device reaction sequences: every sequence of up to 4 actions from {small message, message of MTU size, yield} as reply to one owner message and as Yield reaction, at ownMTU 256 and 1300: all bytes must arrive in order, TO2 must succeed")
	ev.Enum(r, "yields", true, func(yield func(script) bool) {
		i := 0
		for _, mtu := range []int{256, 1300} {
			alphabet := []devOp{{Size: 5}, {Size: mtu, Name: 1}, {Yield: true}}
			var seqs [][]devOp
			var build func(prefix []devOp, n int)
			build = func(prefix []devOp, n int) {
				seqs = append(seqs, append([]devOp{}, prefix...))
				if n == 0 {
					return
				}
				for _, a := range alphabet {
					build(append(prefix, a), n-1)
				}
			}
			build(nil, 4)
			for _, sq := range seqs {
				for where := 0; where < 2; where++ {
					i++
					if !r.Mine(i) {
						continue
					}
					rd := ownRound{Msgs: []ownMsg{{Size: 16}}}
					if where == 0 {
						rd.Msgs[0].Reply = sq
					} else {
						rd.YieldReply = sq
					}
					if !yield(script{DevMTU: 1300, OwnMTU: mtu, Mods: []modScript{{DeviceHas: true, Rounds: []ownRound{rd, {Msgs: []ownMsg{{Size: 12}}}}}}}) {
						return
					}
				}
			}
		}
	}, eval)

	r.SetRule("streams", "schedule search for the device's concurrent producer/consumer loop: one module whose device side answers one owner message with 100..400 small messages, each written with 2..4 Write calls a few hundred nanoseconds to microseconds apart (busy-wait, pseudo-random from the descriptor) while the TO2 send loop drains the pipe concurrently; same oracle (every byte arrives once, in order)")
	ev.Rapid(r, "streams", ev.N{Quick: 960, Thorough: 24000}, func(t *rapid.T) script {
		n := rapid.IntRange(100, 400).Draw(t, "n")
		var ops []devOp
		for i := 0; i < n; i++ {
			ops = append(ops, devOp{Name: rapid.IntRange(0, 1).Draw(t, "name"), Size: rapid.IntRange(2, 60).Draw(t, "size"), Writes: rapid.IntRange(1, 3).Draw(t, "writes")})
		}
		s := script{DevMTU: 1300, OwnMTU: rapid.SampledFrom([]int{300, 1300, 65535}).Draw(t, "ownmtu"), Sched: rapid.IntRange(1, 1<<20).Draw(t, "sched"),
			Mods: []modScript{{DeviceHas: true, Rounds: []ownRound{{Msgs: []ownMsg{{Size: 16, Reply: ops}}}, {Msgs: []ownMsg{{Size: 12}}}}}}}
		sanitize(&s)
		return s
	}, eval)

	r.SetRule("scripts", "generated TO2 runs (real device role, real owner responders over the HTTP transport/handler, in-memory state): 0..4 owner modules (each: active handshake, 0..4 rounds of 0..6 messages with sizes dense around the device MTU, IsMoreServiceInfo blocks, done with or after the last round), device modules that react to each owner message and in Yield with sequences of yields and messages (sizes dense around multiples of the owner MTU, up to 70000 bytes, split over 1..4 writes), modules missing on the device, 0..200 extra device modules with names of 1..40 bytes, both MTUs from 256 to 65535 (or owner default), optional devmod fields, 3 cipher/key configurations, optional schedule perturbation (Gosched/sleep in every module callback). Oracle: TO2 succeeds; owner stored exactly the device's devmod and module set; per module the merged owner→device and device→owner streams are equal on both sides; activation before Receive; missing modules answer active=false and get nothing; owner modules strictly sequential; exactly one Done, sent right after the exchange in which the last module reported done. Non-trivial: ≥ 2 modules, or a device message larger than the MTU, or a yield, or extra modules.")
	ev.Rapid(r, "scripts", ev.N{Quick: 2500, Thorough: 150000}, genScript, eval)
	r.SetRule("late-replies", "2..4 owner modules in sequence, some of which report done together with their last message while the device module still reacts to it (the reaction arrives when the next owner module is current), reaction sizes 0..1500, owner MTU default/300/1300. What the library does with the late reaction itself is not judged; oracle: TO2 succeeds, every device module with a counterpart is activated exactly once before it receives anything, and it receives exactly the messages its own owner module sent, in order (no owner output is delivered to another module or lost). Non-trivial: at least one late reaction.")
	ev.Rapid(r, "late-replies", ev.N{Quick: 400, Thorough: 20000}, genLate, evalLate)
	ev.CheckWitness(r, "scripts", eval)
	ev.CheckWitness(r, "streams", eval)
}
