//go:build verif

// C02 — the owner serves only a peer that proved the device key for this session.
package c02

import (
	"bytes"
	"context"
	"crypto"
	"crypto/rand"
	"fmt"
	"strings"
	"testing"
	"time"

	"github.com/fido-device-onboard/go-fdo/cbor"
	"github.com/fido-device-onboard/go-fdo/kex"
	"pgregory.net/rapid"

	"verif/harness/deploy"
	"verif/harness/ev"
	"verif/harness/keys"
	"verif/harness/peer"
	"verif/harness/refcbor"
	"verif/harness/refverify"
)

type proof struct {
	Kind    string           `json:"kind"` // honest skip signer replay-session replay-device ueid claims mutate xb
	Signer  string           `json:"signer,omitempty"`
	UEIDOp  string           `json:"ueid_op,omitempty"`
	ClaimOp string           `json:"claim_op,omitempty"`
	Mut     refcbor.Mutation `json:"mut,omitempty"`
	XBOp    string           `json:"xb_op,omitempty"`
}

type later struct {
	Type int    `json:"type"` // 66 68 70
	Mode string `json:"mode"` // honest plaintext selfkeys garbage othersession
}

type caseDesc struct {
	Cfg   deploy.Config `json:"config"`
	Proof proof         `json:"proof"`
	Later []later       `json:"later"`
	// Interleave: after this session's HelloDevice/GetOVNextEntry and before its ProveDevice,
	// another session of ANOTHER enrolled device starts on the same server ("hello": 60 and 62s,
	// "proved": up to a served ProveDevice)
	Interleave string `json:"interleave,omitempty"`
}

type world struct {
	cfg          deploy.Config
	owner        *deploy.Service
	dev, dev2    *deploy.Device
	entries      int
}

func newWorld(ctx context.Context, cfg deploy.Config) (*world, error) {
	w := &world{cfg: cfg}
	mfg := deploy.NewMemService("mfg", deploy.KeyMfg)
	w.owner = deploy.NewMemService("owner", deploy.KeyOwner1)
	w.owner.Modules.Factory = func(ctx context.Context) []deploy.NamedModule {
		tr, _ := cbor.Marshal(true)
		return []deploy.NamedModule{{Name: "probe", Mod: &deploy.ScriptOwnerModule{ModName: "probe", J: w.owner.J, Steps: []deploy.OwnerStep{
			{Send: []deploy.KVMsg{{Name: "active", Body: tr}}, Done: true},
		}}}}
	}
	for i, idx := range []int{deploy.KeyDevice, deploy.KeyDevice2} {
		d := deploy.NewDevice(cfg, idx)
		if err := d.DI(ctx, deploy.NewLink(mfg)); err != nil {
			return nil, fmt.Errorf("DI: %w", err)
		}
		if _, err := deploy.TransferVoucher(ctx, cfg, mfg, deploy.KeyMfg, w.owner, deploy.KeyOwner1, d.Cred.GUID); err != nil {
			return nil, fmt.Errorf("transfer: %w", err)
		}
		if i == 0 {
			w.dev = d
		} else {
			w.dev2 = d
		}
	}
	w.entries = 1
	return w, nil
}

// begin runs 60, 62.. for a manual device and prepares its key exchange.
func begin(w *world, d *deploy.Device) (*peer.Device, error) {
	m := peer.NewDevice(w.cfg, d.Key, d.Cred.GUID[:], w.owner.Handler)
	if r, err := m.SendHello(); err != nil {
		if r.Panic != "" {
			return nil, fmt.Errorf("%s", peer.PanicKey(r.Panic))
		}
		return nil, err
	}
	for i := 0; i < w.entries; i++ {
		if r := m.GetEntry(int64(i)); !r.OK(63) {
			return nil, fmt.Errorf("GetOVNextEntry(%d) answered %d/%d", i, r.Status, r.Type)
		}
	}
	if err := m.KeyExchange(); err != nil {
		return nil, err
	}
	return m, nil
}

// refProof decides whether a ProveDevice body is a valid proof for this session.
func refProof(body []byte, devPub crypto.PublicKey, sessionNonce, guid []byte) (bool, string) {
	s1, err := refverify.ParseSign1(body)
	if err != nil {
		return false, "not a COSE_Sign1: " + err.Error()
	}
	if !s1.Tagged || s1.PayloadNil {
		return false, "token must be a tagged COSE_Sign1 with payload"
	}
	if ok, why := refverify.VerifySign1(s1, devPub, nil, nil); !ok {
		return false, "signature does not verify under the voucher's device key: " + why
	}
	eat, err := refcbor.ParseAll(s1.Payload)
	if err != nil || eat.Kind != refcbor.Map {
		return false, "EAT payload is not a map"
	}
	n := refverify.MapGet(eat, 10)
	if n == nil || n.Kind != refcbor.Bytes || !bytes.Equal(n.Bytes, sessionNonce) {
		return false, "nonce claim is not the nonce issued in this session"
	}
	u := refverify.MapGet(eat, 256)
	if u == nil || u.Kind != refcbor.Bytes || !bytes.Equal(u.Bytes, append([]byte{1}, guid...)) {
		return false, "UEID claim does not name the voucher's GUID"
	}
	return true, ""
}

func signerFor(w *world, who string) (crypto.Signer, bool) {
	kind := w.cfg.Kind()
	switch who {
	case "stranger":
		return keys.Get(kind, deploy.KeyStranger), w.cfg.PSS()
	case "owner":
		return keys.Get(kind, deploy.KeyOwner1), w.cfg.PSS()
	case "device2":
		return w.dev2.Key, w.cfg.PSS()
	default: // other kind
		other := "ec384"
		if kind == "ec384" {
			other = "ec256"
		}
		return keys.Get(other, deploy.KeyDevice), false
	}
}

func evalCase(d caseDesc) ev.Result {
	ctx, cancel := context.WithTimeout(context.Background(), 30*time.Second)
	defer cancel()
	w, err := newWorld(ctx, d.Cfg)
	if err != nil {
		return ev.Failf("setup", "%v", err)
	}
	tag := fmt.Sprintf("%s/%s/%s/%s proof=%+v interleave=%q", d.Cfg.Key, d.Cfg.Enc, d.Cfg.Kex, d.Cfg.Cipher, d.Proof, d.Interleave)

	// recorded material from other sessions
	var replayBody []byte
	var earlierNonce []byte
	switch d.Proof.Kind {
	case "replay-session":
		m0, err := begin(w, w.dev)
		if err != nil {
			return ev.Failf("setup", "earlier session: %v", err)
		}
		earlierNonce = m0.Prove.CUPHNonce
		replayBody = m0.ProveDeviceBody(peer.Token64{})
		if r := peer.Post(w.owner.Handler, 64, m0.Token, replayBody); !r.OK(65) {
			return ev.Failf("setup", "earlier session ProveDevice answered %d/%d", r.Status, r.Type)
		}
	case "replay-device":
		m0, err := begin(w, w.dev2)
		if err != nil {
			return ev.Failf("setup", "other device session: %v", err)
		}
		replayBody = m0.ProveDeviceBody(peer.Token64{})
	}

	m, err := begin(w, w.dev)
	if err != nil {
		if strings.HasPrefix(err.Error(), "panic:") {
			return ev.Failf(err.Error(), "%s: owner panicked before ProveDevice", tag)
		}
		return ev.Failf("setup", "%s: %v", tag, err)
	}
	if d.Interleave != "" {
		o, err := begin(w, w.dev2)
		if err != nil {
			return ev.Failf("setup", "%s: interleaved session of the other device: %v", tag, err)
		}
		if d.Interleave == "proved" {
			if r := peer.Post(w.owner.Handler, 64, o.Token, o.ProveDeviceBody(peer.Token64{})); !r.OK(65) {
				return ev.Failf("setup", "%s: interleaved session ProveDevice answered %d/%d", tag, r.Status, r.Type)
			}
		}
	}
	j0 := w.owner.J.Len()
	devPub := w.dev.Key.Public()
	sessionNonce := m.Prove.CUPHNonce
	// freshness: the nonce the owner issues for ProveDevice must differ between two sessions of
	// the same device, or a recorded token would prove nothing
	if earlierNonce != nil && bytes.Equal(earlierNonce, sessionNonce) {
		return ev.Failf("nonce-not-fresh", "%s: the owner issued the same ProveDevice nonce %x in two sessions", tag, sessionNonce)
	}

	// ---- ProveDevice -------------------------------------------------------
	var body, origBody []byte
	honestXB := true
	switch d.Proof.Kind {
	case "skip":
	case "honest":
		body = m.ProveDeviceBody(peer.Token64{})
	case "signer":
		sk, pss := signerFor(w, d.Proof.Signer)
		body = m.ProveDeviceBody(peer.Token64{Signer: sk, PSS: pss})
	case "replay-session", "replay-device":
		body = replayBody
	case "alg-label":
		// a token made without the device key (signed by a stranger of the same or of the other key
		// family, or carrying random signature bytes) whose protected alg names another registered
		// algorithm than the key it was made with
		kindOf := w.cfg.Kind()
		signer := keys.Get(kindOf, deploy.KeyStranger)
		if d.Proof.Mut.Arg%3 == 1 {
			other := "ec256"
			if !keys.IsRSA(kindOf) {
				other = "rsa2048"
			}
			signer = keys.Get(other, deploy.KeyStranger)
		}
		tok := m.ProveDeviceBody(peer.Token64{Signer: signer, PSS: w.cfg.PSS() && keys.IsRSA(kindOf)})
		tree, _ := refcbor.ParseAll(tok)
		arr := tree.Items[0]
		algs := []int64{-7, -35, -36, -257, -258, -259, -37, -38, -39}
		label := algs[d.Proof.Mut.Node%len(algs)]
		arr.Items[0] = refcbor.B(refcbor.Encode(refcbor.M(refcbor.I(1), refcbor.I(label))))
		if d.Proof.Mut.Arg%3 == 2 {
			sig := make([]byte, []int{64, 96, 132, 256, 384}[d.Proof.Mut.Node%5])
			_, _ = rand.Read(sig)
			arr.Items[3] = refcbor.B(sig)
		}
		body = refcbor.EncodeKeepOrder(tree)
	case "accomplice":
		// a complete, fresh, internally consistent token of ANOTHER device enrolled with this owner:
		// its key, its UEID, this session's nonce (two changes that are each refused alone)
		sk, pss := signerFor(w, "device2")
		body = m.ProveDeviceBody(peer.Token64{Signer: sk, PSS: pss, UEID: refcbor.B(append([]byte{1}, w.dev2.Cred.GUID[:]...))})
	case "ueid":
		g := append([]byte{}, m.GUID...)
		var u *refcbor.Node
		switch d.Proof.UEIDOp {
		case "other-device":
			u = refcbor.B(append([]byte{1}, w.dev2.Cred.GUID[:]...))
		case "first-byte":
			g[0] ^= 0x80
			u = refcbor.B(append([]byte{1}, g...))
		case "last-byte":
			g[15] ^= 1
			u = refcbor.B(append([]byte{1}, g...))
		case "type-byte":
			u = refcbor.B(append([]byte{2}, g...))
		case "no-type-byte":
			u = refcbor.B(g)
		case "short":
			u = refcbor.B(append([]byte{1}, g[:15]...))
		case "long":
			u = refcbor.B(append(append([]byte{1}, g...), 0))
		case "text":
			u = &refcbor.Node{Kind: refcbor.Text, Bytes: append([]byte{1}, g...)}
		default:
			u = refcbor.B(nil)
		}
		body = m.ProveDeviceBody(peer.Token64{UEID: u})
	case "claims":
		t := peer.Token64{}
		switch d.Proof.ClaimOp {
		case "omit-nonce":
			t.OmitNonce = true
		case "omit-ueid":
			t.OmitUEID = true
		case "omit-fdo":
			t.OmitFDO = true
		case "omit-setup-nonce":
			t.OmitSetup = true
		case "nonce-text":
			t.Nonce = &refcbor.Node{Kind: refcbor.Text, Bytes: sessionNonce}
		case "nonce-int":
			t.Nonce = refcbor.U(7)
		case "nonce-array":
			t.Nonce = refcbor.A(refcbor.B(sessionNonce))
		case "nonce-bool":
			t.Nonce = refcbor.Bool(true)
		case "nonce-null":
			t.Nonce = refcbor.Null()
		case "nonce-stale":
			t.Nonce = refcbor.B(make([]byte, 16))
		case "nonce-short":
			t.Nonce = refcbor.B(sessionNonce[:15])
		case "nonce-long":
			t.Nonce = refcbor.B(append(append([]byte{}, sessionNonce...), 0))
		case "nonce-long16":
			t.Nonce = refcbor.B(append(append([]byte{}, sessionNonce...), sessionNonce...))
		case "nonce-is-hello-nonce":
			t.Nonce = refcbor.B(m.Nonce)
		case "swap-nonce-ueid":
			t.Nonce, t.UEID = refcbor.B(append([]byte{1}, m.GUID...)), refcbor.B(sessionNonce)
		case "setup-nonce-short":
			t.SetupNonce = refcbor.B(make([]byte, 8))
		case "setup-nonce-int":
			t.SetupNonce = refcbor.U(1)
		case "fdo-not-array":
			t.FDO = refcbor.B(m.XB)
		case "fdo-empty":
			t.FDO = refcbor.A()
		case "fdo-two":
			t.FDO = refcbor.A(refcbor.B(m.XB), refcbor.B(m.XB))
		case "fdo-text":
			t.FDO = refcbor.A(refcbor.T("x"))
		}
		body = m.ProveDeviceBody(t)
		honestXB = !strings.HasPrefix(d.Proof.ClaimOp, "fdo") && d.Proof.ClaimOp != "omit-fdo"
	case "xb":
		honestXB = false
		var f *refcbor.Node
		switch d.Proof.XBOp {
		case "empty":
			f = refcbor.A(refcbor.B(nil))
		case "zeros":
			f = refcbor.A(refcbor.B(make([]byte, len(m.XB))))
		case "truncated":
			f = refcbor.A(refcbor.B(m.XB[:len(m.XB)/2]))
		case "bitflip":
			x := append([]byte{}, m.XB...)
			x[len(x)/2] ^= 0x10
			f = refcbor.A(refcbor.B(x))
		default:
			x := make([]byte, 300)
			_, _ = rand.Read(x)
			f = refcbor.A(refcbor.B(x))
		}
		body = m.ProveDeviceBody(peer.Token64{FDO: f})
	case "mutate":
		origBody = m.ProveDeviceBody(peer.Token64{})
		tree, _ := refcbor.ParseAll(origBody)
		refcbor.ExpandBstr(tree)
		mt, _, ok := refcbor.Apply(tree, d.Proof.Mut)
		if !ok {
			return ev.Trivial("mutation-not-applicable")
		}
		body = refcbor.EncodeKeepOrder(mt)
		if bytes.Equal(body, origBody) {
			return ev.Trivial("no-change")
		}
	default:
		return ev.Result{Skip: true}
	}
	proved := false
	refOK, refWhy := false, "no ProveDevice was sent"
	token := m.Token
	if body != nil {
		refOK, refWhy = refProof(body, devPub, sessionNonce, m.GUID)
		r := peer.Post(w.owner.Handler, 64, token, body)
		if r.Panic != "" {
			return ev.Failf(peer.PanicKey(r.Panic), "%s: owner panicked on ProveDevice", tag)
		}
		switch {
		case r.OK(65):
			if !refOK {
				if origBody != nil {
					o, e1 := refcbor.ParseAll(origBody)
					n, e2 := refcbor.ParseAll(body)
					if e1 == nil && e2 == nil && refcbor.LenientEqual(o, n) {
						return ev.Trivial("equivalent-encoding")
					}
				}
				return ev.Failf("setup-device-served:"+d.Proof.Kind, "%s: owner answered SetupDevice although: %s", tag, refWhy)
			}
			proved = true
			if honestXB {
				pt, err := m.Decrypt(r.Body)
				if err != nil {
					return ev.Failf("tunnel-keys", "%s: SetupDevice does not decrypt under the keys derived from the token's xB: %v", tag, err)
				}
				if s, err := refverify.ParseSign1(pt); err != nil || s.PayloadNil {
					return ev.Failf("setup-device-shape", "%s: decrypted SetupDevice is not a COSE_Sign1", tag)
				}
			}
		case r.IsError():
			if d.Proof.Kind == "honest" {
				return ev.Failf("honest-proof-refused", "%s: the genuine device's proof was refused: %d/%d %x", tag, r.Status, r.Type, r.Body[:min(len(r.Body), 60)])
			}
		default:
			return ev.Failf("odd-response", "%s: ProveDevice answered status %d type %d", tag, r.Status, r.Type)
		}
	}

	// ---- later messages --------------------------------------------------------
	served := 0
	honestSoFar := proved && honestXB
	var other *peer.Device
	for i, l := range d.Later {
		var plain []byte
		switch l.Type {
		case 66:
			plain = peer.ReadyBody(0, nil, 1300)
		case 68:
			plain = peer.ServiceInfoBody(false, peer.DevmodKVs("probe")...)
		default:
			plain = peer.DoneBody(sessionNonce)
		}
		var msg []byte
		var perr error
		switch l.Mode {
		case "honest":
			msg, perr = m.Encrypt(plain)
		case "plaintext":
			msg = plain
		case "selfkeys", "zerokeys", "ffkeys":
			// keys the peer picks itself: random, or the degenerate all-zero / all-ones keys of the
			// cipher's key size (what a session that never completed its key exchange might be left with)
			cs := d.Cfg.CipherID().Suite()
			sek, svk := make([]byte, cs.EncryptAlg.KeySize()), []byte{}
			fill := func(b []byte) {
				switch l.Mode {
				case "selfkeys":
					_, _ = rand.Read(b)
				case "ffkeys":
					for i := range b {
						b[i] = 0xff
					}
				}
			}
			fill(sek)
			if cs.MacAlg != 0 {
				svk = make([]byte, cs.MacAlg.KeySize())
				fill(svk)
			}
			sc := kex.SessionCrypter{ID: d.Cfg.CipherID(), Cipher: cs, SEK: sek, SVK: svk}
			enc, err := sc.Encrypt(rand.Reader, cbor.RawBytes(plain))
			if err != nil {
				return ev.Failf("setup", "self-chosen keys: %v", err)
			}
			msg, _ = cbor.Marshal(enc)
		case "othersession":
			// protected under the keys of another (fully proven) session of the same device
			if other == nil {
				o, err := begin(w, w.dev)
				if err != nil {
					return ev.Failf("setup", "other session: %v", err)
				}
				if r := peer.Post(w.owner.Handler, 64, o.Token, o.ProveDeviceBody(peer.Token64{})); !r.OK(65) {
					return ev.Failf("setup", "other session ProveDevice: %d/%d", r.Status, r.Type)
				}
				other = o
			}
			msg, perr = other.Encrypt(plain)
		default:
			msg = make([]byte, 40)
			_, _ = rand.Read(msg)
		}
		if perr != nil || msg == nil {
			// no usable keys on the attacker's side (e.g. key exchange never completed): send plaintext instead
			msg = plain
			l.Mode = "plaintext"
		}
		r := peer.Post(w.owner.Handler, l.Type, token, msg)
		if r.Panic != "" {
			return ev.Failf(peer.PanicKey(r.Panic), "%s: owner panicked on message %d (%s)", tag, l.Type, l.Mode)
		}
		legit := honestSoFar && l.Mode == "honest"
		if r.Status == 200 && r.Type == l.Type+1 {
			served++
			if !legit {
				why := refWhy
				if proved {
					why = "the message was not protected under this session's keys (" + l.Mode + ")"
				}
				return ev.Failf(fmt.Sprintf("served-%d:%s", l.Type+1, map[bool]string{true: "after-proof", false: "without-proof"}[proved]), "%s: message %d (%s, step %d) was answered with %d although %s", tag, l.Type, l.Mode, i, r.Type, why)
			}
		} else if !r.IsError() {
			return ev.Failf("odd-response", "%s: message %d answered status %d type %d", tag, l.Type, r.Status, r.Type)
		} else {
			honestSoFar = false // session is dead after an error
		}
	}
	// ---- effects ---------------------------------------------------------------------
	effects := w.owner.J.Count(j0, "ReplaceVoucher", "Module", "NextModule", "HandleInfo", "ProduceInfo")
	if !proved && effects > 0 {
		return ev.Failf("effects-without-proof", "%s later=%v: %d owner effects (modules / voucher replacement) without a valid proof: %+v", tag, d.Later, effects, w.owner.J.Since(j0))
	}
	if d.Proof.Kind == "honest" {
		allHonest := len(d.Later) > 0 && d.Later[0].Type == 66 // (a session that skips 66 is rightly refused)
		for _, l := range d.Later {
			if l.Mode != "honest" {
				allHonest = false
			}
		}
		if allHonest && served == 0 {
			return ev.Failf("honest-session-refused", "%s: the genuine device's protected messages %v were all refused", tag, d.Later)
		}
	}
	cls := d.Proof.Kind
	switch d.Proof.Kind {
	case "signer":
		cls += "/" + d.Proof.Signer
	case "ueid":
		cls += "/" + d.Proof.UEIDOp
	case "claims":
		cls += "/" + d.Proof.ClaimOp
	case "xb":
		cls += "/" + d.Proof.XBOp
	}
	r := ev.OK(cls)
	sentLaterWithoutProof := false
	for range d.Later {
		if !proved {
			sentLaterWithoutProof = true
		}
	}
	r.NonTrivial = d.Proof.Kind != "honest" || sentLaterWithoutProof
	for _, l := range d.Later {
		if l.Mode != "honest" {
			r.NonTrivial = true
		}
	}
	r.ID = fmt.Sprintf("%s|%s|%s|%+v|%v", d.Cfg.Key+d.Cfg.Enc, d.Cfg.Kex, d.Cfg.Cipher, d.Proof, d.Later)
	return r
}

// ---- generators --------------------------------------------------------------

func validConfigs() []deploy.Config {
	var out []deploy.Config
	for _, k := range deploy.KeyNames {
		kexes := []string{deploy.DefaultKex(k)}
		switch k {
		case "RSA2048RESTR", "RSAPSS-2048":
			kexes = []string{"DHKEXid14", "ASYMKEX2048"}
		case "RSAPKCS-3072", "RSAPSS-3072":
			kexes = []string{"DHKEXid15", "ASYMKEX3072"}
		}
		for _, kx := range kexes {
			for _, c := range deploy.CipherNames {
				out = append(out, deploy.Config{Key: k, Enc: "x509", Kex: kx, Cipher: c})
			}
		}
	}
	return out
}

var (
	ueidOps  = []string{"other-device", "first-byte", "last-byte", "type-byte", "no-type-byte", "short", "long", "text", "empty"}
	claimOps = []string{"omit-nonce", "omit-ueid", "omit-fdo", "omit-setup-nonce", "nonce-text", "nonce-int", "nonce-array", "nonce-bool", "nonce-null", "nonce-stale", "nonce-short", "nonce-long", "nonce-long16", "nonce-is-hello-nonce", "swap-nonce-ueid", "setup-nonce-short", "setup-nonce-int", "fdo-not-array", "fdo-empty", "fdo-two", "fdo-text"}
	xbOps    = []string{"empty", "zeros", "truncated", "bitflip", "random"}
	signers  = []string{"stranger", "owner", "device2", "otherkind"}
)

func genLater(t *rapid.T) []later {
	var out []later
	if rapid.Bool().Draw(t, "ordered") {
		for _, typ := range []int{66, 68, 70} {
			out = append(out, later{Type: typ, Mode: rapid.SampledFrom([]string{"honest", "honest", "plaintext", "selfkeys", "zerokeys", "ffkeys", "garbage", "othersession"}).Draw(t, "mode")})
		}
		return out
	}
	for i := 0; i < rapid.IntRange(1, 4).Draw(t, "nlater"); i++ {
		out = append(out, later{Type: rapid.SampledFrom([]int{66, 68, 70}).Draw(t, "ltype"), Mode: rapid.SampledFrom([]string{"honest", "plaintext", "selfkeys", "zerokeys", "zerokeys", "ffkeys", "garbage", "othersession"}).Draw(t, "mode")})
	}
	return out
}

func genCase(t *rapid.T) caseDesc {
	cfgs := validConfigs()
	d := caseDesc{Cfg: rapid.SampledFrom(cfgs).Draw(t, "cfg")}
	if rapid.IntRange(0, 2).Draw(t, "cheap") != 0 {
		// bias to cheap key exchanges, all ciphers
		d.Cfg = deploy.Config{Key: rapid.SampledFrom([]string{"P-256", "P-384"}).Draw(t, "eckey"), Enc: rapid.SampledFrom(deploy.EncNames).Draw(t, "enc"), Cipher: rapid.SampledFrom(deploy.CipherNames).Draw(t, "cipher")}
		d.Cfg.Kex = deploy.DefaultKex(d.Cfg.Key)
	}
	kind := rapid.SampledFrom([]string{"honest", "skip", "signer", "replay-session", "replay-device", "accomplice", "alg-label", "ueid", "ueid", "claims", "claims", "claims", "mutate", "mutate", "mutate", "xb"}).Draw(t, "kind")
	d.Proof.Kind = kind
	switch kind {
	case "signer":
		d.Proof.Signer = rapid.SampledFrom(signers).Draw(t, "signer")
	case "ueid":
		d.Proof.UEIDOp = rapid.SampledFrom(ueidOps).Draw(t, "uop")
	case "claims":
		d.Proof.ClaimOp = rapid.SampledFrom(claimOps).Draw(t, "cop")
	case "xb":
		d.Proof.XBOp = rapid.SampledFrom(xbOps).Draw(t, "xop")
	case "mutate":
		d.Proof.Mut = refcbor.Mutation{Node: rapid.IntRange(0, 60).Draw(t, "node"), Op: "auto", Arg: int64(rapid.IntRange(-4000, 4000).Draw(t, "arg"))}
	case "alg-label":
		d.Proof.Mut = refcbor.Mutation{Node: rapid.IntRange(0, 44).Draw(t, "label"), Arg: int64(rapid.IntRange(0, 2).Draw(t, "how"))}
	}
	d.Later = genLater(t)
	if rapid.IntRange(0, 2).Draw(t, "interleave") == 0 {
		d.Interleave = rapid.SampledFrom([]string{"hello", "hello", "proved"}).Draw(t, "ikind")
	}
	return d
}

func TestC02(t *testing.T) {
	r := ev.Start(t, "C02")
	defer r.Finish()
	r.SetRule("controls", "exhaustive: every valid (key type, key exchange, cipher) combination: the honest manual device (built from the CDDL) reaches Done2: 60, 62, 64 → 65 decrypts under the keys derived from its own xB, 66 → 67, 68 → 69, 70 → 71")
	ev.Enum(r, "controls", true, func(yield func(caseDesc) bool) {
		for i, c := range validConfigs() {
			if !r.Mine(i) {
				continue
			}
			if !yield(caseDesc{Cfg: c, Proof: proof{Kind: "honest"}, Later: []later{{66, "honest"}, {68, "honest"}, {68, "honest"}, {70, "honest"}}}) {
				return
			}
		}
	}, func(d caseDesc) ev.Result {
		res := evalCase(d)
		if res.Fail == "" {
			res.NonTrivial = true
		}
		return res
	})
	r.SetRule("attacks", "an attack client against the real owner service behind the real HTTP handler: honest 60/62*, then a ProveDevice that is honest, omitted, signed by another key (stranger, owner, another device of this owner, key of another kind), a genuine token replayed from another session of this device or from another device, a fresh token of another enrolled device (its key AND its UEID, this session's nonce), a token made without the device key whose protected alg names any of the nine registered signature algorithms (stranger key of the same or the other family, or random signature bytes), a device-signed token whose UEID names another GUID (other device, first/last byte changed, wrong type byte, short, long, text) or whose claims are omitted / mistyped / stale / swapped (incl. the unprotected SetupDevice nonce and the FDO claim), one structure-aware mutation of the honest token, or a garbled key-exchange parameter; optionally with a session of another enrolled device started (or proven) on the same server between this session's HelloDevice and its ProveDevice; followed by 66/68/70 in or out of order, protected honestly, sent in plaintext, under self-chosen keys (random, all-zero, all-ones), under the keys of another proven session, or as garbage. Oracle: an independent reference decides from the bytes sent whether the token is signed by the voucher's device key over this session's nonce and the voucher GUID; SetupDevice(65) only for such a token (and then it decrypts under keys derived from the token's xB); 67/69/71 only after that and only for messages protected under this session's keys; without a valid proof the journal shows no ReplaceVoucher and no owner-module call; no panic. Non-trivial: any forged proof or any later message sent without proof or without the session keys; distinct by descriptor.")
	ev.Rapid(r, "attacks", ev.N{Quick: 6000, Thorough: 200000}, genCase, evalCase)
	ev.CheckWitness(r, "attacks", evalCase)
}
