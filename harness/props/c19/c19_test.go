//go:build verif

// C19 — concurrent onboardings through one server are isolated and race-free.
// This package is built with the race detector.
package c19

import (
	"bytes"
	"context"
	"fmt"
	"io"
	"os"
	"path/filepath"
	"runtime"
	"strings"
	"sync"
	"testing"
	"time"

	"github.com/fido-device-onboard/go-fdo/cbor"
	"github.com/fido-device-onboard/go-fdo/protocol"
	"github.com/fido-device-onboard/go-fdo/serviceinfo"
	"pgregory.net/rapid"

	"verif/harness/deploy"
	"verif/harness/ev"
	"verif/harness/siscript"
)

type fleet struct {
	Backend string `json:"backend"` // mem | sqlite
	N       int    `json:"n"`
	Procs   int    `json:"procs"` // GOMAXPROCS
	Seed    int    `json:"seed"`  // config mix and injected delays
	RSABits int    `json:"rsabits"`
	Delays  bool   `json:"delays"`
}

var ecCfgs = []deploy.Config{
	{Key: "P-256", Enc: "x509", Kex: "ECDH256", Cipher: "A128GCM"},
	{Key: "P-384", Enc: "x5chain", Kex: "ECDH384", Cipher: "COSEAES256CBC"},
	{Key: "P-256", Enc: "cose", Kex: "ECDH256", Cipher: "COSEAES256CTR"},
	{Key: "P-384", Enc: "x509", Kex: "ECDH384", Cipher: "A256GCM"},
}
var rsa2048Cfgs = []deploy.Config{
	{Key: "RSA2048RESTR", Enc: "x509", Kex: "DHKEXid14", Cipher: "COSEAES128CTR"},
	{Key: "RSAPSS-2048", Enc: "x509", Kex: "ASYMKEX2048", Cipher: "COSEAES128CBC"},
	{Key: "RSA2048RESTR", Enc: "x5chain", Kex: "ASYMKEX2048", Cipher: "A128GCM"},
}
var rsa3072Cfgs = []deploy.Config{
	{Key: "RSAPKCS-3072", Enc: "x509", Kex: "ASYMKEX3072", Cipher: "A256GCM"},
	{Key: "RSAPSS-3072", Enc: "x509", Kex: "DHKEXid15", Cipher: "COSEAES256CBC"},
}

type lcg struct {
	mu sync.Mutex
	x  uint32
}

func (l *lcg) next() uint32 {
	l.mu.Lock()
	defer l.mu.Unlock()
	l.x = l.x*1664525 + 1013904223
	return l.x >> 8
}

// tagOwner is the owner side of the "tag" module: it tells the device which
// device the server believes it is talking to and checks the answer.
type tagOwner struct {
	mu       sync.Mutex
	step     int
	want     string
	problems *problems
	rnd      *lcg
}

type problems struct {
	mu  sync.Mutex
	out []string
}

func (p *problems) add(format string, a ...any) {
	p.mu.Lock()
	p.out = append(p.out, fmt.Sprintf(format, a...))
	p.mu.Unlock()
}

func (m *tagOwner) HandleInfo(ctx context.Context, name string, body io.Reader) error {
	b, err := io.ReadAll(body)
	if err != nil {
		return err
	}
	dm, ok := serviceinfo.DevmodFromContext(ctx)
	if !ok {
		m.problems.add("owner module: no devmod in context")
		return nil
	}
	m.mu.Lock()
	defer m.mu.Unlock()
	if m.want == "" {
		m.want = dm.Device
	} else if m.want != dm.Device {
		m.problems.add("owner module instance of %s now sees devmod of %s", m.want, dm.Device)
	}
	if name == "whoami" {
		var got string
		if err := cbor.Unmarshal(b, &got); err != nil || got != dm.Device {
			m.problems.add("owner session of %s received module data %q (%v)", dm.Device, got, err)
		}
	}
	return nil
}

func (m *tagOwner) ProduceInfo(ctx context.Context, p *serviceinfo.Producer) (bool, bool, error) {
	if m.rnd != nil {
		for i := uint32(0); i < m.rnd.next()%4; i++ {
			runtime.Gosched()
		}
	}
	dm, _ := serviceinfo.DevmodFromContext(ctx)
	m.mu.Lock()
	defer m.mu.Unlock()
	m.step++
	tr, _ := cbor.Marshal(true)
	switch m.step {
	case 1:
		return false, false, p.WriteChunk("active", tr)
	case 2, 3:
		name := ""
		if dm != nil {
			name = dm.Device
		}
		b, _ := cbor.Marshal(name)
		return false, false, p.WriteChunk("youare", b)
	}
	return false, true, nil
}

// tagDevice is the device side: it checks that what arrives is addressed to it.
type tagDevice struct {
	tag      string
	problems *problems
	mu       sync.Mutex
	got      int
}

func (d *tagDevice) Transition(bool) error { return nil }
func (d *tagDevice) Receive(ctx context.Context, name string, body io.Reader, respond func(string) io.Writer, yield func()) error {
	b, err := io.ReadAll(body)
	if err != nil {
		return err
	}
	if name == "youare" {
		// consecutive messages of one name may arrive as one stream
		dec := cbor.NewDecoder(bytes.NewReader(b))
		for {
			var s string
			if err := dec.Decode(&s); err != nil {
				break
			}
			d.mu.Lock()
			d.got++
			d.mu.Unlock()
			if s != d.tag {
				d.problems.add("device %s received module data addressed to %q", d.tag, s)
			}
		}
		return cbor.NewEncoder(respond("whoami")).Encode(d.tag)
	}
	return nil
}
func (d *tagDevice) Yield(context.Context, func(string) io.Writer, func()) error { return nil }

func evalFleet(f fleet) ev.Result {
	if f.N < 1 {
		f.N = 1
	}
	old := runtime.GOMAXPROCS(max(1, f.Procs))
	defer runtime.GOMAXPROCS(old)
	ctx, cancel := context.WithTimeout(context.Background(), 280*time.Second)
	defer cancel()
	var svc *deploy.Service
	switch f.Backend {
	case "sqlite":
		dir := deploy.ScratchDir()
		defer os.RemoveAll(dir)
		s, db, err := deploy.NewSQLiteService("aio", filepath.Join(dir, "fleet.db"), deploy.KeyOwner1, true)
		if err != nil {
			return ev.Failf("setup", "sqlite: %v", err)
		}
		defer func() { _ = db.Close() }()
		svc = s
	default:
		svc = deploy.NewMemService("aio", deploy.KeyOwner1)
	}
	rsaCfgs := rsa2048Cfgs
	if f.RSABits == 3072 {
		rsaCfgs = rsa3072Cfgs
		svc.MfgBits = 3072
	} else {
		svc.MfgBits = 2048
	}
	mix := append(append([]deploy.Config{}, ecCfgs...), rsaCfgs...)
	pr := &problems{}
	rnd := &lcg{x: uint32(f.Seed)*2654435761 + 1}
	svc.Modules.Factory = func(context.Context) []deploy.NamedModule {
		m := &tagOwner{problems: pr}
		if f.Delays {
			m.rnd = rnd
		}
		return []deploy.NamedModule{{Name: "tag", Mod: m}}
	}
	type outcome struct {
		dev   *deploy.Device
		tag   string
		cfg   deploy.Config
		err   error
		stage string
		guid0 protocol.GUID
		mod   *tagDevice
	}
	outs := make([]*outcome, f.N)
	var wg sync.WaitGroup
	start := make(chan struct{})
	for i := 0; i < f.N; i++ {
		cfg := mix[(i+f.Seed)%len(mix)]
		o := &outcome{tag: fmt.Sprintf("device-%03d", i), cfg: cfg}
		o.dev = deploy.NewDevice(cfg, deploy.KeyDevice+i%2)
		o.dev.Serial = "sn-" + o.tag
		o.dev.Devmod.Device = o.tag
		o.mod = &tagDevice{tag: o.tag, problems: pr}
		o.dev.Modules = map[string]serviceinfo.DeviceModule{"tag": o.mod}
		outs[i] = o
		wg.Add(1)
		go func(i int, o *outcome) {
			defer wg.Done()
			<-start
			mk := func() *deploy.Link {
				l := deploy.NewLink(svc)
				if f.Delays {
					l.OnRequest = func(*deploy.Exchange) *deploy.Action {
						v := rnd.next()
						if v%3 == 0 {
							time.Sleep(time.Duration(v%700) * time.Microsecond)
						} else {
							runtime.Gosched()
						}
						return nil
					}
				}
				return l
			}
			o.stage = "DI"
			// AutoExtendTo is a per-service knob of the harness: all devices of a fleet
			// are extended to owner key #1 of their own key kind by the transfer below
			if o.err = o.dev.DI(ctx, mk()); o.err != nil {
				return
			}
			o.guid0 = o.dev.Cred.GUID
			o.stage = "extend"
			ov, err := svc.State.RemoveVoucher(ctx, o.guid0)
			if err != nil {
				o.err = err
				return
			}
			mfgKey, _, err := svc.State.ManufacturerKey(ctx, ov.Header.Val.ManufacturerKey.Type, ov.Header.Val.ManufacturerKey.RsaBits())
			if err != nil {
				o.err = err
				return
			}
			x, err := deploy.Extend(ov, mfgKey, deploy.OwnerPublic(cfg, deploy.KeyOwner1), nil)
			if err != nil {
				o.err = err
				return
			}
			if o.err = svc.State.AddVoucher(ctx, x); o.err != nil {
				return
			}
			o.stage = "TO0"
			if _, o.err = deploy.RegisterTO0(ctx, svc, mk(), o.guid0, deploy.DefaultAddrs(), 3600); o.err != nil {
				return
			}
			o.stage = "TO1"
			to1d, err := o.dev.TO1(ctx, mk())
			if err != nil {
				o.err = err
				return
			}
			o.stage = "TO2"
			_, o.err = o.dev.TO2(ctx, mk(), to1d)
		}(i, o)
	}
	done := make(chan struct{})
	go func() { wg.Wait(); close(done) }()
	close(start)
	select {
	case <-done:
	case <-time.After(250 * time.Second):
		cancel()
		return ev.Failf("hang:fleet", "%d concurrent devices on %s did not finish within 250 s", f.N, f.Backend)
	}
	tag := fmt.Sprintf("fleet backend=%s n=%d procs=%d seed=%d", f.Backend, f.N, f.Procs, f.Seed)
	var failed []string
	guids := map[protocol.GUID]string{}
	for _, o := range outs {
		if o.err != nil {
			failed = append(failed, fmt.Sprintf("%s (%s/%s) %s: %v", o.tag, o.cfg.Key, o.cfg.Kex, o.stage, o.err))
			continue
		}
		if why := deploy.Agreement(ctx, svc.State, svc.Mem, o.dev); why != "" {
			return ev.Failf("agreement", "%s: %s: %s", tag, o.tag, why)
		}
		for _, g := range []protocol.GUID{o.guid0, o.dev.Cred.GUID} {
			if prev, dup := guids[g]; dup {
				return ev.Failf("guid-collision", "%s: GUID %x used by %s and %s", tag, g[:4], prev, o.tag)
			}
			guids[g] = o.tag
		}
		if o.mod.got != 2 {
			return ev.Failf("module-data", "%s: %s received %d of 2 module messages", tag, o.tag, o.mod.got)
		}
	}
	if len(failed) > 0 {
		key := "device-failed:" + normalize(failed[0])
		return ev.Failf(key, "%s: %d of %d devices failed although each succeeds alone; first: %s", tag, len(failed), f.N, strings.Join(failed[:min(3, len(failed))], " | "))
	}
	if len(pr.out) > 0 {
		return ev.Failf("cross-session", "%s: %s", tag, strings.Join(pr.out[:min(3, len(pr.out))], "; "))
	}
	res := ev.OK(fmt.Sprintf("fleet/%s/n=%d/procs=%d", f.Backend, f.N, f.Procs))
	res.NonTrivial = f.N >= 2
	return res
}

func normalize(s string) string {
	// keep the stage and the tail of the message, drop device names and numbers
	i := strings.Index(s, ") ")
	if i >= 0 {
		s = s[i+2:]
	}
	var b strings.Builder
	for _, r := range s {
		if r >= '0' && r <= '9' {
			continue
		}
		b.WriteRune(r)
	}
	out := b.String()
	if len(out) > 90 {
		out = out[:40] + ".." + out[len(out)-48:]
	}
	return out
}

func evalPipeline(s siscript.Script) ev.Result {
	if s.Sched == 0 {
		s.Sched = 1
	}
	return siscript.Eval(s)
}

// ---- abort while a device module callback is still running ---------------------------------

type abortCase struct {
	Cfg     int    `json:"cfg"`
	Module  string `json:"module"`  // what the device module does in Receive: yield-then-wait | yield-then-long-sleep | bigwrite-then-wait
	Fault   string `json:"fault"`   // what happens to a DeviceServiceInfo (68) request: req-lost | resp-lost | error255
	At      int    `json:"at"`      // ordinal of the 68 request the fault hits
	DelayMs int    `json:"delayms"` // the module starts blocking after this delay
}

type waitingModule struct {
	kind    string
	delay   time.Duration
	started chan struct{}
	once    sync.Once
}

func (m *waitingModule) Transition(bool) error { return nil }
func (m *waitingModule) Receive(ctx context.Context, name string, body io.Reader, respond func(string) io.Writer, yield func()) error {
	_, _ = io.Copy(io.Discard, body)
	if name != "go" {
		return nil
	}
	time.Sleep(m.delay)
	switch m.kind {
	case "yield-then-wait", "yield-then-long-sleep":
		_, _ = respond("x").Write([]byte{0x01})
		yield()
	case "bigwrite-then-wait":
		_, _ = respond("x").Write(bytes.Repeat([]byte{0x41}, 3000)) // more than one MTU: the send loop is busy
	}
	m.once.Do(func() { close(m.started) })
	// a long-running operation that honours its context (a transfer, a command): it ends when the
	// context is cancelled, or after a long time on its own
	switch m.kind {
	case "yield-then-long-sleep":
		select {
		case <-ctx.Done():
		case <-time.After(45 * time.Second):
		}
	default:
		<-ctx.Done()
	}
	return ctx.Err()
}
func (m *waitingModule) Yield(context.Context, func(string) io.Writer, func()) error { return nil }

// evalAbort: when the exchange fails while a device module is in the middle of a long
// operation, fdo.TO2 must come back with an error promptly (it cancels the module's
// context) instead of waiting for the module or hanging.
func evalAbort(c abortCase) ev.Result {
	cfgList := []deploy.Config{{Key: "P-256", Enc: "x509", Kex: "ECDH256", Cipher: "A128GCM"}, {Key: "P-384", Enc: "x5chain", Kex: "ECDH384", Cipher: "COSEAES256CBC"}}
	cfg := cfgList[((c.Cfg%len(cfgList))+len(cfgList))%len(cfgList)]
	ctx, cancel := context.WithTimeout(context.Background(), 120*time.Second)
	defer cancel()
	svc := deploy.NewMemService("aio", deploy.KeyOwner1)
	svc.AutoExtendTo = deploy.OwnerPublic(cfg, deploy.KeyOwner1)
	tr, _ := cbor.Marshal(true)
	svc.Modules.Factory = func(context.Context) []deploy.NamedModule {
		return []deploy.NamedModule{{Name: "waiter", Mod: &deploy.ScriptOwnerModule{ModName: "waiter", Steps: []deploy.OwnerStep{
			{Send: []deploy.KVMsg{{Name: "active", Body: tr}}},
			{Send: []deploy.KVMsg{{Name: "go", Body: tr}}},
			{}, {}, {}, {}, {}, {Done: true},
		}}}}
	}
	dev := deploy.NewDevice(cfg, deploy.KeyDevice)
	wm := &waitingModule{kind: c.Module, delay: time.Duration(min(max(c.DelayMs, 0), 50)) * time.Millisecond, started: make(chan struct{})}
	dev.Modules = map[string]serviceinfo.DeviceModule{"waiter": wm}
	if err := dev.DI(ctx, deploy.NewLink(svc)); err != nil {
		return ev.Failf("setup", "DI: %v", err)
	}
	link := deploy.NewLink(svc)
	var mu sync.Mutex
	n68 := 0
	var faultAt time.Time
	at := min(max(c.At, 0), 6)
	fire := func() bool {
		// the fault hits the first 68 at or after ordinal `at` that is sent once the module is busy
		select {
		case <-wm.started:
		default:
			return false
		}
		mu.Lock()
		defer mu.Unlock()
		if !faultAt.IsZero() || n68 < at {
			return false
		}
		faultAt = time.Now()
		return true
	}
	link.OnRequest = func(ex *deploy.Exchange) *deploy.Action {
		if ex.ReqType != 68 {
			return nil
		}
		mu.Lock()
		n68++
		mu.Unlock()
		if c.Fault == "req-lost" && fire() {
			return &deploy.Action{DropErr: deploy.ErrDropped}
		}
		return nil
	}
	link.OnResponse = func(ex *deploy.Exchange) *deploy.Action {
		if ex.ReqType != 68 {
			return nil
		}
		switch c.Fault {
		case "resp-lost":
			if fire() {
				return &deploy.Action{DropErr: deploy.ErrDropped}
			}
		case "error255":
			if fire() {
				t255, st := uint8(255), 500
				return &deploy.Action{Body: []byte{0x85, 0x19, 0x01, 0xf4, 0x18, 0x44, 0x60, 0x00, 0x00}, MsgType: &t255, Status: st}
			}
		}
		return nil
	}
	done := make(chan error, 1)
	go func() { _, err := dev.TO2(ctx, link, nil); done <- err }()
	tag := fmt.Sprintf("%s/%s module=%s fault=%s at=%d delay=%dms", cfg.Key, cfg.Cipher, c.Module, c.Fault, at, c.DelayMs)
	// wait for TO2 to return (or for the watchdog after the fault)
	finished := func(err error) ev.Result {
		mu.Lock()
		fa := faultAt
		mu.Unlock()
		if fa.IsZero() {
			if os.Getenv("VERIF_DEBUG") != "" {
				fmt.Fprintf(os.Stderr, "DEBUG %s: ended before the fault: err=%v\n", tag, err)
			}
			if err == nil {
				return ev.Trivial("abort/completed-before-fault")
			}
			return ev.Trivial("abort/ended-before-fault")
		}
		if err == nil {
			return ev.Failf("abort-success", "%s: TO2 reported success although a DeviceServiceInfo exchange failed", tag)
		}
		res := ev.OK(fmt.Sprintf("abort/%s/%s/returned<%s", c.Module, c.Fault, map[bool]string{true: "1s", false: "20s"}[time.Since(fa) < time.Second]))
		res.ID = tag
		return res
	}
	notReached := time.After(15 * time.Second)
	for {
		mu.Lock()
		fa := faultAt
		mu.Unlock()
		if !fa.IsZero() {
			break
		}
		select {
		case err := <-done:
			return finished(err)
		case <-notReached:
			cancel()
			return ev.Trivial("abort/fault-not-reached")
		case <-time.After(5 * time.Millisecond):
		}
	}
	select {
	case err := <-done:
		return finished(err)
	case <-time.After(20 * time.Second):
		cancel()
		select {
		case <-done:
		case <-time.After(10 * time.Second):
		}
		return ev.Failf("hang:abort:"+c.Module, "%s: 20 s after the exchange failed fdo.TO2 had not returned (it waits for a device module that only ends when its context is cancelled)", tag)
	}
}

func TestC19(t *testing.T) {
	r := ev.Start(t, "C19")
	defer r.Finish()

	r.SetRule("fleets", "N devices with mixed key types (P-256, P-384, RSA 2048/3072 in PKCS, PSS and restricted form), key exchanges (ECDH256/384, DHKEXid14/15, ASYMKEX2048/3072) and ciphers run DI → voucher extension → TO0 → TO1 → TO2 (with a service-info module carrying the device's identity both ways) concurrently through ONE handler, responder set and store (in-memory and SQLite), built with the race detector, for GOMAXPROCS ∈ {1,2,4,16}, with and without injected delays at the transport and in module callbacks. Oracle: every device succeeds (as it does alone) and its credential agrees with the stored voucher; no module sees data addressed to another device; GUIDs are pairwise distinct; no DATA RACE report; watchdog 250 s. Non-trivial: N ≥ 2.")
	ev.Enum(r, "fleets", true, func(yield func(fleet) bool) {
		i := 0
		ns := []int{2, 4, 8, 16}
		seeds := 1
		if r.Thorough() {
			ns = []int{2, 4, 8, 16, 32, 64}
			seeds = 4
		}
		for sd := 0; sd < seeds; sd++ {
			for _, backend := range []string{"mem", "sqlite"} {
				for _, n := range ns {
					for pi, procs := range []int{1, 2, 4, 16} {
						if !r.Thorough() && (pi+n/2+sd)%2 == 1 && n > 2 {
							continue
						}
						if backend == "sqlite" && n > 16 {
							continue
						}
						i++
						if !r.Mine(i) {
							continue
						}
						if !yield(fleet{Backend: backend, N: n, Procs: procs, Seed: int(r.Seed%100000)*7 + sd*13 + n + procs, RSABits: []int{2048, 3072}[(n/2+pi+sd)%2], Delays: (pi+sd)%2 == 0}) {
							return
						}
					}
				}
			}
		}
	}, evalFleet)

	r.SetRule("pipeline", "device-side TO2 pipeline under the race detector: generated service-info scripts (as in C16: owner rounds, device reactions with yields and multi-write messages up to 70000 bytes, volumes far below the 1000-message buffering bound) always with schedule perturbation (Gosched / sleeps / busy-waits between the writes of the module, chunking and transport goroutines). Oracle: the C16 reference stream model, no DATA RACE report, no deadlock (40 s watchdog).")
	ev.Rapid(r, "pipeline", ev.N{Quick: 160, Thorough: 6000}, func(t *rapid.T) siscript.Script {
		s := siscript.GenScript(t)
		if s.Sched == 0 {
			s.Sched = rapid.IntRange(1, 1<<20).Draw(t, "sched2")
		}
		s.Extra = min(s.Extra, 10)
		return s
	}, evalPipeline)
	r.SetRule("abort", "device-side TO2 with a module that is in the middle of a long operation honouring its context (it has yielded, or written 3000 bytes, so the exchange goes on, and then blocks until its context is cancelled or sleeps 45 s) when a DeviceServiceInfo exchange fails (request lost / response lost / error message) at the 0th..3rd message after the module became busy, with 0..50 ms of delay. Oracle: fdo.TO2 returns an error within 20 s of the failure (verdict re-evaluated before it counts), never success. All non-trivial.")
	ev.Rapid(r, "abort", ev.N{Quick: 96, Thorough: 3000}, func(t *rapid.T) abortCase {
		return abortCase{Cfg: rapid.IntRange(0, 1).Draw(t, "cfg"), Module: rapid.SampledFrom([]string{"yield-then-wait", "yield-then-wait", "yield-then-long-sleep", "bigwrite-then-wait"}).Draw(t, "module"),
			Fault: rapid.SampledFrom([]string{"req-lost", "resp-lost", "error255"}).Draw(t, "fault"), At: rapid.IntRange(0, 3).Draw(t, "at"), DelayMs: rapid.SampledFrom([]int{0, 0, 1, 10, 50}).Draw(t, "delay")}
	}, evalAbort)
	ev.CheckWitness(r, "fleets", evalFleet)
	ev.CheckWitness(r, "pipeline", evalPipeline)
}
