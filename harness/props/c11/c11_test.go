//go:build verif

// C11 — CBOR encoding is canonical and decode/encode are mutual inverses.
package c11

import (
	"bytes"
	"encoding/hex"
	"fmt"
	"math"
	"reflect"
	"testing"

	"github.com/fido-device-onboard/go-fdo/cbor"
	"pgregory.net/rapid"

	"verif/harness/ev"
	"verif/harness/refcbor"
)

// ---------------------------------------------------------------------------
// generic data model: reference tree  <->  Go `any` value
// ---------------------------------------------------------------------------

var headBoundaries = []uint64{0, 1, 22, 23, 24, 25, 254, 255, 256, 257, 65534, 65535, 65536, 65537,
	1<<32 - 2, 1<<32 - 1, 1 << 32, 1<<32 + 1, 1<<63 - 2, 1<<63 - 1}

func genUintArg(t *rapid.T, max uint64) uint64 {
	switch rapid.IntRange(0, 3).Draw(t, "ucls") {
	case 0:
		v := rapid.SampledFrom(headBoundaries).Draw(t, "ub")
		if v > max {
			v = max
		}
		return v
	case 1:
		return rapid.Uint64Range(0, 300).Draw(t, "us")
	default:
		return rapid.Uint64Range(0, max).Draw(t, "u")
	}
}

var lenClasses = []int{0, 1, 2, 22, 23, 24, 25, 100, 254, 255, 256, 257, 300}

// smallOnly is set while generating values that get embedded into byte-string
// wrappers, so that no string reaches the documented 100 000 byte decode limit.
var smallOnly bool

func genLen(t *rapid.T) int {
	if !smallOnly && rapid.IntRange(0, 9).Draw(t, "lcls") == 0 {
		return rapid.SampledFrom([]int{65535, 65536, 70000}).Draw(t, "lbig")
	}
	if rapid.Bool().Draw(t, "lb") {
		return rapid.SampledFrom(lenClasses).Draw(t, "lc")
	}
	return rapid.IntRange(0, 40).Draw(t, "l")
}

func genBytes(t *rapid.T, n int) []byte {
	if n > 64 {
		// cheap filler for long strings; content is irrelevant for head handling
		b := make([]byte, n)
		s := rapid.Byte().Draw(t, "fill")
		for i := range b {
			b[i] = s + byte(i)
		}
		return b
	}
	return rapid.SliceOfN(rapid.Byte(), n, n).Draw(t, "bytes")
}

// genAnyTree generates a tree of the documented `any` data model: integers in
// the int64 range, byte/text strings, arrays, maps with distinct int/text keys,
// tags, booleans and null.
func genAnyTree(t *rapid.T, depth int) *refcbor.Node {
	max := 8
	if depth <= 0 {
		max = 5
	}
	switch rapid.IntRange(0, max).Draw(t, "kind") {
	case 0:
		return refcbor.U(genUintArg(t, math.MaxInt64))
	case 1:
		return &refcbor.Node{Kind: refcbor.Nint, Val: genUintArg(t, math.MaxInt64)}
	case 2:
		return refcbor.B(genBytes(t, genLen(t)))
	case 3:
		n := genLen(t)
		b := genBytes(t, n)
		return &refcbor.Node{Kind: refcbor.Text, Bytes: b}
	case 4:
		return refcbor.Bool(rapid.Bool().Draw(t, "b"))
	case 5:
		return refcbor.Null()
	case 6:
		n := rapid.IntRange(0, 5).Draw(t, "alen")
		if rapid.IntRange(0, 15).Draw(t, "abig") == 0 {
			n = rapid.SampledFrom([]int{23, 24, 25, 255, 256}).Draw(t, "alen2")
		}
		items := make([]*refcbor.Node, n)
		for i := range items {
			if n > 8 {
				items[i] = refcbor.U(uint64(i))
			} else {
				items[i] = genAnyTree(t, depth-1)
			}
		}
		return refcbor.A(items...)
	case 7:
		n := rapid.IntRange(0, 5).Draw(t, "mlen")
		if rapid.IntRange(0, 15).Draw(t, "mbig") == 0 {
			n = rapid.SampledFrom([]int{23, 24, 25, 256}).Draw(t, "mlen2")
		}
		seen := map[string]bool{}
		var kv []*refcbor.Node
		for i := 0; i < n; i++ {
			var k *refcbor.Node
			switch rapid.IntRange(0, 2).Draw(t, "kk") {
			case 0:
				k = refcbor.U(genUintArg(t, math.MaxInt64))
			case 1:
				k = &refcbor.Node{Kind: refcbor.Nint, Val: genUintArg(t, math.MaxInt64)}
			default:
				// text keys, including keys whose lengths straddle head classes
				l := rapid.SampledFrom([]int{0, 1, 2, 3, 23, 24}).Draw(t, "kl")
				k = &refcbor.Node{Kind: refcbor.Text, Bytes: []byte(rapid.StringOfN(rapid.RuneFrom([]rune("abz")), l, l, -1).Draw(t, "ks"))}
			}
			id := string(refcbor.Encode(k))
			if seen[id] {
				continue
			}
			seen[id] = true
			var v *refcbor.Node
			if n > 8 {
				v = refcbor.U(uint64(i))
			} else {
				v = genAnyTree(t, depth-1)
			}
			kv = append(kv, k, v)
		}
		return refcbor.M(kv...)
	default:
		return refcbor.Tg(genUintArg(t, math.MaxUint64), genAnyTree(t, depth-1))
	}
}

// toGo maps a reference tree to the Go value a caller would hand to Marshal.
func toGo(n *refcbor.Node) any {
	switch n.Kind {
	case refcbor.Uint:
		if n.Val > math.MaxInt64 {
			return n.Val
		}
		return int64(n.Val)
	case refcbor.Nint:
		return -int64(n.Val) - 1
	case refcbor.Bytes:
		return append([]byte{}, n.Bytes...)
	case refcbor.Text:
		return string(n.Bytes)
	case refcbor.Array:
		out := make([]any, len(n.Items))
		for i, it := range n.Items {
			out[i] = toGo(it)
		}
		return out
	case refcbor.Map:
		out := make(map[any]any, len(n.Items)/2)
		for i := 0; i+1 < len(n.Items); i += 2 {
			out[toGo(n.Items[i])] = toGo(n.Items[i+1])
		}
		return out
	case refcbor.Tag:
		return cbor.Tag[any]{Num: n.Val, Val: toGo(n.Items[0])}
	case refcbor.Simple:
		switch n.Val {
		case 20:
			return false
		case 21:
			return true
		}
		return nil
	}
	panic("unreachable")
}

// expectDecoded is the documented result of decoding into `any` (cbor/doc.go).
func expectDecoded(n *refcbor.Node) any {
	switch n.Kind {
	case refcbor.Array:
		out := make([]any, len(n.Items))
		for i, it := range n.Items {
			out[i] = expectDecoded(it)
		}
		return out
	case refcbor.Map:
		out := make(map[any]any, len(n.Items)/2)
		for i := 0; i+1 < len(n.Items); i += 2 {
			out[expectDecoded(n.Items[i])] = expectDecoded(n.Items[i+1])
		}
		return out
	case refcbor.Tag:
		return cbor.Tag[cbor.RawBytes]{Num: n.Val, Val: cbor.RawBytes(refcbor.Encode(n.Items[0]))}
	case refcbor.Uint:
		return int64(n.Val)
	}
	return toGo(n)
}

type hexDesc struct {
	Hex string `json:"cbor"`
}

func treeStats(n *refcbor.Node) (depth int, boundary bool, bigMap bool) {
	var walk func(n *refcbor.Node, d int)
	isB := func(v uint64) bool {
		for _, b := range headBoundaries {
			if v == b && v >= 23 {
				return true
			}
		}
		return false
	}
	walk = func(n *refcbor.Node, d int) {
		if d > depth {
			depth = d
		}
		switch n.Kind {
		case refcbor.Uint, refcbor.Nint, refcbor.Tag:
			if isB(n.Val) {
				boundary = true
			}
		case refcbor.Bytes, refcbor.Text:
			if isB(uint64(len(n.Bytes))) {
				boundary = true
			}
		case refcbor.Array:
			if isB(uint64(len(n.Items))) {
				boundary = true
			}
		case refcbor.Map:
			if len(n.Items) >= 4 {
				bigMap = true
			}
			if isB(uint64(len(n.Items) / 2)) {
				boundary = true
			}
		}
		for _, c := range n.Items {
			walk(c, d+1)
		}
	}
	walk(n, 0)
	return
}

func evalAny(d hexDesc) ev.Result {
	want, err := hex.DecodeString(d.Hex)
	if err != nil {
		return ev.Result{Skip: true}
	}
	tree, err := refcbor.ParseAll(want)
	if err != nil {
		return ev.Result{Skip: true}
	}
	if !bytes.Equal(refcbor.Encode(tree), want) {
		return ev.Result{Skip: true} // descriptor must be canonical
	}
	depth, boundary, bigMap := treeStats(tree)
	res := ev.Result{NonTrivial: boundary || bigMap || depth >= 2}
	switch {
	case boundary:
		res.Class = "head-boundary"
	case bigMap:
		res.Class = "map>=2keys"
	case depth >= 2:
		res.Class = "depth>=2"
	default:
		res.Class = "plain"
	}
	// (1) value -> bytes against the reference encoder; deterministic
	gv := toGo(tree)
	got, err := cbor.Marshal(gv)
	if err != nil {
		return ev.Failf("encode-error", "Marshal(%s) failed: %v", refcbor.Diag(tree), err)
	}
	if !bytes.Equal(got, want) {
		return ev.Failf("encode-mismatch", "Marshal(%s) = %x, reference canonical encoding %x", refcbor.Diag(tree), got, want)
	}
	got2, err := cbor.Marshal(toGo(tree)) // maps rebuilt: different insertion/iteration order
	if err != nil || !bytes.Equal(got2, want) {
		return ev.Failf("encode-nondeterministic", "second Marshal(%s) = %x (err %v), first %x", refcbor.Diag(tree), got2, err, want)
	}
	// (2) bytes -> any -> bytes, and the documented Go mapping
	var back any
	if err := cbor.Unmarshal(want, &back); err != nil {
		return ev.Failf("decode-error", "Unmarshal(%x = %s) into any failed: %v", want, refcbor.Diag(tree), err)
	}
	if exp := expectDecoded(tree); !reflect.DeepEqual(back, exp) {
		return ev.Failf("decode-value", "Unmarshal(%x) = %#v, documented mapping gives %#v", want, back, exp)
	}
	re, err := cbor.Marshal(back)
	if err != nil {
		return ev.Failf("reencode-error", "Marshal(Unmarshal(%x)) failed: %v", want, err)
	}
	if !bytes.Equal(re, want) {
		return ev.Failf("reencode-mismatch", "encode(decode(%x)) = %x", want, re)
	}
	// (3) streaming decoder leaves the reader exactly after the item
	rd := bytes.NewReader(append(append([]byte{}, want...), 0x01))
	var back2 any
	if err := cbor.NewDecoder(rd).Decode(&back2); err != nil || rd.Len() != 1 {
		return ev.Failf("stream-position", "Decoder.Decode(%x||01): err=%v, %d bytes left (want 1)", want, err, rd.Len())
	}
	return res
}

// ---------------------------------------------------------------------------
// typed integers: every Go integer kind, every head boundary
// ---------------------------------------------------------------------------

type intDesc struct {
	Kind string `json:"kind"`
	Neg  bool   `json:"neg"`
	Arg  uint64 `json:"arg"` // value = Arg, or -1-Arg when Neg
}

var intKinds = []string{"int", "int8", "int16", "int32", "int64", "uint", "uint8", "uint16", "uint32", "uint64"}

func intBounds(kind string) (negMaxArg, posMax uint64) {
	switch kind {
	case "int8":
		return 127, 127
	case "int16":
		return 32767, 32767
	case "int32":
		return 1<<31 - 1, 1<<31 - 1
	case "int", "int64":
		return 1<<63 - 1, 1<<63 - 1
	case "uint8":
		return 0, 255
	case "uint16":
		return 0, 65535
	case "uint32":
		return 0, 1<<32 - 1
	default:
		return 0, math.MaxUint64
	}
}

func genInt(t *rapid.T) intDesc {
	d := intDesc{Kind: rapid.SampledFrom(intKinds).Draw(t, "kind"), Neg: rapid.Bool().Draw(t, "neg")}
	// any argument, with emphasis on the type's own limits ±1
	nm, pm := intBounds(d.Kind)
	lim := pm
	if d.Neg {
		lim = nm
	}
	switch rapid.IntRange(0, 3).Draw(t, "cls") {
	case 0:
		off := rapid.Uint64Range(0, 2).Draw(t, "off")
		if rapid.Bool().Draw(t, "below") {
			if lim >= off {
				d.Arg = lim - off
			}
		} else if lim <= math.MaxUint64-off {
			d.Arg = lim + off
		} else {
			d.Arg = lim
		}
	case 1:
		d.Arg = rapid.SampledFrom(headBoundaries).Draw(t, "hb")
	default:
		d.Arg = rapid.Uint64().Draw(t, "arg")
	}
	return d
}

func newIntPtr(kind string) any {
	switch kind {
	case "int":
		return new(int)
	case "int8":
		return new(int8)
	case "int16":
		return new(int16)
	case "int32":
		return new(int32)
	case "int64":
		return new(int64)
	case "uint":
		return new(uint)
	case "uint8":
		return new(uint8)
	case "uint16":
		return new(uint16)
	case "uint32":
		return new(uint32)
	}
	return new(uint64)
}

func evalInt(d intDesc) ev.Result {
	nm, pm := intBounds(d.Kind)
	signed := d.Kind[0] == 'i'
	fits := (!d.Neg && d.Arg <= pm) || (d.Neg && signed && d.Arg <= nm)
	node := &refcbor.Node{Kind: refcbor.Uint, Val: d.Arg}
	if d.Neg {
		node.Kind = refcbor.Nint
	}
	enc := refcbor.Encode(node)
	ptr := newIntPtr(d.Kind)
	err := cbor.Unmarshal(enc, ptr)
	cls := "int-outside-range"
	if fits {
		cls = "int-in-range"
	}
	res := ev.Result{NonTrivial: true, Class: cls}
	if !fits {
		if err == nil {
			return ev.Failf("int-overflow-accepted", "%x (%s) decoded into %s without error: %v", enc, refcbor.Diag(node), d.Kind, reflect.ValueOf(ptr).Elem().Interface())
		}
		return res
	}
	if err != nil {
		return ev.Failf("int-decode-error", "%x (%s) fits %s but Unmarshal failed: %v", enc, refcbor.Diag(node), d.Kind, err)
	}
	rv := reflect.ValueOf(ptr).Elem()
	// compare numerically
	if rv.CanUint() {
		if d.Neg || rv.Uint() != d.Arg {
			return ev.Failf("int-decode-value", "%x decoded into %s as %d", enc, d.Kind, rv.Uint())
		}
	} else {
		want := int64(d.Arg)
		if d.Neg {
			want = -int64(d.Arg) - 1
		}
		if rv.Int() != want {
			return ev.Failf("int-decode-value", "%x decoded into %s as %d, want %d", enc, d.Kind, rv.Int(), want)
		}
	}
	re, err := cbor.Marshal(rv.Interface())
	if err != nil || !bytes.Equal(re, enc) {
		return ev.Failf("int-reencode", "Marshal(%s(%v)) = %x (err %v), want %x", d.Kind, rv.Interface(), re, err, enc)
	}
	return res
}

func TestC11(t *testing.T) {
	r := ev.Start(t, "C11")
	defer r.Finish()

	r.SetRule("any", "rapid-generated trees of the documented any-model (ints over the int64 range with every head boundary ±1, strings with boundary lengths, arrays, maps with distinct int/text keys incl. prefix-length classes, tags, bool, null; depth ≤ 5); oracle: Marshal(goValue)=reference canonical bytes, deterministic, Unmarshal gives the documented Go mapping, re-Marshal reproduces the bytes, stream decoder stops after the item. Non-trivial: contains a head-size-boundary integer/length, a map with ≥2 keys, or depth ≥2; distinct by encoding.")
	ev.Rapid(r, "any", ev.N{Quick: 24000, Thorough: 1200000},
		func(t *rapid.T) hexDesc { return hexDesc{Hex: hex.EncodeToString(refcbor.Encode(genAnyTree(t, 4)))} }, evalAny)

	r.SetRule("ints", "every Go integer kind × sign × argument (type limits ±2, head boundaries, random uint64); oracle: decodes iff the value fits the type, decoded value numerically equal, re-encoding byte-identical. All cases non-trivial; distinct by (kind,sign,arg).")
	ev.Rapid(r, "ints", ev.N{Quick: 16000, Thorough: 400000}, genInt, evalInt)
	// exhaustive limits sweep (deterministic)
	ev.Enum(r, "int-limits", true, func(yield func(intDesc) bool) {
		i := 0
		for _, k := range intKinds {
			nm, pm := intBounds(k)
			for _, neg := range []bool{false, true} {
				lim := pm
				if neg {
					lim = nm
				}
				for off := -3; off <= 3; off++ {
					a := lim + uint64(off)
					if off < 0 && lim < uint64(-off) {
						continue
					}
					if off > 0 && lim > math.MaxUint64-uint64(off) {
						continue
					}
					i++
					if !r.Mine(i) {
						continue
					}
					if !yield(intDesc{Kind: k, Neg: neg, Arg: a}) {
						return
					}
				}
			}
		}
	}, evalInt)
	r.SetRule("int-limits", "exhaustive: every integer kind × sign × (type limit −3..+3)")

	typedSubs(r)
	_ = fmt.Sprint
}
