//go:build verif

package c11

import (
	"encoding/hex"
	"math"
	"testing"
	"unicode/utf8"

	"verif/harness/ev"
	"verif/harness/refcbor"
)

// inAnyModel says whether a reference tree lies in the documented any-model that the
// "any" sub-check generates (cbor/doc.go): integers of the int64 range, byte and text
// strings, arrays, maps with distinct int/text keys, tags, bool and null, nesting below the
// documented decoder limit. Everything else (floats, other simple values, indefinite
// lengths, unsigned values above MaxInt64, non-UTF-8 text) is outside the round-trip claim.
func inAnyModel(n *refcbor.Node, depth int) bool {
	if depth > 200 || n.Indef {
		return false
	}
	switch n.Kind {
	case refcbor.Uint, refcbor.Nint:
		return n.Val <= math.MaxInt64
	case refcbor.Bytes:
		return true
	case refcbor.Text:
		return utf8.Valid(n.Bytes)
	case refcbor.Simple:
		return n.FloatW == 0 && (n.Val == 20 || n.Val == 21 || n.Val == 22)
	case refcbor.Tag:
		return len(n.Items) == 1 && inAnyModel(n.Items[0], depth+1)
	case refcbor.Array:
		for _, c := range n.Items {
			if !inAnyModel(c, depth+1) {
				return false
			}
		}
		return true
	case refcbor.Map:
		seen := map[string]bool{}
		for i := 0; i+1 < len(n.Items); i += 2 {
			k := n.Items[i]
			if (k.Kind != refcbor.Uint && k.Kind != refcbor.Nint && k.Kind != refcbor.Text) || !inAnyModel(k, depth+1) || !inAnyModel(n.Items[i+1], depth+1) {
				return false
			}
			id := string(refcbor.Encode(k))
			if seen[id] {
				return false
			}
			seen[id] = true
		}
		return len(n.Items)%2 == 0
	}
	return false
}

// FuzzAny is the coverage-guided companion of the "any" sub-check: fuzz bytes that the
// reference parser accepts as one item of the any-model are re-encoded canonically by the
// reference and then put through evalAny (Marshal = reference bytes, deterministic,
// documented decode mapping, encode(decode(b)) = b, stream position).
func FuzzAny(f *testing.F) {
	for _, h := range []string{"00", "17", "1818", "18ff", "190100", "19ffff", "1a00010000", "1affffffff", "1b0000000100000000", "1b7fffffffffffffff",
		"20", "37", "3818", "38ff", "390100", "3a00010000", "3b7fffffffffffffff", "40", "4101", "60", "6161", "80", "8101", "a0", "a10102",
		"a2616101616202", "a301020304182005", "c101", "d81801", "d8ff8101", "f4", "f5", "f6", "8301820203a1616181f6", "a21818011901000243010203",
		"d9010045a1020304", "5818000102030405060708090a0b0c0d0e0f1011121314151617", "7818616161616161616161616161616161616161616161616161"} {
		b, _ := hex.DecodeString(h)
		f.Add(b)
	}
	f.Fuzz(func(t *testing.T, in []byte) {
		if len(in) > 1<<14 {
			t.Skip()
		}
		tree, err := refcbor.ParseAll(in)
		if err != nil || !inAnyModel(tree, 0) {
			t.Skip()
		}
		res := evalAny(hexDesc{Hex: hex.EncodeToString(refcbor.Encode(tree))})
		if res.Fail != "" {
			t.Fatalf("VIOLATION C11/fuzz key=%s: %s", res.Key, res.Fail)
		}
	})
}

// FuzzTyped drives the "typed" generator (Go shapes and FDO structures) from fuzz bytes.
func FuzzTyped(f *testing.F) {
	f.Add([]byte{0})
	f.Add([]byte{1, 2, 3, 4, 5, 6, 7, 8, 9, 10, 11, 12, 13, 14, 15, 16})
	f.Fuzz(ev.Fuzz("C11", "typed", genTyped, evalTyped))
}
