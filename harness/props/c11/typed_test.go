//go:build verif

package c11

import (
	"bytes"
	"encoding/hex"
	"encoding/json"
	"fmt"
	"net"
	"reflect"
	"time"

	fdo "github.com/fido-device-onboard/go-fdo"
	"github.com/fido-device-onboard/go-fdo/cbor"
	"github.com/fido-device-onboard/go-fdo/cose"
	"github.com/fido-device-onboard/go-fdo/protocol"
	"github.com/fido-device-onboard/go-fdo/serviceinfo"
	"pgregory.net/rapid"

	"verif/harness/ev"
	"verif/harness/refcbor"
)

// built is what a shape produces from its JSON-able spec: the Go value handed
// to the library, a fresh decode target, and the reference tree written by hand
// from the documented mapping / the FDO CDDL.
type built struct {
	val        any
	ptr        func() any
	ref        *refcbor.Node
	class      string
	nontrivial bool
	norm       func(any) any // optional normaliser applied to both sides before DeepEqual
}

type shapeDef struct {
	name  string
	gen   func(t *rapid.T) any
	build func(raw json.RawMessage) (built, error)
}

func shapeOf[S any](name string, gen func(*rapid.T) S, build func(S) built) shapeDef {
	return shapeDef{
		name: name,
		gen:  func(t *rapid.T) any { return gen(t) },
		build: func(raw json.RawMessage) (built, error) {
			var s S
			if err := json.Unmarshal(raw, &s); err != nil {
				return built{}, err
			}
			return build(s), nil
		},
	}
}

type typedDesc struct {
	Shape string          `json:"shape"`
	Spec  json.RawMessage `json:"spec"`
}

var shapes []shapeDef
var shapeIdx = map[string]*shapeDef{}

func reg(s shapeDef) { shapes = append(shapes, s) }

// ---- small helpers ---------------------------------------------------------

type hb []byte // hex in JSON

func (b hb) MarshalJSON() ([]byte, error) { return json.Marshal(hex.EncodeToString(b)) }
func (b *hb) UnmarshalJSON(p []byte) error {
	var s string
	if err := json.Unmarshal(p, &s); err != nil {
		return err
	}
	d, err := hex.DecodeString(s)
	*b = d
	return err
}

func gBytes(t *rapid.T, label string) hb {
	n := rapid.SampledFrom([]int{0, 1, 2, 16, 23, 24, 32, 48, 255, 256}).Draw(t, label+"n")
	return hb(rapid.SliceOfN(rapid.Byte(), n, n).Draw(t, label))
}
func gStr(t *rapid.T, label string) string {
	return rapid.StringOfN(rapid.RuneFrom([]rune("abcXYZ09 -_/é")), 0, 30, -1).Draw(t, label)
}
func gI64(t *rapid.T, label string) int64 {
	if rapid.Bool().Draw(t, label+"b") {
		v := rapid.SampledFrom(headBoundaries).Draw(t, label+"h")
		if rapid.Bool().Draw(t, label+"neg") {
			return -int64(v) - 1
		}
		return int64(v)
	}
	return rapid.Int64Range(-1<<63+1, 1<<63-1).Draw(t, label)
}
func gU16(t *rapid.T, label string) uint16 {
	return rapid.SampledFrom([]uint16{0, 1, 23, 24, 101, 255, 256, 1300, 65535}).Draw(t, label)
}
func nz(b []byte) []byte {
	if b == nil {
		return []byte{}
	}
	return b
}
func rB(b []byte) *refcbor.Node { return refcbor.B(nz(b)) }
func rRaw(b []byte) *refcbor.Node {
	n, err := refcbor.ParseAll(b)
	if err != nil {
		panic(err)
	}
	return n
}

// ---- test-defined shapes ---------------------------------------------------

type sBasic struct {
	A int64
	B string
	C []byte
	D bool
	E uint16
}

type sWeights struct {
	A int64  `cbor:"2"`
	B string `cbor:"0"`
	C uint8  `cbor:"1"`
	D bool   `cbor:"1"`
	E int8   `cbor:"-5"`
}

type sIgnore struct {
	A       int64
	Skip    string `cbor:"-"`
	private int
	B       []byte
}

type sOmitTail struct {
	A int64
	B string
	C []byte `cbor:",omitempty"`
}

type sOmitMid struct {
	A int64
	B *sBasic `cbor:",omitempty"`
	C string
}

type Inner struct {
	X int64
	Y string
}
type InnerP struct {
	P []byte
}
type sEmbed struct {
	Inner
	M bool
	*InnerP
	Z uint8
}

// deep embedding: field order must follow the declaration order at every level
type Deep4 struct {
	G int64
	H string
	I []byte
}
type Deep3 struct {
	E int64
	Deep4
	F string
}
type Deep2 struct {
	C string
	Deep3
	D bool
}
type sDeep struct {
	A int64
	Deep2
	B string
}
type DeepP3 struct {
	U int64
	V string
	W bool
}
type DeepP2 struct {
	S string
	*DeepP3
	T uint8
}
type DeepP1 struct {
	*DeepP2
	R int64
}
type sDeepPtr struct {
	Q string
	*DeepP1
	Z int64
}

type sPtrs struct {
	A *int64
	B *string
	C *Inner
	D *[]byte
}

type sArrays struct {
	G [16]byte
	N [3]int64
	S [][]byte
	T []Inner
	U [][]int64
}

type sMaps struct {
	A map[int64]string
	B map[string][]byte
	C map[int64]struct{}
}

type sGenerics struct {
	T cbor.Tag[Inner]
	B cbor.Bstr[Inner]
	W cbor.ByteWrap[Inner]
	R cbor.ByteWrap[[]byte]
	X cbor.RawBytes
	O *cbor.Bstr[map[int][]byte]
}

func init() {
	reg(shapeOf("struct-basic", func(t *rapid.T) sBasic {
		return sBasic{A: gI64(t, "a"), B: gStr(t, "b"), C: gBytes(t, "c"), D: rapid.Bool().Draw(t, "d"), E: gU16(t, "e")}
	}, func(s sBasic) built {
		return built{val: s, ptr: func() any { return new(sBasic) },
			ref:   refcbor.A(refcbor.I(s.A), refcbor.T(s.B), rB(s.C), refcbor.Bool(s.D), refcbor.U(uint64(s.E))),
			class: "struct", nontrivial: true, norm: normBytes}
	}))
	reg(shapeOf("struct-weights", func(t *rapid.T) sWeights {
		return sWeights{A: gI64(t, "a"), B: gStr(t, "b"), C: rapid.Uint8().Draw(t, "c"), D: rapid.Bool().Draw(t, "d"), E: rapid.Int8().Draw(t, "e")}
	}, func(s sWeights) built {
		// ascending weight, declaration order among equals: E(-5) B(0) C(1) D(1) A(2)
		return built{val: s, ptr: func() any { return new(sWeights) },
			ref:   refcbor.A(refcbor.I(int64(s.E)), refcbor.T(s.B), refcbor.U(uint64(s.C)), refcbor.Bool(s.D), refcbor.I(s.A)),
			class: "weights", nontrivial: true}
	}))
	reg(shapeOf("struct-ignore", func(t *rapid.T) sIgnore {
		return sIgnore{A: gI64(t, "a"), B: gBytes(t, "b")}
	}, func(s sIgnore) built {
		return built{val: s, ptr: func() any { return new(sIgnore) }, ref: refcbor.A(refcbor.I(s.A), rB(s.B)), class: "ignore", nontrivial: true, norm: normBytes}
	}))
	reg(shapeOf("struct-omitempty-tail", func(t *rapid.T) sOmitTail {
		s := sOmitTail{A: gI64(t, "a"), B: gStr(t, "b")}
		if rapid.Bool().Draw(t, "has") {
			s.C = gBytes(t, "c")
		}
		return s
	}, func(s sOmitTail) built {
		ref := refcbor.A(refcbor.I(s.A), refcbor.T(s.B))
		cls := "omitempty-omitted"
		if len(s.C) > 0 {
			ref.Items = append(ref.Items, rB(s.C))
			cls = "omitempty-present"
		}
		return built{val: s, ptr: func() any { return new(sOmitTail) }, ref: ref, class: cls, nontrivial: true, norm: normBytes}
	}))
	reg(shapeOf("struct-omitempty-mid", func(t *rapid.T) sOmitMid {
		s := sOmitMid{A: gI64(t, "a"), C: gStr(t, "c")}
		if rapid.Bool().Draw(t, "has") {
			s.B = &sBasic{A: gI64(t, "ba"), B: gStr(t, "bb"), C: gBytes(t, "bc")}
		}
		return s
	}, func(s sOmitMid) built {
		ref := refcbor.A(refcbor.I(s.A))
		cls := "omitempty-omitted"
		if s.B != nil {
			ref.Items = append(ref.Items, refcbor.A(refcbor.I(s.B.A), refcbor.T(s.B.B), rB(s.B.C), refcbor.Bool(s.B.D), refcbor.U(uint64(s.B.E))))
			cls = "omitempty-present"
		}
		ref.Items = append(ref.Items, refcbor.T(s.C))
		return built{val: s, ptr: func() any { return new(sOmitMid) }, ref: ref, class: cls, nontrivial: true, norm: normBytes}
	}))
	reg(shapeOf("struct-embedded", func(t *rapid.T) sEmbed {
		return sEmbed{Inner: Inner{X: gI64(t, "x"), Y: gStr(t, "y")}, M: rapid.Bool().Draw(t, "m"), InnerP: &InnerP{P: gBytes(t, "p")}, Z: rapid.Uint8().Draw(t, "z")}
	}, func(s sEmbed) built {
		p := []byte{}
		if s.InnerP != nil {
			p = s.InnerP.P
		}
		return built{val: s, ptr: func() any { return new(sEmbed) },
			ref:   refcbor.A(refcbor.I(s.X), refcbor.T(s.Y), refcbor.Bool(s.M), rB(p), refcbor.U(uint64(s.Z))),
			class: "embedded", nontrivial: true, norm: normBytes}
	}))
	reg(shapeOf("struct-embedded-deep", func(t *rapid.T) sDeep {
		return sDeep{A: gI64(t, "a"), B: gStr(t, "b"), Deep2: Deep2{C: gStr(t, "c"), D: rapid.Bool().Draw(t, "d"),
			Deep3: Deep3{E: gI64(t, "e"), F: gStr(t, "f"), Deep4: Deep4{G: gI64(t, "g"), H: gStr(t, "h"), I: gBytes(t, "i")}}}}
	}, func(s sDeep) built {
		return built{val: s, ptr: func() any { return new(sDeep) },
			ref:   refcbor.A(refcbor.I(s.A), refcbor.T(s.C), refcbor.I(s.E), refcbor.I(s.G), refcbor.T(s.H), rB(s.I), refcbor.T(s.F), refcbor.Bool(s.D), refcbor.T(s.B)),
			class: "embedded-4-levels", nontrivial: true, norm: normBytes}
	}))
	reg(shapeOf("struct-embedded-deep-pointers", func(t *rapid.T) sDeepPtr {
		return sDeepPtr{Q: gStr(t, "q"), Z: gI64(t, "z"), DeepP1: &DeepP1{R: gI64(t, "r"),
			DeepP2: &DeepP2{S: gStr(t, "s"), T: rapid.Uint8().Draw(t, "t"), DeepP3: &DeepP3{U: gI64(t, "u"), V: gStr(t, "v"), W: rapid.Bool().Draw(t, "w")}}}}
	}, func(s sDeepPtr) built {
		return built{val: s, ptr: func() any { return new(sDeepPtr) },
			ref:   refcbor.A(refcbor.T(s.Q), refcbor.T(s.S), refcbor.I(s.U), refcbor.T(s.V), refcbor.Bool(s.W), refcbor.U(uint64(s.T)), refcbor.I(s.R), refcbor.I(s.Z)),
			class: "embedded-pointers-3-levels", nontrivial: true, norm: normBytes}
	}))
	reg(shapeOf("struct-pointers", func(t *rapid.T) sPtrs {
		var s sPtrs
		if rapid.Bool().Draw(t, "ha") {
			v := gI64(t, "a")
			s.A = &v
		}
		if rapid.Bool().Draw(t, "hb") {
			v := gStr(t, "b")
			s.B = &v
		}
		if rapid.Bool().Draw(t, "hc") {
			s.C = &Inner{X: gI64(t, "x"), Y: gStr(t, "y")}
		}
		if rapid.Bool().Draw(t, "hd") {
			v := []byte(gBytes(t, "d"))
			s.D = &v
		}
		return s
	}, func(s sPtrs) built {
		ref := refcbor.A(refcbor.Null(), refcbor.Null(), refcbor.Null(), refcbor.Null())
		nulls := 4
		if s.A != nil {
			ref.Items[0] = refcbor.I(*s.A)
			nulls--
		}
		if s.B != nil {
			ref.Items[1] = refcbor.T(*s.B)
			nulls--
		}
		if s.C != nil {
			ref.Items[2] = refcbor.A(refcbor.I(s.C.X), refcbor.T(s.C.Y))
			nulls--
		}
		if s.D != nil {
			ref.Items[3] = rB(*s.D)
			nulls--
		}
		return built{val: s, ptr: func() any { return new(sPtrs) }, ref: ref, class: fmt.Sprintf("pointers-%dnull", nulls), nontrivial: true, norm: normBytes}
	}))
	reg(shapeOf("arrays-slices", func(t *rapid.T) sArrays {
		var s sArrays
		copy(s.G[:], rapid.SliceOfN(rapid.Byte(), 16, 16).Draw(t, "g"))
		for i := range s.N {
			s.N[i] = gI64(t, "n")
		}
		for i := 0; i < rapid.IntRange(0, 3).Draw(t, "ns"); i++ {
			s.S = append(s.S, gBytes(t, "s"))
		}
		for i := 0; i < rapid.IntRange(0, 3).Draw(t, "nt"); i++ {
			s.T = append(s.T, Inner{X: gI64(t, "tx"), Y: gStr(t, "ty")})
		}
		for i := 0; i < rapid.IntRange(0, 3).Draw(t, "nu"); i++ {
			var row []int64
			for j := 0; j < rapid.IntRange(0, 3).Draw(t, "nuj"); j++ {
				row = append(row, gI64(t, "u"))
			}
			s.U = append(s.U, row)
		}
		return s
	}, func(s sArrays) built {
		n := refcbor.A()
		for _, v := range s.N {
			n.Items = append(n.Items, refcbor.I(v))
		}
		ss := refcbor.A()
		for _, v := range s.S {
			ss.Items = append(ss.Items, rB(v))
		}
		tt := refcbor.A()
		for _, v := range s.T {
			tt.Items = append(tt.Items, refcbor.A(refcbor.I(v.X), refcbor.T(v.Y)))
		}
		uu := refcbor.A()
		for _, row := range s.U {
			r := refcbor.A()
			for _, v := range row {
				r.Items = append(r.Items, refcbor.I(v))
			}
			uu.Items = append(uu.Items, r)
		}
		return built{val: s, ptr: func() any { return new(sArrays) }, ref: refcbor.A(refcbor.B(s.G[:]), n, ss, tt, uu), class: "arrays", nontrivial: true, norm: normBytes}
	}))
	reg(shapeOf("maps", func(t *rapid.T) sMaps {
		s := sMaps{A: map[int64]string{}, B: map[string][]byte{}, C: map[int64]struct{}{}}
		for i := 0; i < rapid.IntRange(0, 5).Draw(t, "na"); i++ {
			s.A[gI64(t, "ak")] = gStr(t, "av")
		}
		for i := 0; i < rapid.IntRange(0, 5).Draw(t, "nb"); i++ {
			s.B[gStr(t, "bk")] = gBytes(t, "bv")
		}
		for i := 0; i < rapid.IntRange(0, 5).Draw(t, "nc"); i++ {
			s.C[gI64(t, "ck")] = struct{}{}
		}
		return s
	}, func(s sMaps) built {
		a, b, c := refcbor.M(), refcbor.M(), refcbor.M()
		for k, v := range s.A {
			a.Items = append(a.Items, refcbor.I(k), refcbor.T(v))
		}
		for k, v := range s.B {
			b.Items = append(b.Items, refcbor.T(k), rB(v))
		}
		for k := range s.C {
			c.Items = append(c.Items, refcbor.I(k), refcbor.A())
		}
		multi := len(s.A) >= 2 || len(s.B) >= 2 || len(s.C) >= 2
		cls := "maps-small"
		if multi {
			cls = "maps>=2keys"
		}
		return built{val: s, ptr: func() any { return new(sMaps) }, ref: refcbor.A(a, b, c), class: cls, nontrivial: multi, norm: normBytes}
	}))
	reg(shapeOf("generics", func(t *rapid.T) struct {
		TN        uint64
		I1, I2    Inner
		I3        Inner
		R         hb
		X         hb
		Extra     map[int]hb
		HaveExtra bool
	} {
		s := struct {
			TN        uint64
			I1, I2    Inner
			I3        Inner
			R         hb
			X         hb
			Extra     map[int]hb
			HaveExtra bool
		}{TN: genUintArg(t, 1<<64-1), I1: Inner{gI64(t, "1x"), gStr(t, "1y")}, I2: Inner{gI64(t, "2x"), gStr(t, "2y")}, I3: Inner{gI64(t, "3x"), gStr(t, "3y")},
			R: gBytes(t, "r"), X: hb(refcbor.Encode(genAnyTree(t, 2))), HaveExtra: rapid.Bool().Draw(t, "he")}
		if s.HaveExtra {
			s.Extra = map[int]hb{}
			for i := 0; i < rapid.IntRange(0, 3).Draw(t, "ne"); i++ {
				s.Extra[int(rapid.Int32().Draw(t, "ek"))] = gBytes(t, "ev")
			}
		}
		return s
	}, func(s struct {
		TN        uint64
		I1, I2    Inner
		I3        Inner
		R         hb
		X         hb
		Extra     map[int]hb
		HaveExtra bool
	}) built {
		v := sGenerics{T: cbor.Tag[Inner]{Num: s.TN, Val: s.I1}, B: cbor.Bstr[Inner]{Val: s.I2}, W: cbor.ByteWrap[Inner]{Val: s.I3},
			R: cbor.ByteWrap[[]byte]{Val: nz(s.R)}, X: cbor.RawBytes(s.X)}
		in := func(i Inner) *refcbor.Node { return refcbor.A(refcbor.I(i.X), refcbor.T(i.Y)) }
		ref := refcbor.A(refcbor.Tg(s.TN, in(s.I1)), refcbor.Wrap(in(s.I2)), refcbor.Wrap(in(s.I3)), rB(s.R), rRaw(s.X), refcbor.Null())
		if s.HaveExtra {
			m := map[int][]byte{}
			rm := refcbor.M()
			for k, b := range s.Extra {
				m[k] = nz(b)
				rm.Items = append(rm.Items, refcbor.I(int64(k)), rB(b))
			}
			v.O = cbor.NewBstr(m)
			ref.Items[5] = refcbor.Wrap(rm)
		}
		return built{val: v, ptr: func() any { return new(sGenerics) }, ref: ref, class: "generics", nontrivial: true, norm: normBytes}
	}))
	reg(shapeOf("timestamp", func(t *rapid.T) int64 {
		if rapid.Bool().Draw(t, "z") {
			return rapid.SampledFrom([]int64{1, 59, 60, 61, 3600, 86400, 1700000000, 1<<31 - 1, 1 << 31, 1 << 32, 253402300799}).Draw(t, "tb")
		}
		return rapid.Int64Range(1, 253402300799).Draw(t, "ts")
	}, func(sec int64) built {
		v := cbor.Timestamp(time.Unix(sec, 0))
		return built{val: v, ptr: func() any { return new(cbor.Timestamp) }, ref: refcbor.Tg(1, refcbor.I(sec)), class: "timestamp", nontrivial: sec >= 60,
			norm: func(a any) any {
				switch x := a.(type) {
				case cbor.Timestamp:
					return time.Time(x).Unix()
				}
				return a
			}}
	}))

	// ---- FDO / COSE structures, reference trees written from the CDDL ------
	reg(shapeOf("protocol.Hash", genHash, func(s specHash) built {
		return built{val: s.goVal(), ptr: func() any { return new(protocol.Hash) }, ref: s.ref(), class: "fdo", nontrivial: true, norm: normBytes}
	}))
	reg(shapeOf("protocol.PublicKey", genPub, func(s specPub) built {
		return built{val: s.goVal(), ptr: func() any { return new(protocol.PublicKey) }, ref: s.ref(), class: "fdo", nontrivial: true}
	}))
	reg(shapeOf("protocol.RvInfo", genRvInfo, func(s specRvInfo) built {
		omitted := false
		for _, d := range s {
			for _, i := range d {
				if len(i.Val) == 0 {
					omitted = true
				}
			}
		}
		cls := "rvinfo"
		if omitted {
			cls = "rvinfo-omitted-value"
		}
		return built{val: s.goVal(), ptr: func() any { return new([][]protocol.RvInstruction) }, ref: s.ref(), class: cls, nontrivial: len(s) > 0, norm: normBytes}
	}))
	reg(shapeOf("protocol.To1d", genTo1d, func(s specTo1d) built {
		return built{val: s.goVal(), ptr: func() any { return new(protocol.To1d) }, ref: s.ref(), class: "fdo", nontrivial: true, norm: normBytes}
	}))
	reg(shapeOf("protocol.ErrorMessage", func(t *rapid.T) specErr {
		s := specErr{Code: gU16(t, "code"), Prev: rapid.Uint8().Draw(t, "prev"), Str: gStr(t, "str"), TS: gI64(t, "ts")}
		if rapid.Bool().Draw(t, "hc") {
			v := uint(genUintArg(t, 1<<63-1))
			s.Corr = &v
		}
		return s
	}, func(s specErr) built {
		ref := refcbor.A(refcbor.U(uint64(s.Code)), refcbor.U(uint64(s.Prev)), refcbor.T(s.Str), refcbor.I(s.TS), refcbor.Null())
		if s.Corr != nil {
			ref.Items[4] = refcbor.U(uint64(*s.Corr))
		}
		return built{val: protocol.ErrorMessage{Code: s.Code, PrevMsgType: s.Prev, ErrString: s.Str, Timestamp: s.TS, CorrelationID: s.Corr},
			ptr: func() any { return new(protocol.ErrorMessage) }, ref: ref, class: "fdo", nontrivial: true}
	}))
	reg(shapeOf("fdo.VoucherHeader", genOVH, func(s specOVH) built {
		return built{val: s.goVal(), ptr: func() any { return new(fdo.VoucherHeader) }, ref: s.ref(), class: "fdo", nontrivial: true, norm: normBytes}
	}))
	reg(shapeOf("fdo.VoucherEntryPayload", genEntry, func(s specEntry) built {
		return built{val: s.goVal(), ptr: func() any { return new(fdo.VoucherEntryPayload) }, ref: s.ref(), class: "fdo", nontrivial: true, norm: normBytes}
	}))
	reg(shapeOf("fdo.DeviceCredential", func(t *rapid.T) specCred {
		return specCred{Ver: gU16(t, "v"), Info: gStr(t, "i"), GUID: hb(rapid.SliceOfN(rapid.Byte(), 16, 16).Draw(t, "g")), Rv: genRvInfo(t), PKH: genHash(t)}
	}, func(s specCred) built {
		var g protocol.GUID
		copy(g[:], s.GUID)
		return built{val: fdo.DeviceCredential{Version: s.Ver, DeviceInfo: s.Info, GUID: g, RvInfo: s.Rv.goVal(), PublicKeyHash: s.PKH.goVal()},
			ptr: func() any { return new(fdo.DeviceCredential) },
			ref: refcbor.A(refcbor.U(uint64(s.Ver)), refcbor.T(s.Info), refcbor.B(g[:]), s.Rv.ref(), s.PKH.ref()), class: "fdo", nontrivial: true, norm: normBytes}
	}))
	reg(shapeOf("serviceinfo.KVs", func(t *rapid.T) []specKV {
		var out []specKV
		for i := 0; i < rapid.IntRange(0, 4).Draw(t, "n"); i++ {
			out = append(out, specKV{K: gStr(t, "k"), V: gBytes(t, "v")})
		}
		return out
	}, func(s []specKV) built {
		type dsi struct {
			More bool
			Info []*serviceinfo.KV
		}
		v := dsi{More: len(s)%2 == 1}
		arr := refcbor.A()
		for _, kv := range s {
			v.Info = append(v.Info, &serviceinfo.KV{Key: kv.K, Val: nz(kv.V)})
			arr.Items = append(arr.Items, refcbor.A(refcbor.T(kv.K), rB(kv.V)))
		}
		return built{val: v, ptr: func() any { return new(dsi) }, ref: refcbor.A(refcbor.Bool(v.More), arr), class: "fdo", nontrivial: len(s) > 0, norm: normBytes}
	}))
	reg(shapeOf("serviceinfo.DevmodModulesChunk", func(t *rapid.T) serviceinfo.DevmodModulesChunk {
		c := serviceinfo.DevmodModulesChunk{Start: rapid.IntRange(0, 300).Draw(t, "s"), Len: rapid.IntRange(0, 300).Draw(t, "l"), Modules: []string{}}
		for i := 0; i < rapid.IntRange(0, 5).Draw(t, "n"); i++ {
			c.Modules = append(c.Modules, gStr(t, "m"))
		}
		return c
	}, func(c serviceinfo.DevmodModulesChunk) built {
		ref := refcbor.A(refcbor.I(int64(c.Start)), refcbor.I(int64(c.Len)))
		for _, m := range c.Modules {
			ref.Items = append(ref.Items, refcbor.T(m))
		}
		if c.Modules == nil {
			c.Modules = []string{}
		}
		return built{val: c, ptr: func() any { return new(serviceinfo.DevmodModulesChunk) }, ref: ref, class: "fdo", nontrivial: true}
	}))
	reg(shapeOf("cose.Label", func(t *rapid.T) cose.Label {
		if rapid.Bool().Draw(t, "text") {
			return cose.Label{Str: rapid.StringOfN(rapid.RuneFrom([]rune("abcxyz")), 1, 30, -1).Draw(t, "s")}
		}
		v := gI64(t, "i")
		if v == 0 {
			v = 1
		}
		return cose.Label{Int64: v}
	}, func(l cose.Label) built {
		ref, cls := refcbor.I(l.Int64), "label-int"
		if l.Int64 == 0 {
			ref, cls = refcbor.T(l.Str), "label-text"
		}
		return built{val: l, ptr: func() any { return new(cose.Label) }, ref: ref, class: cls, nontrivial: true}
	}))
	reg(shapeOf("cose.Sign1Tag", genSign1, func(s specSign1) built {
		return built{val: s.goVal(), ptr: func() any { return new(cose.Sign1Tag[Inner, []byte]) }, ref: s.ref(), class: s.class(), nontrivial: true, norm: normSign1}
	}))
	reg(shapeOf("cose.Mac0Tag", genSign1, func(s specSign1) built {
		v := cose.Mac0[Inner, []byte]{Header: s.header(), Payload: s.payload(), Value: nz(s.Sig)}
		ref := s.ref()
		ref.Val = 17
		return built{val: v.Tag(), ptr: func() any { return new(cose.Mac0Tag[Inner, []byte]) }, ref: ref, class: s.class(), nontrivial: true, norm: normSign1}
	}))
	reg(shapeOf("cose.Encrypt0Tag", genSign1, func(s specSign1) built {
		v := cose.Encrypt0[Inner, []byte]{Header: s.header()}
		ref := s.ref()
		ref.Val = 16
		body := ref.Items[0]
		body.Items = body.Items[:3]
		if s.HavePayload {
			ct := nz(s.Sig)
			v.Ciphertext = &ct
			body.Items[2] = rB(s.Sig)
		} else {
			body.Items[2] = refcbor.Null()
		}
		return built{val: v.Tag(), ptr: func() any { return new(cose.Encrypt0Tag[Inner, []byte]) }, ref: ref, class: s.class(), nontrivial: true, norm: normSign1}
	}))
	reg(shapeOf("fdo.Voucher", genVoucher, func(s specVoucher) built {
		return built{val: s.goVal(), ptr: func() any { return new(fdo.Voucher) }, ref: s.ref(), class: fmt.Sprintf("voucher-%dentries", len(s.Entries)), nontrivial: true, norm: normBytes}
	}))
	for i := range shapes {
		shapeIdx[shapes[i].name] = &shapes[i]
	}
}

// ---- spec types for FDO structures ------------------------------------------

type specHash struct {
	Alg int64 `json:"alg"`
	Val hb    `json:"val"`
}

func genHash(t *rapid.T) specHash {
	alg := rapid.SampledFrom([]int64{-16, -43, 5, 6}).Draw(t, "alg")
	n := 32
	if alg == -43 || alg == 6 {
		n = 48
	}
	return specHash{Alg: alg, Val: hb(rapid.SliceOfN(rapid.Byte(), n, n).Draw(t, "hv"))}
}
func (s specHash) goVal() protocol.Hash {
	return protocol.Hash{Algorithm: protocol.HashAlg(s.Alg), Value: nz(s.Val)}
}
func (s specHash) ref() *refcbor.Node { return refcbor.A(refcbor.I(s.Alg), rB(s.Val)) }

type specPub struct {
	Type uint8 `json:"type"`
	Enc  uint8 `json:"enc"`
	Body hb    `json:"body"` // one encoded CBOR item
}

func genPub(t *rapid.T) specPub {
	s := specPub{Type: rapid.SampledFrom([]uint8{1, 5, 6, 10, 11}).Draw(t, "kt"), Enc: rapid.SampledFrom([]uint8{1, 2, 3}).Draw(t, "ke")}
	switch s.Enc {
	case 1:
		s.Body = hb(refcbor.Encode(refcbor.B(rapid.SliceOfN(rapid.Byte(), 20, 300).Draw(t, "der"))))
	case 2:
		arr := refcbor.A()
		for i := 0; i < rapid.IntRange(1, 3).Draw(t, "nc"); i++ {
			arr.Items = append(arr.Items, refcbor.B(rapid.SliceOfN(rapid.Byte(), 20, 300).Draw(t, "cert")))
		}
		s.Body = hb(refcbor.Encode(arr))
	default:
		m := refcbor.M(refcbor.I(1), refcbor.I(2), refcbor.I(-1), refcbor.I(int64(rapid.IntRange(1, 2).Draw(t, "crv"))),
			refcbor.I(-2), refcbor.B(rapid.SliceOfN(rapid.Byte(), 32, 32).Draw(t, "x")), refcbor.I(-3), refcbor.B(rapid.SliceOfN(rapid.Byte(), 32, 32).Draw(t, "y")))
		s.Body = hb(refcbor.Encode(m))
	}
	return s
}
func (s specPub) goVal() protocol.PublicKey {
	return protocol.PublicKey{Type: protocol.KeyType(s.Type), Encoding: protocol.KeyEncoding(s.Enc), Body: cbor.RawBytes(s.Body)}
}
func (s specPub) ref() *refcbor.Node {
	return refcbor.A(refcbor.U(uint64(s.Type)), refcbor.U(uint64(s.Enc)), rRaw(s.Body))
}

type specRvInstr struct {
	Var uint8 `json:"var"`
	Val hb    `json:"val"`
}
type specRvInfo [][]specRvInstr

func genRvInfo(t *rapid.T) specRvInfo {
	var out specRvInfo
	for i := 0; i < rapid.IntRange(0, 3).Draw(t, "nd"); i++ {
		d := []specRvInstr{}
		for j := 0; j < rapid.IntRange(0, 4).Draw(t, "ni"); j++ {
			in := specRvInstr{Var: uint8(rapid.IntRange(0, 15).Draw(t, "var"))}
			if rapid.IntRange(0, 3).Draw(t, "hv") > 0 {
				in.Val = hb(refcbor.Encode(genAnyTree(t, 1)))
			}
			d = append(d, in)
		}
		out = append(out, d)
	}
	return out
}
func (s specRvInfo) goVal() [][]protocol.RvInstruction {
	out := make([][]protocol.RvInstruction, len(s))
	for i, d := range s {
		out[i] = make([]protocol.RvInstruction, len(d))
		for j, in := range d {
			out[i][j] = protocol.RvInstruction{Variable: protocol.RvVar(in.Var), Value: in.Val}
		}
	}
	return out
}
func (s specRvInfo) ref() *refcbor.Node {
	out := refcbor.A()
	for _, d := range s {
		dn := refcbor.A()
		for _, in := range d {
			e := refcbor.A(refcbor.U(uint64(in.Var)))
			if len(in.Val) > 0 {
				e.Items = append(e.Items, refcbor.B(in.Val))
			}
			dn.Items = append(dn.Items, e)
		}
		out.Items = append(out.Items, dn)
	}
	return out
}

type specAddr struct {
	IP    hb      `json:"ip"`
	HasIP bool    `json:"has_ip"`
	DNS   *string `json:"dns"`
	Port  uint16  `json:"port"`
	Proto uint8   `json:"proto"`
}
type specTo1d struct {
	Addrs []specAddr `json:"addrs"`
	Hash  specHash   `json:"hash"`
}

func genTo1d(t *rapid.T) specTo1d {
	s := specTo1d{Hash: genHash(t)}
	for i := 0; i < rapid.IntRange(0, 4).Draw(t, "na"); i++ {
		a := specAddr{Port: gU16(t, "port"), Proto: uint8(rapid.IntRange(1, 6).Draw(t, "proto"))}
		if rapid.Bool().Draw(t, "hip") {
			a.HasIP = true
			a.IP = hb(rapid.SliceOfN(rapid.Byte(), 4, 4).Draw(t, "ip4"))
			if rapid.Bool().Draw(t, "v6") {
				a.IP = hb(rapid.SliceOfN(rapid.Byte(), 16, 16).Draw(t, "ip6"))
			}
		}
		if rapid.Bool().Draw(t, "hdns") || !a.HasIP {
			d := gStr(t, "dns")
			a.DNS = &d
		}
		s.Addrs = append(s.Addrs, a)
	}
	return s
}
func (s specTo1d) goVal() protocol.To1d {
	v := protocol.To1d{To0dHash: s.Hash.goVal(), RV: []protocol.RvTO2Addr{}}
	for _, a := range s.Addrs {
		ga := protocol.RvTO2Addr{DNSAddress: a.DNS, Port: a.Port, TransportProtocol: protocol.TransportProtocol(a.Proto)}
		if a.HasIP {
			ip := net.IP(a.IP)
			ga.IPAddress = &ip
		}
		v.RV = append(v.RV, ga)
	}
	return v
}
func (s specTo1d) ref() *refcbor.Node {
	arr := refcbor.A()
	for _, a := range s.Addrs {
		e := refcbor.A(refcbor.Null(), refcbor.Null(), refcbor.U(uint64(a.Port)), refcbor.U(uint64(a.Proto)))
		if a.HasIP {
			e.Items[0] = rB(a.IP)
		}
		if a.DNS != nil {
			e.Items[1] = refcbor.T(*a.DNS)
		}
		arr.Items = append(arr.Items, e)
	}
	return refcbor.A(arr, s.Hash.ref())
}

type specErr struct {
	Code uint16
	Prev uint8
	Str  string
	TS   int64
	Corr *uint
}

type specOVH struct {
	Ver  uint16     `json:"ver"`
	GUID hb         `json:"guid"`
	Rv   specRvInfo `json:"rv"`
	Info string     `json:"info"`
	Key  specPub    `json:"key"`
	CCH  *specHash  `json:"cch"`
}

func genOVH(t *rapid.T) specOVH {
	s := specOVH{Ver: gU16(t, "ver"), GUID: hb(rapid.SliceOfN(rapid.Byte(), 16, 16).Draw(t, "guid")), Rv: genRvInfo(t), Info: gStr(t, "info"), Key: genPub(t)}
	if rapid.IntRange(0, 3).Draw(t, "hcch") > 0 {
		h := genHash(t)
		s.CCH = &h
	}
	return s
}
func (s specOVH) goVal() fdo.VoucherHeader {
	var g protocol.GUID
	copy(g[:], s.GUID)
	v := fdo.VoucherHeader{Version: s.Ver, GUID: g, RvInfo: s.Rv.goVal(), DeviceInfo: s.Info, ManufacturerKey: s.Key.goVal()}
	if s.CCH != nil {
		h := s.CCH.goVal()
		v.CertChainHash = &h
	}
	return v
}
func (s specOVH) ref() *refcbor.Node {
	g := make([]byte, 16)
	copy(g, s.GUID)
	n := refcbor.A(refcbor.U(uint64(s.Ver)), refcbor.B(g), s.Rv.ref(), refcbor.T(s.Info), s.Key.ref(), refcbor.Null())
	if s.CCH != nil {
		n.Items[5] = s.CCH.ref()
	}
	return n
}

type specEntry struct {
	Prev, Hdr specHash
	Extra     map[int]hb
	HasExtra  bool
	Key       specPub
}

func genEntry(t *rapid.T) specEntry {
	s := specEntry{Prev: genHash(t), Hdr: genHash(t), Key: genPub(t), HasExtra: rapid.Bool().Draw(t, "hx")}
	if s.HasExtra {
		s.Extra = map[int]hb{}
		for i := 0; i < rapid.IntRange(0, 3).Draw(t, "nx"); i++ {
			s.Extra[int(rapid.Int16().Draw(t, "xk"))] = gBytes(t, "xv")
		}
	}
	return s
}
func (s specEntry) goVal() fdo.VoucherEntryPayload {
	v := fdo.VoucherEntryPayload{PreviousHash: s.Prev.goVal(), HeaderHash: s.Hdr.goVal(), PublicKey: s.Key.goVal()}
	if s.HasExtra {
		m := map[int][]byte{}
		for k, b := range s.Extra {
			m[k] = nz(b)
		}
		v.Extra = cbor.NewBstr(m)
	}
	return v
}
func (s specEntry) ref() *refcbor.Node {
	n := refcbor.A(s.Prev.ref(), s.Hdr.ref(), refcbor.Null(), s.Key.ref())
	if s.HasExtra {
		m := refcbor.M()
		for k, b := range s.Extra {
			m.Items = append(m.Items, refcbor.I(int64(k)), rB(b))
		}
		n.Items[2] = refcbor.Wrap(m)
	}
	return n
}

type specCred struct {
	Ver  uint16
	Info string
	GUID hb
	Rv   specRvInfo
	PKH  specHash
}

type specKV struct {
	K string
	V hb
}

type specHdrVal struct {
	Label int64  `json:"label"`
	Text  string `json:"text,omitempty"` // text label when Label == 0
	Val   hb     `json:"val"`            // encoded CBOR item from the any-model
}
type specSign1 struct {
	Prot        []specHdrVal `json:"prot"`
	Unprot      []specHdrVal `json:"unprot"`
	Payload     Inner        `json:"payload"`
	HavePayload bool         `json:"have_payload"`
	Sig         hb           `json:"sig"`
}

func genHdr(t *rapid.T, label string) []specHdrVal {
	var out []specHdrVal
	seen := map[int64]bool{}
	seenText := map[string]bool{}
	for i := 0; i < rapid.IntRange(0, 3).Draw(t, label+"n"); i++ {
		l := rapid.SampledFrom([]int64{1, 4, 5, 256, 257, -17760701, -259, 23, 24, -24, -25}).Draw(t, label+"l")
		if seen[l] {
			continue
		}
		seen[l] = true
		text := ""
		if rapid.IntRange(0, 4).Draw(t, label+"txt") == 0 {
			text = rapid.SampledFrom([]string{"a", "alg", "zz", "abcdefghijklmnopqrstuvwxyz"}).Draw(t, label+"tl")
			if seenText[text] {
				continue
			}
			seenText[text] = true
			l = 0
		}
		// header values: scalars of the any model (what FDO uses: ints, bstr, keys)
		var v *refcbor.Node
		switch rapid.IntRange(0, 3).Draw(t, label+"vk") {
		case 0:
			v = refcbor.I(gI64(t, label+"vi"))
		case 1:
			v = refcbor.B(gBytes(t, label+"vb"))
		case 2:
			v = refcbor.T(gStr(t, label+"vt"))
		default:
			v = refcbor.A(refcbor.I(gI64(t, label+"va")), refcbor.B(gBytes(t, label+"vab")))
		}
		out = append(out, specHdrVal{Label: l, Text: text, Val: hb(refcbor.Encode(v))})
	}
	return out
}
func genSign1(t *rapid.T) specSign1 {
	return specSign1{Prot: genHdr(t, "p"), Unprot: genHdr(t, "u"), Payload: Inner{gI64(t, "px"), gStr(t, "py")}, HavePayload: rapid.IntRange(0, 3).Draw(t, "hp") > 0, Sig: gBytes(t, "sig")}
}
func hdrGo(h []specHdrVal) cose.HeaderMap {
	m := cose.HeaderMap{}
	for _, e := range h {
		m[cose.Label{Int64: e.Label, Str: e.Text}] = toGo(rRaw(e.Val))
	}
	return m
}
func hdrRef(h []specHdrVal) *refcbor.Node {
	m := refcbor.M()
	for _, e := range h {
		if e.Label == 0 {
			m.Items = append(m.Items, refcbor.T(e.Text), rRaw(e.Val))
			continue
		}
		m.Items = append(m.Items, refcbor.I(e.Label), rRaw(e.Val))
	}
	return m
}
func (s specSign1) header() cose.Header {
	return cose.Header{Protected: hdrGo(s.Prot), Unprotected: hdrGo(s.Unprot)}
}
func (s specSign1) payload() *cbor.ByteWrap[Inner] {
	if !s.HavePayload {
		return nil
	}
	return cbor.NewByteWrap(s.Payload)
}
func (s specSign1) goVal() any {
	v := cose.Sign1[Inner, []byte]{Header: s.header(), Payload: s.payload(), Signature: nz(s.Sig)}
	return v.Tag()
}
func (s specSign1) class() string {
	return fmt.Sprintf("cose-prot%d-unprot%d-payload%v", len(s.Prot), len(s.Unprot), s.HavePayload)
}
func (s specSign1) ref() *refcbor.Node {
	prot := refcbor.B([]byte{})
	if len(s.Prot) > 0 {
		prot = refcbor.Wrap(hdrRef(s.Prot))
	}
	pl := refcbor.Null()
	if s.HavePayload {
		pl = refcbor.Wrap(refcbor.A(refcbor.I(s.Payload.X), refcbor.T(s.Payload.Y)))
	}
	return refcbor.Tg(18, refcbor.A(prot, hdrRef(s.Unprot), pl, rB(s.Sig)))
}

type specVoucherEntry struct {
	Payload specEntry `json:"payload"`
	Alg     int64     `json:"alg"`
	Sig     hb        `json:"sig"`
}
type specVoucher struct {
	Ver     uint16             `json:"ver"`
	Hdr     specOVH            `json:"hdr"`
	Hmac    specHash           `json:"hmac"`
	Entries []specVoucherEntry `json:"entries"`
}

func genVoucher(t *rapid.T) specVoucher {
	s := specVoucher{Ver: gU16(t, "ver"), Hdr: genOVH(t), Hmac: genHash(t)}
	for i := 0; i < rapid.IntRange(0, 3).Draw(t, "ne"); i++ {
		s.Entries = append(s.Entries, specVoucherEntry{Payload: genEntry(t), Alg: rapid.SampledFrom([]int64{-7, -35, -257, -258, -37, -38}).Draw(t, "alg"), Sig: gBytes(t, "sig")})
	}
	return s
}
func (s specVoucher) goVal() fdo.Voucher {
	v := fdo.Voucher{Version: s.Ver, Header: *cbor.NewBstr(s.Hdr.goVal()), Hmac: s.Hmac.goVal(), Entries: []cose.Sign1Tag[fdo.VoucherEntryPayload, []byte]{}}
	for _, e := range s.Entries {
		s1 := cose.Sign1[fdo.VoucherEntryPayload, []byte]{
			Header:    cose.Header{Protected: cose.HeaderMap{cose.AlgLabel: e.Alg}, Unprotected: cose.HeaderMap{}},
			Payload:   cbor.NewByteWrap(e.Payload.goVal()),
			Signature: nz(e.Sig),
		}
		v.Entries = append(v.Entries, *s1.Tag())
	}
	return v
}
func (s specVoucher) ref() *refcbor.Node {
	es := refcbor.A()
	for _, e := range s.Entries {
		es.Items = append(es.Items, refcbor.Tg(18, refcbor.A(refcbor.Wrap(refcbor.M(refcbor.I(1), refcbor.I(e.Alg))), refcbor.M(), refcbor.Wrap(e.Payload.ref()), rB(e.Sig))))
	}
	return refcbor.A(refcbor.U(uint64(s.Ver)), refcbor.Wrap(s.Hdr.ref()), s.Hmac.ref(), refcbor.Null(), es)
}

// ---- normalisation and evaluation -------------------------------------------

// normBytes maps nil and empty slices/maps to the same thing (the package
// documents that decoding yields empty, non-nil containers).
func normBytes(v any) any { return normalize(reflect.ValueOf(v)).Interface() }

func normSign1(v any) any { return normBytes(v) }

func normalize(rv reflect.Value) reflect.Value {
	switch rv.Kind() {
	case reflect.Pointer:
		if rv.IsNil() {
			return rv
		}
		n := reflect.New(rv.Type().Elem())
		n.Elem().Set(normalize(rv.Elem()))
		return n
	case reflect.Interface:
		if rv.IsNil() {
			return rv
		}
		n := reflect.New(rv.Type()).Elem()
		n.Set(normalize(rv.Elem()))
		return n
	case reflect.Struct:
		n := reflect.New(rv.Type()).Elem()
		for i := 0; i < rv.NumField(); i++ {
			if !rv.Type().Field(i).IsExported() {
				continue
			}
			n.Field(i).Set(normalize(rv.Field(i)))
		}
		return n
	case reflect.Slice:
		n := reflect.MakeSlice(rv.Type(), rv.Len(), rv.Len())
		for i := 0; i < rv.Len(); i++ {
			n.Index(i).Set(normalize(rv.Index(i)))
		}
		return n
	case reflect.Array:
		n := reflect.New(rv.Type()).Elem()
		for i := 0; i < rv.Len(); i++ {
			n.Index(i).Set(normalize(rv.Index(i)))
		}
		return n
	case reflect.Map:
		n := reflect.MakeMap(rv.Type())
		it := rv.MapRange()
		for it.Next() {
			n.SetMapIndex(it.Key(), normalize(it.Value()))
		}
		return n
	}
	return rv
}

func evalTyped(d typedDesc) ev.Result {
	sh := shapeIdx[d.Shape]
	if sh == nil {
		return ev.Result{Skip: true}
	}
	b, err := sh.build(d.Spec)
	if err != nil {
		return ev.Result{Skip: true}
	}
	want := refcbor.Encode(b.ref)
	res := ev.Result{NonTrivial: b.nontrivial, Class: d.Shape + "/" + b.class}
	key := d.Shape
	// encode against the reference
	got, err := cbor.Marshal(b.val)
	if err != nil {
		return ev.Failf(key+":encode-error", "Marshal(%s %+v) failed: %v; reference %s", d.Shape, b.val, err, refcbor.Diag(b.ref))
	}
	if !bytes.Equal(got, want) {
		return ev.Failf(key+":encode-mismatch", "Marshal(%s) = %x\nreference (%s) = %x", d.Shape, got, refcbor.Diag(b.ref), want)
	}
	if again, err := cbor.Marshal(b.val); err != nil || !bytes.Equal(again, got) {
		return ev.Failf(key+":encode-nondeterministic", "second Marshal differs: %x vs %x (err %v)", again, got, err)
	}
	if tree, err := refcbor.ParseAll(got); err != nil || !refcbor.Canonical(tree, got) {
		return ev.Failf(key+":not-canonical", "Marshal(%s) = %x is not canonical CBOR (err %v)", d.Shape, got, err)
	}
	// decode the reference bytes and compare with the value
	ptr := b.ptr()
	if err := cbor.Unmarshal(want, ptr); err != nil {
		return ev.Failf(key+":decode-error", "Unmarshal(%x = %s) into %T failed: %v", want, refcbor.Diag(b.ref), ptr, err)
	}
	gotVal := reflect.ValueOf(ptr).Elem().Interface()
	expVal := b.val
	if rv := reflect.ValueOf(expVal); rv.Kind() == reflect.Pointer && reflect.TypeOf(gotVal) == rv.Type().Elem() {
		expVal = rv.Elem().Interface()
	}
	norm := b.norm
	if norm == nil {
		norm = func(a any) any { return a }
	}
	if !reflect.DeepEqual(norm(gotVal), norm(expVal)) {
		return ev.Failf(key+":decode-value", "decode(encode(v)) != v for %s:\n got %+v\nwant %+v", d.Shape, gotVal, expVal)
	}
	re, err := cbor.Marshal(gotVal)
	if err != nil || !bytes.Equal(re, want) {
		return ev.Failf(key+":reencode-mismatch", "encode(decode(b)) = %x (err %v), b = %x (%s)", re, err, want, d.Shape)
	}
	return res
}

func genTyped(t *rapid.T) typedDesc {
	smallOnly = true
	defer func() { smallOnly = false }()
	names := make([]string, len(shapes))
	for i := range shapes {
		names[i] = shapes[i].name
	}
	name := rapid.SampledFrom(names).Draw(t, "shape")
	spec := shapeIdx[name].gen(t)
	raw, err := json.Marshal(spec)
	if err != nil {
		panic(err)
	}
	return typedDesc{Shape: name, Spec: raw}
}

func typedSubs(r *ev.Run) {
	r.SetRule("typed", "per Go shape (structs with weights / ignored / omitempty / embedded / pointer fields, fixed arrays, slices, maps, Tag/Bstr/ByteWrap/RawBytes/Timestamp generics, COSE Sign1/Mac0/Encrypt0 with header maps, FDO Hash/PublicKey/RvInfo/To1d/ErrorMessage/VoucherHeader/VoucherEntryPayload/Voucher/DeviceCredential/KV/DevmodModulesChunk) a rapid-generated value; oracle: Marshal(v) equals the canonical encoding of a hand-written reference tree (from cbor/doc.go and the FDO CDDL), is deterministic and canonical; Unmarshal(reference bytes) deep-equals v (nil/empty containers identified); re-Marshal reproduces the bytes. Non-trivial: every struct/FDO shape; maps only with ≥2 keys; distinct by (shape, spec).")
	ev.Rapid(r, "typed", ev.N{Quick: 30000, Thorough: 1500000}, genTyped, evalTyped)
	ev.CheckWitness(r, "typed", evalTyped)
	ev.CheckWitness(r, "any", evalAny)
	ev.CheckWitness(r, "ints", evalInt)
}
