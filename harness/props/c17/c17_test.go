//go:build verif

// C17 — FSIM file transfers deliver identical files or nothing.
package c17

import (
	"bytes"
	"context"
	"crypto/sha512"
	"errors"
	"fmt"
	"io"
	"net/http"
	"net/url"
	"os"
	"path/filepath"
	"regexp"
	"strings"
	"sync"
	"testing"
	"testing/fstest"
	"time"

	"github.com/fido-device-onboard/go-fdo/fsim"
	"github.com/fido-device-onboard/go-fdo/serviceinfo"
	"pgregory.net/rapid"

	"verif/harness/deploy"
	"verif/harness/ev"
	"verif/harness/refcbor"
)

type fcase struct {
	Mod      string `json:"mod"` // download | upload | wget
	Size     int    `json:"size"`
	Seed     int    `json:"seed"`  // content
	Chunk    int    `json:"chunk"` // download: DownloadContents.ChunkSize
	DevMTU   int    `json:"devmtu"`
	OwnMTU   int    `json:"ownmtu"`
	NameLen  int    `json:"namelen"`
	Rename   bool   `json:"rename,omitempty"` // upload: owner stores under another name
	Fault    string `json:"fault"`
	FaultArg int    `json:"faultarg"`
	Cfg      int    `json:"cfg"`
}

var cfgs = []deploy.Config{
	{Key: "P-256", Enc: "x509", Kex: "ECDH256", Cipher: "A128GCM"},
	{Key: "P-384", Enc: "x5chain", Kex: "ECDH384", Cipher: "COSEAES256CBC"},
}

var downFaults = []string{"none", "flipdata", "truncdata", "digest", "length+", "length-", "drop", "dup", "swap"}
var upFaults = downFaults
var wgetFaults = []string{"none", "flipdata", "truncdata", "extend", "readerr", "status", "digest", "empty"}

func content(seed, n int) []byte {
	b := make([]byte, n)
	x := uint32(seed)*2654435761 + 977
	for i := range b {
		x ^= x << 13
		x ^= x >> 17
		x ^= x << 5
		b[i] = byte(x >> 3)
	}
	return b
}

func fileName(c fcase) string {
	n := min(max(c.NameLen, 1), 60)
	s := fmt.Sprintf("f%d", c.Seed%1000)
	if len(s) < n {
		s += strings.Repeat("n", n-len(s))
	}
	return s + ".bin"
}

// faulter alters the service info one side of the tunnel delivers to the real FSIM module.
type faulter struct {
	kind    string
	arg     int
	target  int // ordinal of the data message the fault applies to
	mu      sync.Mutex
	nData   int
	applied bool
	held    []byte
	hasHeld bool
}

func bstrPayload(b []byte) (hdr int, n int, ok bool) {
	if len(b) == 0 || b[0]>>5 != 2 {
		return 0, 0, false
	}
	node, used, err := refcbor.Parse(b)
	if err != nil || node.Kind != refcbor.Bytes {
		return 0, 0, false
	}
	return used - len(node.Bytes), len(node.Bytes), true
}

// alter returns the bodies to deliver for one received message.
func (f *faulter) alter(name string, body []byte) [][]byte {
	f.mu.Lock()
	defer f.mu.Unlock()
	a := f.arg
	if a < 0 {
		a = -a
	}
	switch name {
	case "sha-384":
		if f.kind == "digest" && len(body) > 2 {
			b := append([]byte{}, body...)
			b[2+a%(len(b)-2)] ^= 1 << (a % 8)
			f.applied = true
			return [][]byte{b}
		}
	case "length":
		if f.kind == "length+" || f.kind == "length-" {
			node, err := refcbor.ParseAll(body)
			if err != nil || node.Kind != refcbor.Uint {
				return [][]byte{body}
			}
			d := uint64([]int{1, 2, 1014, 100000}[a%4])
			v := node.Val
			if f.kind == "length+" {
				v += d
			} else if v > d {
				v -= d
			} else {
				v = 0
			}
			if v == node.Val {
				return [][]byte{body}
			}
			f.applied = true
			return [][]byte{refcbor.Encode(refcbor.U(v))}
		}
	case "data":
		k := f.nData
		f.nData++
		if f.hasHeld && f.kind == "swap" {
			// deliver the held message after this one
			h := f.held
			f.hasHeld, f.held = false, nil
			f.applied = true
			return [][]byte{body, h}
		}
		if k != f.target {
			return [][]byte{body}
		}
		switch f.kind {
		case "flipdata":
			b := append([]byte{}, body...)
			if hdr, n, ok := bstrPayload(b); ok && n > 0 {
				b[hdr+(a/8)%n] ^= 1 << (a % 8)
			} else if len(b) > 0 {
				b[len(b)/2] ^= 1 << (a % 8)
			}
			f.applied = true
			return [][]byte{b}
		case "garbledata":
			// a data message whose CBOR framing is broken (not a byte string / truncated head)
			f.applied = true
			return [][]byte{[][]byte{{0x18}, {0xa0}, {0x5a, 0x00, 0x01}, {0x61, 0x78}, {0xff}}[a%5]}
		case "truncdata":
			if hdr, n, ok := bstrPayload(body); ok && n > 0 && hdr+n == len(body) {
				f.applied = true
				return [][]byte{refcbor.Encode(refcbor.B(body[hdr : hdr+n-1]))}
			}
			return [][]byte{body}
		case "drop":
			f.applied = true
			return nil
		case "dup":
			f.applied = true
			return [][]byte{body, body}
		case "swap":
			f.held, f.hasHeld = append([]byte{}, body...), true
			// counts as applied even when no later message arrives (then it is a drop)
			f.applied = true
			return nil
		}
	}
	return [][]byte{body}
}

type devProxy struct {
	inner serviceinfo.DeviceModule
	f     *faulter
}

func (p *devProxy) Transition(a bool) error { return p.inner.Transition(a) }
func (p *devProxy) Receive(ctx context.Context, name string, body io.Reader, respond func(string) io.Writer, yield func()) error {
	b, err := io.ReadAll(body)
	if err != nil {
		return err
	}
	for _, x := range p.f.alter(name, b) {
		if err := p.inner.Receive(ctx, name, bytes.NewReader(x), respond, yield); err != nil {
			return err
		}
	}
	return nil
}
func (p *devProxy) Yield(ctx context.Context, respond func(string) io.Writer, yield func()) error {
	return p.inner.Yield(ctx, respond, yield)
}

type ownProxy struct {
	inner serviceinfo.OwnerModule
	f     *faulter
}

func (p *ownProxy) HandleInfo(ctx context.Context, name string, body io.Reader) error {
	b, err := io.ReadAll(body)
	if err != nil {
		return err
	}
	for _, x := range p.f.alter(name, b) {
		if err := p.inner.HandleInfo(ctx, name, bytes.NewReader(x)); err != nil {
			return err
		}
	}
	return nil
}
func (p *ownProxy) ProduceInfo(ctx context.Context, pr *serviceinfo.Producer) (bool, bool, error) {
	return p.inner.ProduceInfo(ctx, pr)
}

type rtFunc func(*http.Request) (*http.Response, error)

func (f rtFunc) RoundTrip(r *http.Request) (*http.Response, error) { return f(r) }

type errReader struct {
	b   []byte
	err error
}

func (e *errReader) Read(p []byte) (int, error) {
	if len(e.b) == 0 {
		return 0, e.err
	}
	n := copy(p, e.b)
	e.b = e.b[n:]
	return n, nil
}
func (e *errReader) Close() error { return nil }

var digits = regexp.MustCompile(`[0-9]+`)
var hexes = regexp.MustCompile(`[0-9a-f]{8,}`)

func normErr(err error) string {
	s := hexes.ReplaceAllString(err.Error(), "H")
	s = digits.ReplaceAllString(s, "N")
	if len(s) > 100 {
		s = s[len(s)-100:]
	}
	return s
}

func sanitize(c *fcase) {
	clamp := func(v, lo, hi int) int { return min(max(v, lo), hi) }
	c.DevMTU, c.OwnMTU = clamp(c.DevMTU, 64, 65535), clamp(c.OwnMTU, 256, 65535)
	c.Cfg = ((c.Cfg % len(cfgs)) + len(cfgs)) % len(cfgs)
	if c.Chunk < -1 {
		c.Chunk = -1
	}
	c.Chunk = min(c.Chunk, 65535)
	c.Size = max(c.Size, 1)
	// bound the number of round trips
	switch c.Mod {
	case "download":
		eff := 1014
		if c.Chunk > 0 {
			eff = c.Chunk
		} else if c.Chunk < 0 {
			eff = 65535
		}
		eff = max(1, min(eff, c.DevMTU-40))
		c.Size = min(c.Size, 250*eff)
	case "upload":
		per := min(1014, max(1, c.OwnMTU-40))
		c.Size = min(c.Size, 300*per)
	default:
		c.Size = min(c.Size, 1<<20)
	}
}

func eval(c fcase) ev.Result {
	sanitize(&c)
	cfg := cfgs[c.Cfg]
	ctx, cancel := context.WithTimeout(context.Background(), 60*time.Second)
	defer cancel()
	scratch := deploy.ScratchDir()
	defer os.RemoveAll(scratch)
	dest, tmp := filepath.Join(scratch, "dest"), filepath.Join(scratch, "tmp")
	_ = os.MkdirAll(dest, 0o755)
	_ = os.MkdirAll(tmp, 0o755)
	mkTemp := func() (*os.File, error) { return os.CreateTemp(tmp, "t_*") }
	data := content(c.Seed, c.Size)
	name := fileName(c)
	sum := sha512.Sum384(data)

	// the ordinal of the data message the fault hits
	expectMsgs := 1
	switch c.Mod {
	case "download":
		eff := 1014
		if c.Chunk > 0 {
			eff = c.Chunk
		} else if c.Chunk < 0 {
			eff = 65535
		}
		eff = max(1, min(eff, c.DevMTU-40))
		expectMsgs = (c.Size + eff - 1) / eff
	case "upload":
		expectMsgs = (c.Size + 1013) / 1014
	}
	fa := c.FaultArg
	if fa < 0 {
		fa = -fa
	}
	f := &faulter{kind: c.Fault, arg: c.FaultArg, target: (fa / 3) % max(1, expectMsgs)}

	svc := deploy.NewMemService("aio", deploy.KeyOwner1)
	svc.AutoExtendTo = deploy.OwnerPublic(cfg, deploy.KeyOwner1)
	svc.OwnerMTU = uint16(c.OwnMTU)
	dev := deploy.NewDevice(cfg, deploy.KeyDevice)
	dev.MTU = uint16(c.DevMTU)
	wantName := name
	var served bool
	switch c.Mod {
	case "download":
		dev.Modules = map[string]serviceinfo.DeviceModule{"fdo.download": &devProxy{f: f, inner: &fsim.Download{CreateTemp: mkTemp, NameToPath: func(n string) string { return filepath.Join(dest, n) }}}}
		svc.Modules.Factory = func(context.Context) []deploy.NamedModule {
			return []deploy.NamedModule{{Name: "fdo.download", Mod: &fsim.DownloadContents[*bytes.Reader]{Name: name, Contents: bytes.NewReader(data), MustDownload: true, ChunkSize: c.Chunk}}}
		}
	case "upload":
		dev.Modules = map[string]serviceinfo.DeviceModule{"fdo.upload": &fsim.Upload{FS: fstest.MapFS{name: &fstest.MapFile{Data: data}}}}
		req := &fsim.UploadRequest{Dir: dest, Name: name, CreateTemp: mkTemp}
		if c.Rename {
			req.Rename = "renamed-" + name
			wantName = req.Rename
		}
		svc.Modules.Factory = func(context.Context) []deploy.NamedModule {
			return []deploy.NamedModule{{Name: "fdo.upload", Mod: &ownProxy{f: f, inner: req}}}
		}
	case "wget":
		rt := rtFunc(func(r *http.Request) (*http.Response, error) {
			served = true
			body := append([]byte{}, data...)
			resp := &http.Response{StatusCode: 200, Status: "200 OK", Header: http.Header{}, Request: r, ProtoMajor: 1, ProtoMinor: 1}
			var rd io.ReadCloser = io.NopCloser(bytes.NewReader(body))
			switch c.Fault {
			case "flipdata":
				body[(fa/8)%len(body)] ^= 1 << (fa % 8)
				rd = io.NopCloser(bytes.NewReader(body))
				f.applied = true
			case "truncdata":
				rd = io.NopCloser(bytes.NewReader(body[:len(body)-1-(fa%len(body))%min(len(body), 3)]))
				f.applied = true
			case "empty":
				rd = io.NopCloser(bytes.NewReader(nil))
				f.applied = true
			case "extend":
				rd = io.NopCloser(bytes.NewReader(append(body, byte(fa))))
				f.applied = true
			case "readerr":
				rd = &errReader{b: body[:fa%(len(body)+1)], err: errors.New("connection reset")}
				f.applied = true
			case "status":
				resp.StatusCode, resp.Status = []int{500, 404, 206, 301}[fa%4], "other"
				f.applied = true
			}
			resp.Body = rd
			// servers with and without a Content-Length header (chunked / close-delimited bodies)
			resp.ContentLength = -1
			if c.Seed%2 == 0 && c.Fault == "none" {
				resp.ContentLength = int64(len(body))
			}
			return resp, nil
		})
		dev.Modules = map[string]serviceinfo.DeviceModule{"fdo.wget": &devProxy{f: f, inner: &fsim.Wget{CreateTemp: mkTemp, NameToPath: func(n string) string { return filepath.Join(dest, n) }, Client: &http.Client{Transport: rt}, Timeout: 20 * time.Second}}}
		u, _ := url.Parse("http://files.test/path/" + name)
		svc.Modules.Factory = func(context.Context) []deploy.NamedModule {
			return []deploy.NamedModule{{Name: "fdo.wget", Mod: &fsim.WgetCommand{Name: name, URL: u, Length: int64(len(data)), Checksum: sum[:]}}}
		}
	default:
		return ev.Trivial("unknown-module")
	}
	if err := dev.DI(ctx, deploy.NewLink(svc)); err != nil {
		return ev.Failf("setup", "DI: %v", err)
	}
	link := deploy.NewLink(svc)
	link.MaxContent, svc.Handler.MaxContentLength = 1<<18, 1<<18
	n68, capped := 0, false
	roundCap := expectMsgs*max(1, 1100/max(1, c.OwnMTU-40)+1) + 60
	started := time.Now()
	link.OnRequest = func(ex *deploy.Exchange) *deploy.Action {
		if ex.ReqType == 68 {
			n68++
			// Rounds are polls, not time: while no fault has been applied (a clean transfer, or a
			// wget whose HTTP goroutine has not been scheduled yet on a loaded machine) the cap only
			// counts once 12 s have passed as well; after a fault the receiver may wait for ever
			// and the round count alone ends the run.
			f.mu.Lock()
			applied := f.applied
			f.mu.Unlock()
			if n68 > roundCap && (applied || time.Since(started) > 12*time.Second) {
				capped = true
				cancel()
			}
		}
		return nil
	}
	var runErr error
	if !ev.WithTimeout(50*time.Second, func() { _, runErr = dev.TO2(ctx, link, nil) }) {
		cancel()
		return ev.Failf("hang:to2", "TO2 with %s did not return within 50 s", c.Mod)
	}
	_ = served

	// what is at the destination?
	entries, _ := os.ReadDir(dest)
	var files []string
	for _, e := range entries {
		files = append(files, e.Name())
	}
	faulty := f.applied
	tag := fmt.Sprintf("%s size=%d chunk=%d devMTU=%d ownMTU=%d fault=%s(applied=%v,target=%d/%d)", c.Mod, c.Size, c.Chunk, c.DevMTU, c.OwnMTU, c.Fault, f.applied, f.target, expectMsgs)
	multi := expectMsgs > 1
	cls := fmt.Sprintf("%s/%s/multi=%v", c.Mod, map[bool]string{true: c.Fault, false: "none"}[faulty], multi)
	res := ev.OK(cls)
	res.NonTrivial = multi || faulty

	if faulty {
		// identical file or nothing: a fault that still lets the complete, correct file
		// through first (e.g. the last data message delivered twice) may leave that file
		identical := false
		if len(files) == 1 && files[0] == wantName {
			b, _ := os.ReadFile(filepath.Join(dest, files[0]))
			identical = bytes.Equal(b, data)
		}
		// an announced length or digest that does not match what is received must always be reported
		// as a failure with nothing left at the destination, even when the bytes themselves are right
		if meta := c.Fault == "length+" || c.Fault == "length-" || c.Fault == "digest"; meta && (len(files) != 0 || runErr == nil) {
			return ev.Failf("mismatch-accepted:"+c.Fault, "%s: the announced %s did not match the transfer, yet files=%v and TO2 error=%v", tag, map[bool]string{true: "digest", false: "length"}[c.Fault == "digest"], files, runErr)
		}
		if len(files) != 0 && !identical {
			b, _ := os.ReadFile(filepath.Join(dest, files[0]))
			return ev.Failf("file-despite-"+c.Fault, "%s: the transfer was corrupted in transit, yet %v exists at the destination (%d bytes, source %d bytes, TO2 error: %v)", tag, files, len(b), len(data), runErr)
		}
		if runErr == nil && !identical {
			return ev.Failf("success-despite-"+c.Fault, "%s: the transfer was corrupted in transit and no file arrived, but TO2 reported success", tag)
		}
		if identical {
			res.Class += "/identical-file-delivered"
		}
		if capped {
			res.Class += "/waits-until-cancelled"
		}
		return res
	}
	// no fault: atomicity always, success where the MTU leaves room for the announcement
	if len(files) > 1 {
		return ev.Failf("extra-files", "%s: destination holds %v", tag, files)
	}
	if len(files) == 1 {
		b, _ := os.ReadFile(filepath.Join(dest, files[0]))
		if files[0] != wantName {
			return ev.Failf("wrong-name", "%s: file stored as %q, announced %q", tag, files[0], wantName)
		}
		if !bytes.Equal(b, data) {
			k := 0
			for k < len(b) && k < len(data) && b[k] == data[k] {
				k++
			}
			return ev.Failf("corrupt-file", "%s: destination file has %d bytes, source %d, first difference at %d", tag, len(b), len(data), k)
		}
	}
	// the owner's first message (active + announcement) has to fit the device's MTU
	need := map[string]int{"download": 256, "upload": 128, "wget": 256}[c.Mod] + 2*len(name)
	mustSucceed := c.DevMTU >= need
	if runErr != nil || len(files) == 0 {
		if !mustSucceed {
			res.Class = c.Mod + "/refused-at-small-mtu"
			res.NonTrivial = false
			return res
		}
		if capped {
			return ev.Failf("no-termination:"+c.Mod, "%s: the transfer did not finish within %d DeviceServiceInfo messages (expected about %d)", tag, roundCap, expectMsgs)
		}
		if runErr != nil {
			return ev.Failf("failed:"+c.Mod+":"+normErr(runErr), "%s: transfer without faults failed: %v", tag, runErr)
		}
		return ev.Failf("missing-file", "%s: TO2 succeeded but no file at the destination", tag)
	}
	return res
}

// ---- several transfers in one TO2 session ------------------------------------------------

type seqItem struct {
	Size     int    `json:"size"`
	Seed     int    `json:"seed"`
	Chunk    int    `json:"chunk"`
	Fault    string `json:"fault"`
	FaultArg int    `json:"faultarg"`
}

type seqCase struct {
	Cfg    int       `json:"cfg"`
	DevMTU int       `json:"devmtu"`
	Items  []seqItem `json:"items"`
}

// faults after which the receiver answers at once (the others make it wait for more data)
var seqFaults = []string{"none", "none", "flipdata", "digest", "garbledata", "dup", "length-"}

// seqProxy hands every transfer of the session (they all go to the one device module
// instance, as in a real device) to its own faulter; a new transfer starts with "name".
type seqProxy struct {
	inner serviceinfo.DeviceModule
	fs    []*faulter
	mu    sync.Mutex
	cur   int
}

func (p *seqProxy) Transition(a bool) error { return p.inner.Transition(a) }
func (p *seqProxy) Receive(ctx context.Context, name string, body io.Reader, respond func(string) io.Writer, yield func()) error {
	b, err := io.ReadAll(body)
	if err != nil {
		return err
	}
	p.mu.Lock()
	if name == "name" {
		p.cur++
	}
	f := p.fs[min(max(p.cur, 0), len(p.fs)-1)]
	p.mu.Unlock()
	for _, x := range f.alter(name, b) {
		if err := p.inner.Receive(ctx, name, bytes.NewReader(x), respond, yield); err != nil {
			return err
		}
	}
	return nil
}
func (p *seqProxy) Yield(ctx context.Context, respond func(string) io.Writer, yield func()) error {
	return p.inner.Yield(ctx, respond, yield)
}

func genSeq(t *rapid.T) seqCase {
	c := seqCase{Cfg: rapid.SampledFrom([]int{0, 0, 1}).Draw(t, "cfg"), DevMTU: rapid.SampledFrom([]int{512, 1300, 1300, 4096}).Draw(t, "devmtu")}
	n := rapid.IntRange(2, 3).Draw(t, "n")
	for i := 0; i < n; i++ {
		it := seqItem{Seed: rapid.IntRange(0, 1<<20).Draw(t, "seed"), Chunk: rapid.SampledFrom([]int{0, 0, 100, 1014, 300}).Draw(t, "chunk"), FaultArg: rapid.IntRange(0, 1<<12).Draw(t, "faultarg")}
		unit := 1014
		if it.Chunk > 0 {
			unit = it.Chunk
		}
		unit = min(unit, c.DevMTU-40)
		it.Size = max(1, rapid.IntRange(1, 4).Draw(t, "k")*unit+rapid.IntRange(-unit+1, 5).Draw(t, "d"))
		it.Fault = rapid.SampledFrom(seqFaults).Draw(t, "fault")
		c.Items = append(c.Items, it)
	}
	return c
}

// evalSeq: every clean transfer of the session arrives identical whatever happened to the
// transfers before it; a corrupted one leaves its identical file or nothing.
func evalSeq(c seqCase) ev.Result {
	if len(c.Items) == 0 {
		return ev.Result{Skip: true}
	}
	cfg := cfgs[((c.Cfg%len(cfgs))+len(cfgs))%len(cfgs)]
	c.DevMTU = min(max(c.DevMTU, 400), 65535)
	ctx, cancel := context.WithTimeout(context.Background(), 60*time.Second)
	defer cancel()
	scratch := deploy.ScratchDir()
	defer os.RemoveAll(scratch)
	dest, tmp := filepath.Join(scratch, "dest"), filepath.Join(scratch, "tmp")
	_ = os.MkdirAll(dest, 0o755)
	_ = os.MkdirAll(tmp, 0o755)
	mkTemp := func() (*os.File, error) { return os.CreateTemp(tmp, "t_*") }
	var fs []*faulter
	var datas [][]byte
	var mods []deploy.NamedModule
	total := 0
	for i := range c.Items {
		it := &c.Items[i]
		it.Size = min(max(it.Size, 1), 8000)
		if it.Chunk < 0 {
			it.Chunk = 0
		}
		eff := 1014
		if it.Chunk > 0 {
			eff = it.Chunk
		}
		eff = max(1, min(eff, c.DevMTU-40))
		if it.Size > 60*eff {
			it.Size = 60 * eff
		}
		msgs := (it.Size + eff - 1) / eff
		total += msgs
		fa := it.FaultArg
		if fa < 0 {
			fa = -fa
		}
		fs = append(fs, &faulter{kind: it.Fault, arg: it.FaultArg, target: (fa / 3) % max(1, msgs)})
		d := content(it.Seed+i, it.Size)
		datas = append(datas, d)
		mods = append(mods, deploy.NamedModule{Name: "fdo.download", Mod: &fsim.DownloadContents[*bytes.Reader]{Name: fmt.Sprintf("s%d.bin", i), Contents: bytes.NewReader(d), MustDownload: false, ChunkSize: it.Chunk}})
	}
	svc := deploy.NewMemService("aio", deploy.KeyOwner1)
	svc.AutoExtendTo = deploy.OwnerPublic(cfg, deploy.KeyOwner1)
	dev := deploy.NewDevice(cfg, deploy.KeyDevice)
	dev.MTU = uint16(c.DevMTU)
	px := &seqProxy{fs: fs, cur: -1, inner: &fsim.Download{CreateTemp: mkTemp, NameToPath: func(n string) string { return filepath.Join(dest, n) }}}
	dev.Modules = map[string]serviceinfo.DeviceModule{"fdo.download": px}
	svc.Modules.Factory = func(context.Context) []deploy.NamedModule { return mods }
	if err := dev.DI(ctx, deploy.NewLink(svc)); err != nil {
		return ev.Failf("setup", "DI: %v", err)
	}
	link := deploy.NewLink(svc)
	n68, capped := 0, false
	roundCap := total*3 + 80
	started := time.Now()
	link.OnRequest = func(ex *deploy.Exchange) *deploy.Action {
		if ex.ReqType == 68 {
			n68++
			applied := false
			for _, f := range fs {
				f.mu.Lock()
				applied = applied || f.applied
				f.mu.Unlock()
			}
			if n68 > roundCap && (applied || time.Since(started) > 12*time.Second) {
				capped = true
				cancel()
			}
		}
		return nil
	}
	var runErr error
	if !ev.WithTimeout(50*time.Second, func() { _, runErr = dev.TO2(ctx, link, nil) }) {
		cancel()
		return ev.Failf("hang:to2", "TO2 with %d downloads did not return within 50 s", len(c.Items))
	}
	tag := fmt.Sprintf("devMTU=%d transfers=%+v", c.DevMTU, c.Items)
	if os.Getenv("VERIF_DEBUG") != "" {
		fmt.Fprintf(os.Stderr, "DEBUG %s: runErr=%v capped=%v n68=%d\n", tag, runErr, capped, n68)
	}
	anyFault, faultBeforeClean := false, false
	for i := range c.Items {
		if fs[i].applied {
			anyFault = true
		}
	}
	// A session in which something was corrupted in transit may be aborted by either side
	// (what must hold then is atomicity); a session that completes must have delivered
	// every clean transfer.
	aborted := runErr != nil && anyFault
	seenFault := false
	for i, it := range c.Items {
		b, err := os.ReadFile(filepath.Join(dest, fmt.Sprintf("s%d.bin", i)))
		exists := err == nil
		if fs[i].applied {
			seenFault = true
			if exists && !bytes.Equal(b, datas[i]) {
				return ev.Failf("seq-file-despite-"+it.Fault, "%s: transfer %d was corrupted in transit (%s), yet a differing file of %d bytes exists (source %d)", tag, i, it.Fault, len(b), len(datas[i]))
			}
			continue
		}
		if seenFault {
			faultBeforeClean = true
		}
		if exists && !bytes.Equal(b, datas[i]) {
			return ev.Failf("seq-corrupt-file", "%s: clean transfer %d arrived with %d bytes differing from its source (%d bytes); earlier corrupted transfer: %v", tag, i, len(b), len(datas[i]), seenFault)
		}
		if !exists && !aborted {
			if capped {
				return ev.Failf("seq-no-termination", "%s: the session did not finish within %d DeviceServiceInfo messages (clean transfer %d missing; TO2: %v)", tag, roundCap, i, runErr)
			}
			return ev.Failf("seq-missing-file", "%s: clean transfer %d did not arrive although the session completed (earlier corrupted transfer: %v; TO2: %v)", tag, i, seenFault, runErr)
		}
	}
	entries, _ := os.ReadDir(dest)
	if len(entries) > len(c.Items) {
		return ev.Failf("seq-extra-files", "%s: destination holds %d files for %d transfers", tag, len(entries), len(c.Items))
	}
	if runErr != nil && !anyFault {
		return ev.Failf("seq-failed:"+normErr(runErr), "%s: a session without faults failed: %v", tag, runErr)
	}
	res := ev.OK(fmt.Sprintf("seq/n=%d/fault-before-clean=%v/aborted=%v", len(c.Items), faultBeforeClean, aborted))
	res.NonTrivial = true
	return res
}

func genCase(t *rapid.T) fcase {
	c := fcase{Mod: rapid.SampledFrom([]string{"download", "download", "upload", "upload", "wget"}).Draw(t, "mod"), Seed: rapid.IntRange(0, 1<<20).Draw(t, "seed"),
		NameLen: rapid.SampledFrom([]int{1, 8, 8, 30, 60}).Draw(t, "namelen"), Cfg: rapid.SampledFrom([]int{0, 0, 0, 1}).Draw(t, "cfg"), FaultArg: rapid.IntRange(0, 1<<16).Draw(t, "faultarg"), Rename: rapid.Bool().Draw(t, "rename")}
	mtu := func(label string, lo int) int {
		if rapid.IntRange(0, 2).Draw(t, label+"-kind") == 0 {
			return rapid.IntRange(256, 65535).Draw(t, label)
		}
		return rapid.SampledFrom([]int{lo, 200, 256, 300, 320, 384, 512, 1024, 1300, 1300, 1301, 2048, 4096, 65535}).Draw(t, label)
	}
	c.DevMTU, c.OwnMTU = mtu("devmtu", 64), mtu("ownmtu", 256)
	c.Chunk = rapid.SampledFrom([]int{0, 0, -1, 1, 2, 7, 100, 255, 256, 1000, 1013, 1014, 1015, 1024, 1300, 4096, 65535}).Draw(t, "chunk")
	if rapid.IntRange(0, 3).Draw(t, "chunk-random") == 0 {
		c.Chunk = rapid.IntRange(1, 65535).Draw(t, "chunk-val")
	}
	unit := 1014
	if c.Mod == "download" {
		if c.Chunk > 0 {
			unit = c.Chunk
		} else if c.Chunk < 0 {
			unit = 65535
		}
		unit = min(unit, max(1, c.DevMTU-30))
	}
	switch rapid.IntRange(0, 4).Draw(t, "size-kind") {
	case 0:
		c.Size = rapid.IntRange(1, 40).Draw(t, "size")
	case 1, 2:
		c.Size = rapid.IntRange(1, 4).Draw(t, "size-k")*unit + rapid.IntRange(-12, 12).Draw(t, "size-d")
	case 3:
		c.Size = rapid.IntRange(1, 5*unit+10).Draw(t, "size")
	default:
		c.Size = rapid.IntRange(1, 200000).Draw(t, "size")
	}
	faults := downFaults
	if c.Mod == "wget" {
		faults = wgetFaults
	}
	if rapid.IntRange(0, 9).Draw(t, "faulty") < 6 {
		c.Fault = rapid.SampledFrom(faults[1:]).Draw(t, "fault")
	} else {
		c.Fault = "none"
	}
	sanitize(&c)
	return c
}

func TestC17(t *testing.T) {
	r := ev.Start(t, "C17")
	defer r.Finish()

	r.SetRule("boundaries", "exhaustive grid without faults: module ∈ {download, upload} × sizes {1, u-1, u, u+1, 2u-1, 2u, 2u+1, 3u} for the effective chunk u × download chunk sizes {0, -1, 1, 100, 1014, 1015, 65535} × MTUs {320, 512, 1300, 1301, 4096, 65535}: TO2 succeeds and the destination holds exactly the source bytes under the announced name; every fault kind per module at three sizes; and device MTUs 64..330 in steps of 3 with corrupted data / digest (the announcement barely fits there)")
	ev.Enum(r, "boundaries", true, func(yield func(fcase) bool) {
		i := 0
		emit := func(c fcase) bool {
			i++
			if !r.Mine(i) {
				return true
			}
			return yield(c)
		}
		for _, mtu := range []int{320, 512, 1300, 1301, 4096, 65535} {
			for _, chunk := range []int{0, -1, 1, 100, 1014, 1015, 65535} {
				u := 1014
				if chunk > 0 {
					u = chunk
				} else if chunk < 0 {
					u = 65535
				}
				u = min(u, mtu-30)
				for _, sz := range []int{1, u - 1, u, u + 1, 2*u - 1, 2 * u, 2*u + 1, 3 * u} {
					if sz < 1 || (chunk == 1 && sz > 3) {
						continue
					}
					if !emit(fcase{Mod: "download", Size: sz, Seed: sz, Chunk: chunk, DevMTU: mtu, OwnMTU: 1300, NameLen: 8, Fault: "none"}) {
						return
					}
				}
			}
			for _, sz := range []int{1, 1013, 1014, 1015, 2027, 2028, 2029, 3042} {
				if !emit(fcase{Mod: "upload", Size: sz, Seed: sz, DevMTU: 1300, OwnMTU: mtu, NameLen: 8, Fault: "none"}) {
					return
				}
			}
		}
		// small device MTUs, where the announcement barely fits: corruption must still be caught
		for mtu := 64; mtu <= 330; mtu += 3 {
			for _, flt := range []string{"flipdata", "digest", "none"} {
				if !emit(fcase{Mod: "download", Size: 1 + mtu%90, Seed: mtu, Chunk: 0, DevMTU: mtu, OwnMTU: 1300, NameLen: 1 + mtu%11, Fault: flt, FaultArg: mtu}) {
					return
				}
			}
			if !emit(fcase{Mod: "wget", Size: 1 + mtu%90, Seed: mtu, DevMTU: mtu, OwnMTU: 1300, NameLen: 1 + mtu%11, Fault: "flipdata", FaultArg: mtu}) {
				return
			}
		}
		for _, mod := range []string{"download", "upload", "wget"} {
			fl := downFaults
			if mod == "wget" {
				fl = wgetFaults
			}
			for _, flt := range fl {
				for _, sz := range []int{1, 1014, 3000} {
					for a := 0; a < 4; a++ {
						if !emit(fcase{Mod: mod, Size: sz, Seed: sz + a, DevMTU: 1300, OwnMTU: 1300, NameLen: 8, Fault: flt, FaultArg: a * 7}) {
							return
						}
					}
				}
			}
		}
	}, eval)

	r.SetRule("transfers", "generated transfers through a complete TO2 (real device role and owner responders, real fsim modules on both sides, HTTP transport, in-memory state): module ∈ {download, upload, wget (in-process HTTP round tripper)} × file size 1..200000 (dense around multiples of the effective chunk ±12) × random content × download chunk size {0, -1, 1..65535} × device MTU 64..65535 × owner MTU 256..65535 × name length × fault ∈ {none, flip a data bit, shorten a chunk, alter the digest, announced length up/down, drop / duplicate / reorder a data message; wget: served bytes flipped / shorter / longer / empty, read error, HTTP status, digest} injected inside the tunnel by a proxy around the real module. Oracle: fault applied ⇒ TO2 does not succeed and the destination directory stays empty (an announced length or digest that does not match: always; a data fault that lets the complete identical file through first may leave that file); no fault ⇒ at most one file, it has the announced name and exactly the source bytes, and where the device MTU leaves room for the owner's announcement (download/wget ≥ 256+2·namelen, upload ≥ 128+2·namelen) the transfer succeeds. Non-trivial: multi-message files or an applied fault.")
	ev.Rapid(r, "transfers", ev.N{Quick: 2500, Thorough: 120000}, genCase, eval)
	ev.CheckWitness(r, "transfers", eval)

	r.SetRule("sequences", "2..3 downloads (optional: MustDownload=false) in ONE TO2 session, all handled by the one fdo.download device module instance; each transfer has its own size (around multiples of the chunk), chunk size and fault ∈ {none, flip a data bit, alter the digest, data message with broken CBOR framing, data message delivered twice, announced length too small} injected in the tunnel. Oracle: every transfer without a fault arrives bit-identical under its own name whatever happened to earlier transfers; a corrupted transfer leaves its identical file or nothing; no extra files; a session in which nothing was corrupted succeeds, one in which something was corrupted may be aborted by either side (then only atomicity is required) but if it completes every clean transfer must be there. Non-trivial: all; class says whether a clean transfer followed a corrupted one.")
	ev.Rapid(r, "sequences", ev.N{Quick: 700, Thorough: 30000}, genSeq, evalSeq)
}
