//go:build verif

// C07 — TO1 releases the registered redirect, unmodified, only to the proven device.
package c07

import (
	"bytes"
	"context"
	"crypto"
	"fmt"
	"net"
	"os"
	"path/filepath"
	"strings"
	"testing"
	"time"

	fdo "github.com/fido-device-onboard/go-fdo"
	"github.com/fido-device-onboard/go-fdo/cbor"
	"github.com/fido-device-onboard/go-fdo/cose"
	"github.com/fido-device-onboard/go-fdo/protocol"
	"pgregory.net/rapid"

	"verif/harness/deploy"
	"verif/harness/ev"
	"verif/harness/keys"
	"verif/harness/peer"
	"verif/harness/refcbor"
	"verif/harness/refverify"
	"verif/harness/wire"
)

type addr struct {
	IP    string `json:"ip,omitempty"` // "", "v4", "v6"
	DNS   bool   `json:"dns"`
	Port  uint16 `json:"port"`
	Proto uint8  `json:"proto"`
}

type rvAttack struct {
	Kind   string           `json:"kind"` // none mutate30 mutate32 signer replay-session other-guid hello-guid-mismatch claims no-hello unregistered
	Mut    refcbor.Mutation `json:"mut,omitempty"`
	Signer string           `json:"signer,omitempty"`
	Claim  string           `json:"claim,omitempty"`
}

type transit struct {
	Kind string           `json:"kind"` // none mutate resign envelope
	Mut  refcbor.Mutation `json:"mut,omitempty"`
	Op   string           `json:"op,omitempty"`
}

type caseDesc struct {
	Cfg     deploy.Config `json:"config"`
	Addrs   []addr        `json:"addrs"`
	Clock   int           `json:"clock"` // expiry relative to now in seconds
	// Between: what happens to the registration between HelloRV and ProveToRV of the session under
	// test: "" nothing, "expire" it runs out, "reregister" the owner registers a different blob
	Between string `json:"between,omitempty"`
	NoChain bool   `json:"nochain,omitempty"` // the registered voucher carries no device certificate chain (OVDevCertChain = null)
	Attack  rvAttack      `json:"attack"`
	Transit transit       `json:"transit"`
}

func (d caseDesc) rvAddrs() []protocol.RvTO2Addr {
	out := []protocol.RvTO2Addr{}
	for i, a := range d.Addrs {
		x := protocol.RvTO2Addr{Port: a.Port, TransportProtocol: protocol.TransportProtocol(a.Proto)}
		switch a.IP {
		case "v4":
			ip := net.IPv4(10, 0, byte(i), 7).To4()
			x.IPAddress = &ip
		case "v6":
			ip := net.ParseIP(fmt.Sprintf("fd00::%d", i+1))
			x.IPAddress = &ip
		}
		if a.DNS || a.IP == "" {
			s := fmt.Sprintf("owner-%d.test", i)
			x.DNSAddress = &s
		}
		out = append(out, x)
	}
	return out
}

type world struct {
	cfg       deploy.Config
	owner, rv *deploy.Service
	dev, dev2 *deploy.Device
}

func newWorld(ctx context.Context, d caseDesc) (*world, error) {
	w := &world{cfg: d.Cfg}
	mfg := deploy.NewMemService("mfg", deploy.KeyMfg)
	w.owner, w.rv = deploy.NewMemService("owner", deploy.KeyOwner1), deploy.NewMemService("rv", deploy.KeyStranger)
	for i, idx := range []int{deploy.KeyDevice, deploy.KeyDevice2} {
		dv := deploy.NewDevice(d.Cfg, idx)
		if err := dv.DI(ctx, deploy.NewLink(mfg)); err != nil {
			return nil, fmt.Errorf("DI: %w", err)
		}
		if _, err := deploy.TransferVoucher(ctx, d.Cfg, mfg, deploy.KeyMfg, w.owner, deploy.KeyOwner1, dv.Cred.GUID); err != nil {
			return nil, err
		}
		if d.NoChain && i == 0 {
			// the chain is not covered by the entry hashes, and the rendezvous server has no means to check
			// the header: a voucher without device certificate names no key any requester could prove
			ov, err := w.owner.State.RemoveVoucher(ctx, dv.Cred.GUID)
			if err != nil {
				return nil, err
			}
			ov.CertChain = nil
			if err := w.owner.State.AddVoucher(ctx, ov); err != nil {
				return nil, err
			}
		}
		if _, err := deploy.RegisterTO0(ctx, w.owner, deploy.NewLink(w.rv), dv.Cred.GUID, d.rvAddrs(), 3600); err != nil {
			return nil, fmt.Errorf("TO0: %w", err)
		}
		if i == 0 {
			w.dev = dv
		} else {
			w.dev2 = dv
		}
	}
	return w, nil
}

func helloBody(cfg deploy.Config, key crypto.Signer, guid []byte) []byte {
	return refcbor.Encode(refcbor.A(refcbor.B(guid), refcbor.A(refcbor.I(wire.AlgFor(key.Public(), cfg.PSS())), refcbor.B(nil))))
}

type tok struct {
	signer              crypto.Signer
	pss                 bool
	nonce, ueid         *refcbor.Node
	omitNonce, omitUEID bool
}

func proveBody(t tok) []byte {
	eat := refcbor.M()
	if !t.omitNonce {
		eat.Items = append(eat.Items, refcbor.I(10), t.nonce)
	}
	if !t.omitUEID {
		eat.Items = append(eat.Items, refcbor.I(256), t.ueid)
	}
	s1, err := wire.Sign1(t.signer, wire.AlgFor(t.signer.Public(), t.pss), nil, nil, refcbor.Encode(eat), true)
	if err != nil {
		panic(err)
	}
	return refcbor.Encode(s1)
}

// refToken decides whether body is a valid ProveToRV token for the session.
func refToken(body []byte, sessionNonce []byte, registered map[string]crypto.PublicKey) (bool, string, []byte) {
	s1, err := refverify.ParseSign1(body)
	if err != nil || !s1.Tagged || s1.PayloadNil {
		return false, "token is not a tagged COSE_Sign1 with payload", nil
	}
	eat, err := refcbor.ParseAll(s1.Payload)
	if err != nil || eat.Kind != refcbor.Map {
		return false, "EAT is not a map", nil
	}
	n := refverify.MapGet(eat, 10)
	if n == nil || n.Kind != refcbor.Bytes || !bytes.Equal(n.Bytes, sessionNonce) {
		return false, "nonce claim is not the nonce issued in this session", nil
	}
	u := refverify.MapGet(eat, 256)
	if u == nil || u.Kind != refcbor.Bytes || len(u.Bytes) != 17 || u.Bytes[0] != 1 {
		return false, "UEID claim malformed", nil
	}
	guid := u.Bytes[1:]
	pub, ok := registered[string(guid)]
	if !ok {
		return false, "no registration for the GUID named by the UEID", guid
	}
	if ok, why := refverify.VerifySign1(s1, pub, nil, nil); !ok {
		return false, "token is not signed by the device key of the voucher registered for that GUID: " + why, guid
	}
	return true, "", guid
}

func evalCase(d caseDesc) ev.Result {
	ctx, cancel := context.WithTimeout(context.Background(), 30*time.Second)
	defer cancel()
	w, err := newWorld(ctx, d)
	if err != nil {
		return ev.Failf("setup", "%v", err)
	}
	tag := fmt.Sprintf("%s/%s addrs=%d clock=%+d nochain=%v between=%q attack=%+v transit=%+v", d.Cfg.Key, d.Cfg.Enc, len(d.Addrs), d.Clock, d.NoChain, d.Between, d.Attack, d.Transit)
	guid := w.dev.Cred.GUID
	w.rv.Mem.SetRVBlobExpiry(guid, time.Now().Add(time.Duration(d.Clock)*time.Second))
	expired := d.Clock < 0
	regTo1d, _, _, _ := w.rv.Mem.RVBlobBytes(guid)
	registered := map[string]crypto.PublicKey{string(guid[:]): w.dev.Key.Public(), string(w.dev2.Cred.GUID[:]): w.dev2.Key.Public()}
	if d.NoChain {
		delete(registered, string(guid[:])) // no device certificate: no requester can be "the proven device"
	}
	h := w.rv.Handler
	a := d.Attack

	if a.Kind == "none" && d.Transit.Kind != "skip" {
		// the real device function, with an optional alteration of RVRedirect in transit
		link := deploy.NewLink(w.rv)
		var delivered, original []byte
		link.OnResponse = func(ex *deploy.Exchange) *deploy.Action {
			if ex.RespType != 33 {
				return nil
			}
			original = ex.RespBody
			tree, err := refcbor.ParseAll(ex.RespBody)
			if err != nil {
				return nil
			}
			switch d.Transit.Kind {
			case "mutate":
				refcbor.ExpandBstr(tree)
				mt, _, ok := refcbor.Apply(tree, d.Transit.Mut)
				if !ok {
					return nil
				}
				delivered = refcbor.EncodeKeepOrder(mt)
			case "resign":
				s1, _ := refverify.Sign1FromNode(tree)
				who := map[string]int{"stranger": deploy.KeyStranger, "mfg": deploy.KeyMfg, "device": -1}[d.Transit.Op]
				sk := keys.Get(d.Cfg.Kind(), max(who, 0))
				if who < 0 {
					sk = w.dev.Key
				}
				payload := s1.Payload
				if p, err := refcbor.ParseAll(payload); err == nil && len(p.Items) == 2 {
					// redirect to the attacker while re-signing
					p.Items[0] = refcbor.A(refcbor.A(refcbor.Null(), refcbor.T("attacker.example.net"), refcbor.U(443), refcbor.U(5)))
					payload = refcbor.EncodeKeepOrder(p)
				}
				n, _ := wire.Sign1(sk, wire.AlgFor(sk.Public(), d.Cfg.PSS()), nil, nil, payload, true)
				delivered = refcbor.EncodeKeepOrder(n)
			case "envelope":
				arr := tree.Items[0]
				// also redirect to the attacker: only the envelope damage keeps Verify from returning false
				if p, err := refcbor.ParseAll(arr.Items[2].Bytes); err == nil && len(p.Items) == 2 {
					p.Items[0] = refcbor.A(refcbor.A(refcbor.Null(), refcbor.T("attacker.example.net"), refcbor.U(443), refcbor.U(5)))
					arr.Items[2].Bytes = refcbor.EncodeKeepOrder(p)
				}
				sig := arr.Items[3].Bytes
				switch d.Transit.Op {
				case "sig-1byte":
					arr.Items[3].Bytes = sig[:1]
				case "sig-odd":
					arr.Items[3].Bytes = sig[:len(sig)-1]
				case "sig-short":
					arr.Items[3].Bytes = sig[:len(sig)-2]
				case "sig-empty":
					arr.Items[3].Bytes = nil
				case "alg-removed":
					arr.Items[0] = refcbor.B(nil)
				case "alg-unregistered":
					arr.Items[0] = refcbor.Wrap(refcbor.M(refcbor.I(1), refcbor.I(-8)))
				case "alg-other-family":
					other := int64(refverify.RS256)
					if d.Cfg.IsRSA() {
						other = refverify.ES256
					}
					arr.Items[0] = refcbor.Wrap(refcbor.M(refcbor.I(1), refcbor.I(other)))
				case "payload-null":
					arr.Items[2] = refcbor.Null()
				}
				delivered = refcbor.EncodeKeepOrder(tree)
			}
			if delivered == nil || bytes.Equal(delivered, original) {
				delivered = nil
				return nil
			}
			return &deploy.Action{Body: delivered}
		}
		to1d, terr := fdo.TO1(ctx, link.Transport(), *w.dev.Cred, w.dev.Key, &fdo.TO1Options{PSS: d.Cfg.PSS()})
		if expired {
			if terr == nil {
				return ev.Failf("expired-blob-released", "%s: TO1 returned a blob although the registration expired %d s ago", tag, -d.Clock)
			}
			r := ev.OK("expired")
			r.ID = tag
			return r
		}
		if terr != nil {
			if delivered != nil {
				r := ev.OK("transit-rejected-at-to1/" + d.Transit.Kind)
				r.ID = tag
				return r
			}
			return ev.Failf("honest-to1-failed", "%s: TO1 failed: %v", tag, terr)
		}
		got, _ := cbor.Marshal(to1d)
		if delivered == nil {
			// unmodified: what the device holds is what the owner registered
			if !bytes.Equal(got, regTo1d) {
				return ev.Failf("blob-differs", "%s: the blob obtained by the device differs from the registered one: %x vs %x", tag, got[:min(len(got), 40)], regTo1d[:min(len(regTo1d), 40)])
			}
			s1, err := refverify.ParseSign1(got)
			if err != nil {
				return ev.Failf("blob-shape", "%s: %v", tag, err)
			}
			if ok, why := refverify.VerifySign1(s1, keys.Get(d.Cfg.Kind(), deploy.KeyOwner1).Public(), nil, nil); !ok {
				return ev.Failf("blob-signature", "%s: the released blob's owner signature does not verify: %s", tag, why)
			}
			if len(to1d.Payload.Val.RV) != len(d.Addrs) {
				return ev.Failf("blob-content", "%s: blob carries %d addresses, registered %d", tag, len(to1d.Payload.Val.RV), len(d.Addrs))
			}
		}
		// feed it to TO2
		cred, err2 := w.dev.TO2(ctx, deploy.NewLink(w.owner), to1d)
		if delivered == nil {
			if err2 != nil || cred == nil {
				return ev.Failf("to2-with-genuine-blob-failed", "%s: TO2 with the released blob failed: %v", tag, err2)
			}
			r := ev.OK(fmt.Sprintf("released/addrs%d", len(d.Addrs)))
			r.ID = tag
			r.NonTrivial = len(d.Addrs) != 1
			return r
		}
		// altered in transit: is it still the owner's blob (reference, on what the device holds)?
		s1, perr := refverify.ParseSign1(got)
		stillValid := false
		if perr == nil {
			stillValid, _ = refverify.VerifySign1(s1, keys.Get(d.Cfg.Kind(), deploy.KeyOwner1).Public(), nil, nil)
		}
		if err2 == nil && !stillValid {
			return ev.Failf("to2-accepted-altered-blob:"+d.Transit.Kind, "%s: TO2 succeeded with a redirect blob that was altered in transit (%s %s)", tag, d.Transit.Kind, d.Transit.Op)
		}
		if stillValid {
			return ev.Trivial("transit-equivalent")
		}
		r := ev.OK("transit-rejected-at-to2/" + d.Transit.Kind + "/" + d.Transit.Op)
		r.ID = tag
		return r
	}

	// ---- manual requester against the rendezvous server --------------------------
	helloGUID := guid[:]
	if a.Kind == "hello-guid-mismatch" {
		helloGUID = w.dev2.Cred.GUID[:]
	}
	if a.Kind == "unregistered" {
		helloGUID = bytes.Repeat([]byte{0xee}, 16)
	}
	var token string
	var nonce []byte
	hello := func(g []byte) (peer.Resp, bool) {
		body := helloBody(d.Cfg, w.dev.Key, g)
		if a.Kind == "mutate30" {
			tree, _ := refcbor.ParseAll(body)
			mt, _, ok := refcbor.Apply(tree, a.Mut)
			if ok {
				body = refcbor.EncodeKeepOrder(mt)
			}
		}
		r := peer.Post(h, 30, "", body)
		if !r.OK(31) {
			return r, false
		}
		n, err := refcbor.ParseAll(r.Body)
		if err != nil || len(n.Items) != 2 || n.Items[0].Kind != refcbor.Bytes {
			return r, false
		}
		token, nonce = r.Token, n.Items[0].Bytes
		return r, true
	}
	var replay, earlierNonce []byte
	if a.Kind == "replay-session" {
		if _, ok := hello(guid[:]); !ok {
			return ev.Trivial("setup-hello-refused")
		}
		replay = proveBody(tok{signer: w.dev.Key, pss: d.Cfg.PSS(), nonce: refcbor.B(nonce), ueid: refcbor.B(append([]byte{1}, guid[:]...))})
		earlierNonce = append([]byte{}, nonce...)
	}
	if a.Kind != "no-hello" {
		r, ok := hello(helloGUID)
		if r.Panic != "" {
			return ev.Failf(peer.PanicKey(r.Panic), "%s: rendezvous server panicked on HelloRV", tag)
		}
		if !ok {
			if expired || a.Kind == "unregistered" || a.Kind == "mutate30" {
				if !r.IsError() {
					return ev.Failf("odd-response", "%s: HelloRV answered %d/%d", tag, r.Status, r.Type)
				}
				res := ev.OK("hello-refused/" + a.Kind)
				res.ID = tag
				return res
			}
			return ev.Failf("hello-refused", "%s: HelloRV for a registered, unexpired GUID answered %d/%d", tag, r.Status, r.Type)
		}
		if expired && a.Kind != "hello-guid-mismatch" {
			return ev.Failf("expired-hello-acked", "%s: HelloRV was acknowledged although the registration expired", tag)
		}
		if earlierNonce != nil && bytes.Equal(earlierNonce, nonce) {
			return ev.Failf("nonce-not-fresh", "%s: the rendezvous server issued the same TO1 nonce %x in two sessions", tag, nonce)
		}
	}
	switch d.Between {
	case "expire":
		w.rv.Mem.SetRVBlobExpiry(guid, time.Now().Add(-10*time.Second))
		expired = true
	case "reregister":
		dns := "moved.owner.test"
		if _, err := deploy.RegisterTO0(ctx, w.owner, deploy.NewLink(w.rv), guid, []protocol.RvTO2Addr{{DNSAddress: &dns, Port: 4443, TransportProtocol: protocol.HTTPSTransport}}, 3600); err != nil {
			return ev.Failf("setup", "%s: re-registration between HelloRV and ProveToRV: %v", tag, err)
		}
		if d.Clock < 0 {
			expired = false // the new registration is live
		}
	}
	t := tok{signer: w.dev.Key, pss: d.Cfg.PSS(), nonce: refcbor.B(nonce), ueid: refcbor.B(append([]byte{1}, guid[:]...))}
	var body, orig []byte
	switch a.Kind {
	case "signer":
		switch a.Signer {
		case "stranger":
			t.signer = keys.Get(d.Cfg.Kind(), deploy.KeyStranger)
		case "owner":
			t.signer = keys.Get(d.Cfg.Kind(), deploy.KeyOwner1)
		case "device2":
			t.signer = w.dev2.Key
		default:
			other := "ec384"
			if d.Cfg.Kind() == "ec384" {
				other = "ec256"
			}
			t.signer, t.pss = keys.Get(other, deploy.KeyDevice), false
		}
	case "other-guid":
		// the device's own key, but the UEID names the other registered device
		t.ueid = refcbor.B(append([]byte{1}, w.dev2.Cred.GUID[:]...))
	case "claims":
		switch a.Claim {
		case "omit-nonce":
			t.omitNonce = true
		case "omit-ueid":
			t.omitUEID = true
		case "nonce-stale":
			t.nonce = refcbor.B(make([]byte, 16))
		case "nonce-long":
			t.nonce = refcbor.B(append(append([]byte{}, nonce...), 0))
		case "nonce-long16":
			t.nonce = refcbor.B(append(append([]byte{}, nonce...), nonce...))
		case "nonce-short":
			t.nonce = refcbor.B(nonce[:min(15, len(nonce))])
		case "nonce-text":
			t.nonce = &refcbor.Node{Kind: refcbor.Text, Bytes: nonce}
		case "nonce-int":
			t.nonce = refcbor.U(5)
		case "ueid-type":
			t.ueid = refcbor.B(append([]byte{2}, guid[:]...))
		case "ueid-short":
			t.ueid = refcbor.B(append([]byte{1}, guid[:15]...))
		case "ueid-long":
			t.ueid = refcbor.B(append(append([]byte{1}, guid[:]...), 0))
		case "ueid-first-byte":
			g := append([]byte{}, guid[:]...)
			g[0] ^= 1
			t.ueid = refcbor.B(append([]byte{1}, g...))
		}
	}
	body = proveBody(t)
	if a.Kind == "replay-session" {
		body = replay
	}
	if a.Kind == "mutate32" {
		orig = body
		tree, _ := refcbor.ParseAll(body)
		refcbor.ExpandBstr(tree)
		mt, _, ok := refcbor.Apply(tree, a.Mut)
		if !ok {
			return ev.Trivial("mutation-not-applicable")
		}
		body = refcbor.EncodeKeepOrder(mt)
		if bytes.Equal(orig, body) {
			return ev.Trivial("no-change")
		}
	}
	r := peer.Post(h, 32, token, body)
	if r.Panic != "" {
		return ev.Failf(peer.PanicKey(r.Panic), "%s: rendezvous server panicked on ProveToRV", tag)
	}
	refOK, refWhy, named := refToken(body, nonce, registered)
	if a.Kind == "no-hello" {
		refOK, refWhy = false, "no session"
	}
	released := r.OK(33)
	switch {
	case released && expired:
		return ev.Failf("expired-blob-released", "%s: RVRedirect was returned although the registration expired", tag)
	case released && !refOK:
		if orig != nil {
			o, e1 := refcbor.ParseAll(orig)
			n, e2 := refcbor.ParseAll(body)
			if e1 == nil && e2 == nil && refcbor.LenientEqual(o, n) {
				return ev.Trivial("equivalent-encoding")
			}
		}
		return ev.Failf("released:"+a.Kind, "%s: RVRedirect was returned although: %s", tag, refWhy)
	case released:
		// which blob? it must be the one registered for the GUID the token names
		want, _, _, _ := w.rv.Mem.RVBlobBytes(protocol.GUID(named))
		n, err := refcbor.ParseAll(r.Body)
		if err != nil || n.Kind != refcbor.Tag || n.Val != 18 {
			return ev.Failf("redirect-shape", "%s: RVRedirect is not a tagged COSE_Sign1", tag)
		}
		if !bytes.Equal(refcbor.EncodeKeepOrder(n.Items[0]), want) {
			return ev.Failf("blob-differs", "%s: the released blob differs from the one registered for GUID %x", tag, named)
		}
	case !r.IsError():
		return ev.Failf("odd-response", "%s: ProveToRV answered %d/%d", tag, r.Status, r.Type)
	case refOK && !expired && a.Kind == "none":
		return ev.Failf("honest-refused", "%s: the genuine device was refused: %x", tag, r.Body[:min(len(r.Body), 60)])
	}
	cls := a.Kind
	if a.Kind == "signer" {
		cls += "/" + a.Signer
	}
	if a.Kind == "claims" {
		cls += "/" + a.Claim
	}
	if d.NoChain {
		cls += "/no-device-chain"
	}
	if d.Between != "" {
		cls += "/then-" + d.Between
	}
	if released {
		cls = "released/" + cls
	} else {
		cls = "refused/" + cls
	}
	res := ev.OK(cls)
	res.ID = tag
	return res
}

func configs() []deploy.Config {
	var out []deploy.Config
	for _, k := range deploy.KeyNames {
		for _, e := range deploy.EncNames {
			if e == "cose" && strings.HasPrefix(k, "RSA") {
				continue
			}
			out = append(out, deploy.Config{Key: k, Enc: e, Kex: deploy.DefaultKex(k), Cipher: "A128GCM"})
		}
	}
	return out
}

func genAddrs(t *rapid.T) []addr {
	var out []addr
	for i := 0; i < rapid.IntRange(0, 4).Draw(t, "naddr"); i++ {
		out = append(out, addr{IP: rapid.SampledFrom([]string{"", "v4", "v6"}).Draw(t, "ip"), DNS: rapid.Bool().Draw(t, "dns"), Port: rapid.SampledFrom([]uint16{0, 80, 443, 8043, 65535}).Draw(t, "port"), Proto: uint8(rapid.IntRange(1, 6).Draw(t, "proto"))})
	}
	return out
}

func genCase(t *rapid.T) caseDesc {
	d := caseDesc{Cfg: rapid.SampledFrom(configs()).Draw(t, "cfg"), Addrs: genAddrs(t), Clock: rapid.SampledFrom([]int{3600, 3600, 3600, 5, -3, -3600}).Draw(t, "clock")}
	kind := rapid.SampledFrom([]string{"none", "none", "none", "mutate30", "mutate32", "mutate32", "signer", "replay-session", "other-guid", "hello-guid-mismatch", "claims", "claims", "no-hello", "unregistered"}).Draw(t, "kind")
	d.Attack.Kind = kind
	switch kind {
	case "none":
		tk := rapid.SampledFrom([]string{"none", "mutate", "mutate", "resign", "envelope", "envelope", "skip"}).Draw(t, "tkind")
		d.Transit.Kind = tk
		switch tk {
		case "mutate":
			d.Transit.Mut = refcbor.Mutation{Node: rapid.IntRange(0, 60).Draw(t, "tnode"), Op: "auto", Arg: int64(rapid.IntRange(-4000, 4000).Draw(t, "targ"))}
		case "resign":
			d.Transit.Op = rapid.SampledFrom([]string{"stranger", "mfg", "device"}).Draw(t, "rs")
		case "envelope":
			d.Transit.Op = rapid.SampledFrom([]string{"sig-1byte", "sig-odd", "sig-short", "sig-empty", "alg-removed", "alg-unregistered", "alg-other-family", "payload-null"}).Draw(t, "env")
		}
	case "mutate30", "mutate32":
		d.Attack.Mut = refcbor.Mutation{Node: rapid.IntRange(0, 40).Draw(t, "node"), Op: "auto", Arg: int64(rapid.IntRange(-4000, 4000).Draw(t, "arg"))}
	case "signer":
		d.Attack.Signer = rapid.SampledFrom([]string{"stranger", "owner", "device2", "otherkind"}).Draw(t, "signer")
	case "claims":
		d.Attack.Claim = rapid.SampledFrom([]string{"omit-nonce", "omit-ueid", "nonce-stale", "nonce-text", "nonce-int", "nonce-long", "nonce-long", "nonce-long16", "nonce-short", "ueid-type", "ueid-short", "ueid-first-byte", "ueid-long"}).Draw(t, "claim")
	}
	// a registered voucher without device certificate chain: whoever asks (the device's own key, a
	// stranger, ...) cannot be the proven device
	if (kind == "signer" || (kind == "none" && d.Transit.Kind == "skip")) && rapid.IntRange(0, 2).Draw(t, "nochain") == 0 {
		d.NoChain = true
	}
	// the registration changes between the two messages of the session (manual requester only)
	if !(kind == "none" && d.Transit.Kind != "skip") && kind != "no-hello" && kind != "unregistered" && !d.NoChain && d.Clock > 0 && rapid.IntRange(0, 2).Draw(t, "between") == 0 {
		d.Between = rapid.SampledFrom([]string{"expire", "expire", "reregister"}).Draw(t, "bkind")
	}
	return d
}

func TestC07(t *testing.T) {
	r := ev.Start(t, "C07")
	defer r.Finish()
	r.SetRule("controls", "exhaustive: 14 key/encoding configurations × address-list shapes (0, 1 DNS, IPv4+DNS, IPv6, 4 mixed) × clock {+3600, +5, −3, −3600 s}: the real device function runs TO1 and the obtained blob is fed to TO2. Oracle: unexpired ⇒ blob equals the registered bytes, its owner signature verifies (reference), address count preserved, TO2 succeeds; expired ⇒ TO1 fails")
	shapes := [][]addr{{}, {{DNS: true, Port: 8043, Proto: 3}}, {{IP: "v4", DNS: true, Port: 443, Proto: 5}}, {{IP: "v6", Port: 80, Proto: 3}}, {{IP: "v4", Port: 1, Proto: 1}, {DNS: true, Port: 2, Proto: 2}, {IP: "v6", DNS: true, Port: 65535, Proto: 6}, {IP: "v4", Port: 0, Proto: 4}}}
	ev.Enum(r, "controls", true, func(yield func(caseDesc) bool) {
		i := 0
		for _, c := range configs() {
			for _, s := range shapes {
				for _, clock := range []int{3600, 5, -3, -3600} {
					i++
					if !r.Mine(i) {
						continue
					}
					if !yield(caseDesc{Cfg: c, Addrs: s, Clock: clock, Attack: rvAttack{Kind: "none"}, Transit: transit{Kind: "none"}}) {
						return
					}
				}
			}
		}
	}, func(d caseDesc) ev.Result {
		res := evalCase(d)
		if res.Fail == "" {
			res.NonTrivial = true
		}
		return res
	})
	r.SetRule("attacks", "configuration × registered blob content (0..4 addresses with IPv4/IPv6/DNS/null combinations, ports, transports) × clock position × either (a) a manual requester: HelloRV/ProveToRV with one structure-aware mutation, a foreign signer (stranger, owner, another registered device, key of another kind), a token replayed from another session, the device's key with a UEID naming another registered GUID, HelloRV for another GUID, omitted / stale / mistyped claims, no HelloRV, unregistered GUID, a registration whose voucher carries no device certificate chain (then nobody is the proven device), a registration that runs out or is replaced by a different blob between HelloRV and ProveToRV; or (b) the real device function with TO1.RVRedirect altered in transit (mutation, re-signed by stranger/manufacturer/device with the address replaced, envelope damage: signature of 0/1/odd/short length, alg header removed / unregistered / other family, null payload) and the result fed to TO2. Oracle: type 33 only if the reference accepts the token for this session and the registration is unexpired; the released blob equals the bytes registered for the GUID the token names; an altered or foreign-signed blob makes TO2 fail. Non-trivial: any attack, expired position or transit alteration; distinct by descriptor.")
	ev.Rapid(r, "attacks", ev.N{Quick: 5000, Thorough: 150000}, genCase, evalCase)
	r.SetRule("granted-ttl", "exhaustive over 14 configurations: the rendezvous policy (AcceptVoucher) grants 1 s although the owner asked for 3600 s; TO1 immediately succeeds, TO1 after 2.2 s of real time must fail (expiry follows the granted, not the requested, lifetime)")
	ev.Enum(r, "granted-ttl", true, func(yield func(caseDesc) bool) {
		for i, c := range configs() {
			if !r.Mine(i) {
				continue
			}
			if !yield(caseDesc{Cfg: c, Addrs: []addr{{DNS: true, Port: 8043, Proto: 3}}, Clock: 1}) {
				return
			}
		}
	}, func(d caseDesc) ev.Result {
		ctx, cancel := context.WithTimeout(context.Background(), 30*time.Second)
		defer cancel()
		mfg, owner, rv := deploy.NewMemService("mfg", deploy.KeyMfg), deploy.NewMemService("owner", deploy.KeyOwner1), deploy.NewMemService("rv", deploy.KeyStranger)
		rv.TO0.AcceptVoucher = func(context.Context, fdo.Voucher, uint32) (uint32, error) { return 1, nil }
		dv := deploy.NewDevice(d.Cfg, deploy.KeyDevice)
		if err := dv.DI(ctx, deploy.NewLink(mfg)); err != nil {
			return ev.Failf("setup", "%v", err)
		}
		if _, err := deploy.TransferVoucher(ctx, d.Cfg, mfg, deploy.KeyMfg, owner, deploy.KeyOwner1, dv.Cred.GUID); err != nil {
			return ev.Failf("setup", "%v", err)
		}
		ttl, err := deploy.RegisterTO0(ctx, owner, deploy.NewLink(rv), dv.Cred.GUID, d.rvAddrs(), 3600)
		if err != nil || ttl != 1 {
			return ev.Failf("granted-ttl-reply", "TO0 with a 1 s policy: ttl=%d err=%v", ttl, err)
		}
		_, errNow := dv.TO1(ctx, deploy.NewLink(rv))
		time.Sleep(2200 * time.Millisecond)
		_, errLater := dv.TO1(ctx, deploy.NewLink(rv))
		if errLater == nil {
			return ev.Failf("expired-blob-released", "%s: TO1 succeeded 2.2 s after a registration that was granted 1 s (requested 3600 s)", d.Cfg.Key)
		}
		_ = errNow // (may legitimately fail if the second boundary was crossed)
		res := ev.OK("granted-ttl")
		res.ID = d.Cfg.Key + d.Cfg.Enc
		return res
	})
	r.SetRule("re-registration", "on the real SQLite backend: histories of 2..3 TO0 registrations of one GUID with requested lifetimes from {1 s, 3600 s} (all orders), then TO1 by the genuine device: if the LAST registration was granted 1 s, TO1 after 2.2 s of real time must fail (a shorter re-registration shortens the lifetime); if it was granted 3600 s, TO1 must succeed even after an earlier 1 s registration has run out; the stored expiry column must equal now + last lifetime (±3 s). Exhaustive over the 12 histories × 3 configurations.")
	type rereg struct {
		Cfg  deploy.Config `json:"config"`
		TTLs []uint32      `json:"ttls"`
	}
	ev.Enum(r, "re-registration", true, func(yield func(rereg) bool) {
		i := 0
		cs := configs()
		for _, c := range []deploy.Config{cs[0], cs[len(cs)/2], cs[len(cs)-1]} {
			for n := 2; n <= 3; n++ {
				for mask := 0; mask < 1<<n; mask++ {
					var ttls []uint32
					for k := 0; k < n; k++ {
						if mask>>k&1 == 1 {
							ttls = append(ttls, 3600)
						} else {
							ttls = append(ttls, 1)
						}
					}
					i++
					if !r.Mine(i) {
						continue
					}
					if !yield(rereg{Cfg: c, TTLs: ttls}) {
						return
					}
				}
			}
		}
	}, func(d rereg) ev.Result {
		ctx, cancel := context.WithTimeout(context.Background(), 60*time.Second)
		defer cancel()
		scratch := deploy.ScratchDir()
		defer os.RemoveAll(scratch)
		mfg, owner := deploy.NewMemService("mfg", deploy.KeyMfg), deploy.NewMemService("owner", deploy.KeyOwner1)
		rv, db, err := deploy.NewSQLiteService("rv", filepath.Join(scratch, "rv.db"), deploy.KeyStranger, true)
		if err != nil {
			return ev.Failf("setup", "sqlite: %v", err)
		}
		defer db.Close()
		dv := deploy.NewDevice(d.Cfg, deploy.KeyDevice)
		if err := dv.DI(ctx, deploy.NewLink(mfg)); err != nil {
			return ev.Failf("setup", "%v", err)
		}
		if _, err := deploy.TransferVoucher(ctx, d.Cfg, mfg, deploy.KeyMfg, owner, deploy.KeyOwner1, dv.Cred.GUID); err != nil {
			return ev.Failf("setup", "%v", err)
		}
		tag := fmt.Sprintf("%s/%s lifetimes=%v", d.Cfg.Key, d.Cfg.Enc, d.TTLs)
		var lastAt time.Time
		for k, ttl := range d.TTLs {
			got, err := deploy.RegisterTO0(ctx, owner, deploy.NewLink(rv), dv.Cred.GUID, deploy.DefaultAddrs(), ttl)
			if err != nil || got != ttl {
				return ev.Failf("rereg-to0", "%s: registration %d asked %d s, got %d s, err %v", tag, k, ttl, got, err)
			}
			lastAt = time.Now()
		}
		last := d.TTLs[len(d.TTLs)-1]
		// the stored expiry follows the last registration
		var exp int64
		if err := db.DB().QueryRowContext(ctx, "SELECT exp FROM rv_blobs WHERE guid = ?", dv.Cred.GUID[:]).Scan(&exp); err == nil {
			want := lastAt.Add(time.Duration(last) * time.Second).Unix()
			if exp < want-3 || exp > want+3 {
				return ev.Failf("rereg-stored-expiry", "%s: stored expiry is %d s from the last registration, the last granted lifetime is %d s", tag, exp-lastAt.Unix(), last)
			}
		}
		if last == 1 {
			time.Sleep(2200 * time.Millisecond)
			if _, err := dv.TO1(ctx, deploy.NewLink(rv)); err == nil {
				return ev.Failf("expired-blob-released", "%s: TO1 succeeded 2.2 s after the last registration, which was granted 1 s", tag)
			}
		} else {
			wait := false
			for _, t := range d.TTLs {
				wait = wait || t == 1
			}
			if wait {
				time.Sleep(2200 * time.Millisecond) // let the earlier short registration run out
			}
			if _, err := dv.TO1(ctx, deploy.NewLink(rv)); err != nil {
				return ev.Failf("live-blob-refused", "%s: TO1 failed although the last registration was granted 3600 s: %v", tag, err)
			}
		}
		res := ev.OK(fmt.Sprintf("rereg/last=%d", last))
		res.ID = tag
		return res
	})
	ev.CheckWitness(r, "attacks", evalCase)
	_ = cose.Sign1TagNum
}
