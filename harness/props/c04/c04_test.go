//go:build verif

// C04 — ownership vouchers verify iff untampered; only the current owner can extend.
package c04

import (
	"bytes"
	"context"
	"crypto"
	"encoding/hex"
	"fmt"
	"hash"
	"strings"
	"sync"
	"testing"

	fdo "github.com/fido-device-onboard/go-fdo"
	"github.com/fido-device-onboard/go-fdo/cbor"
	"github.com/fido-device-onboard/go-fdo/cose"
	"github.com/fido-device-onboard/go-fdo/protocol"
	"pgregory.net/rapid"

	"verif/harness/deploy"
	"verif/harness/ev"
	"verif/harness/keys"
	"verif/harness/refcbor"
	"verif/harness/refverify"
)

type vcfg struct {
	Key    string `json:"key"`
	Enc    string `json:"enc"`
	Owners []int  `json:"owners"` // key indices of successive owners (0 = manufacturer key, 1..3)
	Dev    int    `json:"dev"`    // device key index (4 or 5)
}

func (c vcfg) id() string { return fmt.Sprintf("%s/%s/%v/d%d", c.Key, c.Enc, c.Owners, c.Dev) }
func (c vcfg) cfg() deploy.Config {
	return deploy.Config{Key: c.Key, Enc: c.Enc, Kex: deploy.DefaultKex(c.Key), Cipher: "A128GCM"}
}

type built struct {
	ov     *fdo.Voucher
	bytes  []byte
	dev    *deploy.Device
	err    error
	steps  []*fdo.Voucher // voucher after 0,1,2.. extensions (same objects that were extended)
	sibKey string
}

var (
	cacheMu sync.Mutex
	cache   = map[string]*built{}
	mfgSvc  = map[string]*deploy.Service{}
)

// diBase performs (once per key/enc/device) a real DI and returns the unextended voucher and device.
func diBase(c vcfg) (*fdo.Voucher, *deploy.Device, error) {
	id := fmt.Sprintf("base/%s/%s/d%d", c.Key, c.Enc, c.Dev)
	cacheMu.Lock()
	defer cacheMu.Unlock()
	if b, ok := cache[id]; ok {
		return b.ov, b.dev, b.err
	}
	mfg := deploy.NewMemService("mfg", deploy.KeyMfg)
	dev := deploy.NewDevice(c.cfg(), c.Dev)
	b := &built{dev: dev}
	if err := dev.DI(context.Background(), deploy.NewLink(mfg)); err != nil {
		b.err = err
	} else {
		b.ov, b.err = mfg.State.Voucher(context.Background(), dev.Cred.GUID)
	}
	cache[id] = b
	return b.ov, b.dev, b.err
}

func clone(ov *fdo.Voucher) *fdo.Voucher {
	b, err := cbor.Marshal(ov)
	if err != nil {
		panic(err)
	}
	var out fdo.Voucher
	if err := cbor.Unmarshal(b, &out); err != nil {
		panic(err)
	}
	return &out
}

// build creates the voucher for c: DI then one extension per owner index.
// fresh=true signs anew (a "fork" of the same DI voucher), otherwise cached.
func build(c vcfg, fresh bool) *built {
	id := "v/" + c.id()
	if !fresh {
		cacheMu.Lock()
		if b, ok := cache[id]; ok {
			cacheMu.Unlock()
			return b
		}
		cacheMu.Unlock()
	}
	base, dev, err := diBase(c)
	b := &built{dev: dev, err: err}
	if err == nil {
		cur := clone(base)
		b.steps = append(b.steps, cur)
		signer := deploy.KeyMfg
		for _, o := range c.Owners {
			// exercise the accessor on the object that is about to be extended
			_, _ = cur.OwnerPublicKey()
			next, err := deploy.Extend(cur, keys.Get(c.cfg().Kind(), signer), deploy.OwnerPublic(c.cfg(), o), nil)
			if err != nil {
				b.err = fmt.Errorf("extending %s at owner %d: %w", c.id(), o, err)
				break
			}
			cur, signer = next, o
			b.steps = append(b.steps, cur)
		}
		b.ov = cur
		if b.err == nil {
			b.bytes, b.err = cbor.Marshal(cur)
		}
	}
	if !fresh {
		cacheMu.Lock()
		cache[id] = b
		cacheMu.Unlock()
	}
	return b
}

// verifyAll runs every verification step a verifier performs (all of them, so
// that a panic in a later step is seen even when an earlier one already failed);
// "" means all passed, otherwise the first failure.
func verifyAll(ov *fdo.Voucher, dev *deploy.Device) string {
	h256, h384 := dev.Hmacs()
	return verifyAllWith(ov, dev, h256, h384)
}

// verifyAllWith uses the caller's HMAC objects (a device keeps one pair for its lifetime).
func verifyAllWith(ov *fdo.Voucher, dev *deploy.Device, h256, h384 hash.Hash) string {
	first := ""
	note := func(step string, err error) {
		if err != nil && first == "" {
			first = step + ": " + err.Error()
		}
	}
	note("VerifyHeader", ov.VerifyHeader(h256, h384))
	note("VerifyManufacturerKey", ov.VerifyManufacturerKey(dev.Cred.PublicKeyHash))
	note("VerifyCertChainHash", ov.VerifyCertChainHash())
	note("VerifyDeviceCertChain", ov.VerifyDeviceCertChain(nil))
	note("VerifyEntries", ov.VerifyEntries())
	_, err := ov.OwnerPublicKey()
	note("OwnerPublicKey", err)
	_, err = ov.DevicePublicKey()
	note("DevicePublicKey", err)
	note("VerifyManufacturerCertChain", ov.VerifyManufacturerCertChain(nil))
	for i := range ov.Entries {
		if ov.Entries[i].Payload != nil {
			note("VerifyOwnerCertChain", ov.Entries[i].Payload.Val.VerifyOwnerCertChain(nil))
		}
	}
	return first
}

func refVerifyAll(b []byte, dev *deploy.Device) string {
	v, err := refverify.ParseVoucher(b)
	if err != nil {
		return "parse: " + err.Error()
	}
	if ok, why := v.VerifyHeaderHmac(dev.Secret); !ok {
		return why
	}
	if ok, why := v.VerifyMfgKeyHash(int64(dev.Cred.PublicKeyHash.Algorithm), dev.Cred.PublicKeyHash.Value); !ok {
		return why
	}
	if ok, why := v.VerifyCertChainHash(); !ok {
		return why
	}
	if ok, why := v.VerifyEntries(); !ok {
		return why
	}
	if _, err := v.OwnerKey(); err != nil {
		return "owner key: " + err.Error()
	}
	return ""
}

func pubEqual(a, b crypto.PublicKey) bool {
	e, ok := a.(interface{ Equal(crypto.PublicKey) bool })
	return ok && e.Equal(b)
}

// ---- positive ---------------------------------------------------------------

func evalPositive(c vcfg) ev.Result {
	b := build(c, false)
	if b.err != nil {
		return ev.Failf("build", "%s: %v", c.id(), b.err)
	}
	for i, step := range b.steps {
		if why := verifyAll(step, b.dev); why != "" {
			return ev.Failf("genuine-rejected", "%s after %d extensions: %s", c.id(), i, why)
		}
		wantIdx := deploy.KeyMfg
		if i > 0 {
			wantIdx = c.Owners[i-1]
		}
		got, _ := step.OwnerPublicKey()
		if !pubEqual(got, keys.Get(c.cfg().Kind(), wantIdx).Public()) {
			return ev.Failf("owner-key", "%s after %d extensions: OwnerPublicKey is not the key of the last extension (key #%d)", c.id(), i, wantIdx)
		}
		enc, _ := cbor.Marshal(step)
		if why := refVerifyAll(enc, b.dev); why != "" {
			return ev.Failf("ref-rejects-genuine", "%s after %d extensions: reference verifier: %s", c.id(), i, why)
		}
		// storage/transmission round trip keeps it valid and byte-identical
		rt := clone(step)
		if why := verifyAll(rt, b.dev); why != "" {
			return ev.Failf("genuine-rejected-after-roundtrip", "%s after %d extensions: %s", c.id(), i, why)
		}
		enc2, _ := cbor.Marshal(rt)
		if !bytes.Equal(enc, enc2) {
			return ev.Failf("reencode", "%s: voucher re-encodes differently after a round trip", c.id())
		}
	}
	r := ev.OK(fmt.Sprintf("positive-len%d", len(c.Owners)))
	r.NonTrivial = len(c.Owners) > 0
	return r
}

// ---- single alteration ----------------------------------------------------------

type altDesc struct {
	V   vcfg             `json:"v"`
	Mut refcbor.Mutation `json:"mut"`
	Bit int              `json:"bit"` // >= 0: flip this bit of the encoded voucher instead of Mut
}

// unboundPath reports whether a tree path lies in a region the property names as unbound.
func unboundPath(p string) bool {
	if p == "/0" {
		return true // outer protocol version
	}
	// entries: /4/<i>/t/1/...  = unprotected header map of an entry
	parts := strings.Split(p, "/")
	if len(parts) >= 5 && parts[1] == "4" && parts[3] == "t" && parts[4] == "1" {
		return true
	}
	return false
}

func evalAlt(d altDesc) ev.Result {
	b := build(d.V, false)
	if b.err != nil {
		return ev.Failf("build", "%s: %v", d.V.id(), b.err)
	}
	orig := b.bytes
	var mutated []byte
	var path, opname string
	if d.Bit >= 0 {
		bit := d.Bit % (len(orig) * 8)
		mutated = append([]byte{}, orig...)
		mutated[bit/8] ^= 1 << (bit % 8)
		opname = "bitflip"
		// locate the node containing that byte
		if tree, err := refcbor.ParseAll(orig); err == nil {
			path = locate(tree, bit/8)
		}
	} else {
		tree, err := refcbor.ParseAll(orig)
		if err != nil {
			return ev.Failf("ref-parse", "reference parser rejects a genuine voucher: %v", err)
		}
		refcbor.ExpandBstr(tree)
		mt, p, ok := refcbor.Apply(tree, d.Mut)
		if !ok {
			return ev.Trivial("mutation-not-applicable")
		}
		mutated, path, opname = refcbor.EncodeKeepOrder(mt), p, d.Mut.Op
	}
	if bytes.Equal(mutated, orig) {
		return ev.Trivial("no-change")
	}
	cls := fmt.Sprintf("%s@%s", opname, pathClass(path))
	var ov fdo.Voucher
	if err := cbor.Unmarshal(mutated, &ov); err != nil {
		return ev.Result{NonTrivial: true, Class: "rejected-at-decode/" + opname, ID: fmt.Sprintf("%s|%s|%s|%d", d.V.id(), opname, path, d.Bit/8)}
	}
	var why, whyGenuine string
	// the same HMAC objects first see the altered voucher, then the genuine one (a refused
	// voucher must not poison later verifications)
	h256, h384 := b.dev.Hmacs()
	if pkey, pmsg, ok := ev.Guard(func() {
		why = verifyAllWith(&ov, b.dev, h256, h384)
		whyGenuine = verifyAllWith(clone(b.ov), b.dev, h256, h384)
	}); !ok {
		return ev.Failf(pkey, "%s: %s at %s (arg %d, bit %d): %s", d.V.id(), opname, path, d.Mut.Arg, d.Bit, pmsg)
	}
	if whyGenuine != "" {
		return ev.Failf("genuine-rejected-after-altered", "%s: after verifying an altered voucher (%s at %s: %q) the genuine voucher no longer verifies with the same HMAC objects: %s", d.V.id(), opname, path, why, whyGenuine)
	}
	res := ev.Result{NonTrivial: true, Class: fmt.Sprintf("rejected/%s/len%d", cls, min(len(d.V.Owners), 2)), ID: fmt.Sprintf("%s|%s|%s|%d|%d", d.V.id(), opname, path, d.Mut.Arg, d.Bit)}
	if why != "" {
		return res
	}
	// every step passed: allowed only for unbound regions or value-preserving re-encodings
	if re, err := cbor.Marshal(&ov); err == nil {
		if bytes.Equal(re, orig) {
			return ev.Trivial("equivalent-encoding/" + opname)
		}
		// dropping trailing entries yields the honest voucher of an earlier owner
		for _, st := range b.steps {
			if h, _ := cbor.Marshal(st); bytes.Equal(h, re) {
				return ev.Trivial("equals-honest-prefix/" + opname)
			}
		}
	}
	if unboundPath(path) {
		return ev.Trivial("unbound-region/" + pathClass(path))
	}
	// Is the altered voucher nevertheless a valid voucher by the reference
	// (e.g. an alteration confined to unauthenticated bytes we did not classify)?
	refWhy := refVerifyAll(mutated, b.dev)
	return ev.Failf("tamper-undetected:"+pathClass(path), "%s: %s at %s (arg %d, bit %d) passes every verification step; reference verifier: %q; altered voucher %s", d.V.id(), opname, path, d.Mut.Arg, d.Bit, refWhy, hex.EncodeToString(mutated[:min(len(mutated), 80)]))
}

// locate returns the deepest node path covering byte offset off.
func locate(root *refcbor.Node, off int) string {
	best := ""
	var walk func(n *refcbor.Node, path string)
	walk = func(n *refcbor.Node, path string) {
		if off < n.Off || off >= n.End {
			return
		}
		best = path
		for i, c := range n.Items {
			seg := fmt.Sprint(i)
			if n.Kind == refcbor.Map {
				seg = fmt.Sprintf("%c%d", "kv"[i%2], i/2)
			}
			if n.Kind == refcbor.Tag {
				seg = "t"
			}
			walk(c, path+"/"+seg)
		}
	}
	walk(root, "")
	return best
}

// pathClass coarsens a path for histograms and violation keys.
func pathClass(p string) string {
	parts := strings.Split(p, "/")
	if len(parts) < 2 {
		return "root"
	}
	switch parts[1] {
	case "0":
		return "version"
	case "1":
		return "header"
	case "2":
		return "hmac"
	case "3":
		return "certchain"
	case "4":
		if len(parts) >= 5 && parts[3] == "t" {
			switch parts[4] {
			case "0":
				return "entry-protected"
			case "1":
				return "entry-unprotected"
			case "2":
				return "entry-payload"
			case "3":
				return "entry-signature"
			}
		}
		return "entries"
	}
	return "root"
}

// ---- structural rearrangements ----------------------------------------------------

type structDesc struct {
	V    vcfg   `json:"v"`
	Op   string `json:"op"` // swap dup del splice-entries splice-header splice-hmac splice-certchain truncate
	I    int    `json:"i"`
	J    int    `json:"j"`
	Sib  vcfg   `json:"sib"` // sibling voucher for splices
	Fork bool   `json:"fork"`
}

func evalStruct(d structDesc) ev.Result {
	b := build(d.V, false)
	if b.err != nil {
		return ev.Failf("build", "%s: %v", d.V.id(), b.err)
	}
	ov := clone(b.ov)
	n := len(ov.Entries)
	var sib *built
	if strings.HasPrefix(d.Op, "splice") {
		sib = build(d.Sib, d.Fork)
		if sib.err != nil {
			return ev.Failf("build", "%s: %v", d.Sib.id(), sib.err)
		}
	}
	i, j := 0, 0
	if n > 0 {
		i, j = d.I%n, d.J%n
	}
	switch d.Op {
	case "swap":
		if n < 2 || i == j {
			return ev.Trivial("not-applicable")
		}
		ov.Entries[i], ov.Entries[j] = ov.Entries[j], ov.Entries[i]
	case "dup":
		if n < 1 {
			return ev.Trivial("not-applicable")
		}
		e := ov.Entries[i]
		ov.Entries = append(ov.Entries[:i+1:i+1], append([]cose.Sign1Tag[fdo.VoucherEntryPayload, []byte]{e}, ov.Entries[i+1:]...)...)
	case "del":
		if n < 1 {
			return ev.Trivial("not-applicable")
		}
		lo, hi := min(i, j), max(i, j)
		if hi == n-1 && lo > 0 {
			// deleting a suffix leaves an honest shorter voucher (an earlier owner's view): not a tamper
			return ev.Trivial("suffix-deletion")
		}
		if lo == 0 && hi == n-1 {
			return ev.Trivial("suffix-deletion")
		}
		ov.Entries = append(ov.Entries[:lo:lo], ov.Entries[hi+1:]...)
	case "splice-entries":
		se := clone(sib.ov).Entries
		if len(se) == 0 {
			return ev.Trivial("not-applicable")
		}
		// keep i entries of ours, then append the sibling's entries from j on
		k := 0
		if n > 0 {
			k = d.I % (n + 1)
		}
		from := d.J % len(se)
		ov.Entries = append(append([]cose.Sign1Tag[fdo.VoucherEntryPayload, []byte]{}, ov.Entries[:k]...), se[from:]...)
	case "splice-header":
		ov.Header = clone(sib.ov).Header
	case "splice-hmac":
		ov.Hmac = clone(sib.ov).Hmac
	case "splice-certchain":
		ov.CertChain = clone(sib.ov).CertChain
	default:
		return ev.Result{Skip: true}
	}
	enc, err := cbor.Marshal(ov)
	if err != nil {
		return ev.Trivial("unencodable")
	}
	// identical to an honest voucher (e.g. deterministic RSA signatures in a fork)?
	for _, honest := range []*built{b, sib} {
		if honest == nil {
			continue
		}
		for _, st := range honest.steps {
			if h, _ := cbor.Marshal(st); bytes.Equal(h, enc) {
				return ev.Trivial("equals-honest-voucher")
			}
		}
	}
	rt := clone(ov) // as a verifier receives it
	why := verifyAll(rt, b.dev)
	res := ev.OK("rejected/" + d.Op)
	res.ID = fmt.Sprintf("%s|%s|%d|%d|%s|%v", d.V.id(), d.Op, d.I, d.J, d.Sib.id(), d.Fork)
	if why != "" {
		return res
	}
	if refWhy := refVerifyAll(enc, b.dev); refWhy == "" {
		return ev.Trivial("reference-accepts/" + d.Op) // a genuinely valid voucher (e.g. prefix of a chain)
	} else {
		return ev.Failf("rearrangement-undetected:"+d.Op, "%s: %s (i=%d j=%d sibling %s fork=%v) passes every verification step; reference verifier says: %s", d.V.id(), d.Op, d.I, d.J, d.Sib.id(), d.Fork, refWhy)
	}
}

// ---- extension ------------------------------------------------------------------------

type extDesc struct {
	V        vcfg   `json:"v"`
	Signer   string `json:"signer"`    // current | stranger | mfg | previous | device | current-other-kind
	NextKind string `json:"next_kind"` // key kind of the next owner key
	NextEnc  string `json:"next_enc"`  // key | chain
}

func evalExt(d extDesc) ev.Result {
	b := build(d.V, false)
	if b.err != nil {
		return ev.Failf("build", "%s: %v", d.V.id(), b.err)
	}
	kind := d.V.cfg().Kind()
	cur := deploy.KeyMfg
	if n := len(d.V.Owners); n > 0 {
		cur = d.V.Owners[n-1]
	}
	var signer crypto.Signer
	signerIsCurrent := false
	switch d.Signer {
	case "current":
		signer, signerIsCurrent = keys.Get(kind, cur), true
	case "stranger":
		idx := deploy.KeyStranger
		if idx == cur {
			idx = deploy.KeyOwner2
		}
		signer = keys.Get(kind, idx)
	case "mfg":
		signer, signerIsCurrent = keys.Get(kind, deploy.KeyMfg), cur == deploy.KeyMfg
	case "previous":
		prev := deploy.KeyMfg
		if n := len(d.V.Owners); n > 1 {
			prev = d.V.Owners[n-2]
		}
		signer, signerIsCurrent = keys.Get(kind, prev), prev == cur
	case "device":
		signer = b.dev.Key
	case "current-other-kind":
		other := "ec384"
		if kind == "ec384" {
			other = "ec256"
		}
		signer = keys.Get(other, cur)
	default:
		return ev.Result{Skip: true}
	}
	var next crypto.PublicKey = keys.Get(d.NextKind, deploy.KeyOwner2).Public()
	if d.NextEnc == "chain" {
		next = deploy.ChainFor(d.NextKind, deploy.KeyOwner2)
	}
	nextMatches := d.NextKind == kind
	src := clone(b.ov)
	var x *fdo.Voucher
	var err error
	key, msg, ok := ev.Guard(func() { x, err = deploy.Extend(src, signer, next, nil) })
	if !ok {
		return ev.Failf(key, "ExtendVoucher(%s, signer=%s, next=%s/%s): %s", d.V.id(), d.Signer, d.NextKind, d.NextEnc, msg)
	}
	want := signerIsCurrent && nextMatches
	cls := fmt.Sprintf("ext signer=%s next=%s", d.Signer, map[bool]string{true: "same-kind", false: "other-kind"}[nextMatches])
	if (err == nil) != want {
		if err == nil {
			bad := "wrong-signer"
			if signerIsCurrent {
				bad = "next-key-type"
			}
			return ev.Failf("extension-accepted:"+bad, "ExtendVoucher(%s) succeeded with signer=%s (current owner: %v) and a next-owner key of kind %s (manufacturer key kind %s)", d.V.id(), d.Signer, signerIsCurrent, d.NextKind, kind)
		}
		return ev.Failf("extension-rejected", "ExtendVoucher(%s) with the current owner key and a matching next-owner key failed: %v", d.V.id(), err)
	}
	if err == nil {
		if why := verifyAll(clone(x), b.dev); why != "" {
			return ev.Failf("extended-voucher-invalid", "%s extended by its owner does not verify: %s", d.V.id(), why)
		}
		got, _ := x.OwnerPublicKey()
		if !pubEqual(got, keys.Get(d.NextKind, deploy.KeyOwner2).Public()) {
			return ev.Failf("owner-key", "%s: after extension OwnerPublicKey is not the new owner's key", d.V.id())
		}
		if len(src.Entries) != len(b.ov.Entries) {
			return ev.Failf("extend-mutates-source", "%s: ExtendVoucher changed its input voucher", d.V.id())
		}
	}
	r := ev.OK(cls)
	r.ID = fmt.Sprintf("%s|%s|%s|%s", d.V.id(), d.Signer, d.NextKind, d.NextEnc)
	return r
}

// ---- extension histories (forks, repeated extension of one object) -----------------

type extOp struct {
	Src    int  `json:"src"`    // index into the pool of voucher objects (mod pool size)
	Owner  int  `json:"owner"`  // next owner key index 0..3
	Reload bool `json:"reload"` // extend a decoded copy of the pooled object instead of the object itself
}

type histDesc struct {
	V   vcfg    `json:"v"` // Owners is the initial chain built before the history starts
	Ops []extOp `json:"ops"`
}

type pooled struct {
	ov      *fdo.Voucher
	owner   int // key index of the current owner
	entries int
	enc     []byte // encoding when the object was created
}

func genHist(t *rapid.T) histDesc {
	d := histDesc{V: genV(t, 0)}
	if len(d.V.Owners) > 3 {
		d.V.Owners = d.V.Owners[:3]
	}
	n := rapid.IntRange(1, 7).Draw(t, "nops")
	for i := 0; i < n; i++ {
		d.Ops = append(d.Ops, extOp{Src: rapid.IntRange(0, 7).Draw(t, "src"), Owner: rapid.IntRange(0, 3).Draw(t, "owner"), Reload: rapid.IntRange(0, 3).Draw(t, "reload") == 0})
	}
	return d
}

// evalHist: vouchers are values; extending one (any number of times, to different
// next owners, directly or after a storage round trip) must leave every voucher
// obtained earlier exactly as it was: still verifying, still reporting the key of
// its own last extension, same number of entries, same encoding.
func evalHist(d histDesc) ev.Result {
	b := build(d.V, true)
	if b.err != nil {
		return ev.Failf("build", "%s: %v", d.V.id(), b.err)
	}
	kind := d.V.cfg().Kind()
	var pool []*pooled
	add := func(ov *fdo.Voucher, owner int) {
		enc, _ := cbor.Marshal(ov)
		pool = append(pool, &pooled{ov: ov, owner: owner, entries: len(ov.Entries), enc: enc})
	}
	for i, st := range b.steps {
		o := deploy.KeyMfg
		if i > 0 {
			o = d.V.Owners[i-1]
		}
		add(st, o)
	}
	forks := map[int]int{}
	maxFork := 0
	check := func(after string) *ev.Result {
		for i, p := range pool {
			var why string
			var got crypto.PublicKey
			if pkey, pmsg, ok := ev.Guard(func() { why = verifyAll(p.ov, b.dev); got, _ = p.ov.OwnerPublicKey() }); !ok {
				r := ev.Failf(pkey, "%s %s: pool[%d]: %s", d.V.id(), after, i, pmsg)
				return &r
			}
			if why != "" {
				r := ev.Failf("history-breaks-earlier-voucher", "%s %s: voucher #%d (created with %d entries) no longer verifies: %s", d.V.id(), after, i, p.entries, why)
				return &r
			}
			if len(p.ov.Entries) != p.entries {
				r := ev.Failf("history-changes-entry-count", "%s %s: voucher #%d had %d entries when created, now %d", d.V.id(), after, i, p.entries, len(p.ov.Entries))
				return &r
			}
			if !pubEqual(got, keys.Get(kind, p.owner).Public()) {
				r := ev.Failf("history-changes-owner", "%s %s: voucher #%d (%d entries) was extended to owner key #%d but OwnerPublicKey now reports another key", d.V.id(), after, i, p.entries, p.owner)
				return &r
			}
			if enc, _ := cbor.Marshal(p.ov); !bytes.Equal(enc, p.enc) {
				r := ev.Failf("history-changes-encoding", "%s %s: voucher #%d encodes differently than when it was created", d.V.id(), after, i)
				return &r
			}
		}
		return nil
	}
	for k, op := range d.Ops {
		si := op.Src % len(pool)
		src := pool[si]
		forks[si]++
		if forks[si] > maxFork {
			maxFork = forks[si]
		}
		from := src.ov
		if op.Reload {
			from = clone(src.ov)
		}
		next, err := deploy.Extend(from, keys.Get(kind, src.owner), deploy.OwnerPublic(d.V.cfg(), op.Owner), nil)
		if err != nil {
			return ev.Failf("history-extend-failed", "%s op %d: extending voucher #%d (owner key #%d) to key #%d: %v", d.V.id(), k, si, src.owner, op.Owner, err)
		}
		add(next, op.Owner)
		if r := check(fmt.Sprintf("after op %d (extend #%d -> key %d, reload=%v)", k, si, op.Owner, op.Reload)); r != nil {
			return *r
		}
	}
	res := ev.OK(fmt.Sprintf("history/maxfork%d", min(maxFork, 3)))
	res.NonTrivial = maxFork >= 2
	return res
}

// ---- generators -----------------------------------------------------------------------

func genV(t *rapid.T, minLen int) vcfg {
	c := vcfg{Key: rapid.SampledFrom(deploy.KeyNames).Draw(t, "key"), Dev: rapid.SampledFrom([]int{4, 5}).Draw(t, "dev")}
	encs := deploy.EncNames
	if strings.HasPrefix(c.Key, "RSA") {
		encs = encs[:2]
	}
	c.Enc = rapid.SampledFrom(encs).Draw(t, "enc")
	n := rapid.IntRange(minLen, 4).Draw(t, "len")
	c.Owners = []int{}
	for i := 0; i < n; i++ {
		c.Owners = append(c.Owners, rapid.IntRange(0, 3).Draw(t, "owner"))
	}
	return c
}

func allConfigs() []vcfg {
	var out []vcfg
	for _, k := range deploy.KeyNames {
		for _, e := range deploy.EncNames {
			if e == "cose" && strings.HasPrefix(k, "RSA") {
				continue
			}
			for n := 0; n <= 4; n++ {
				out = append(out, vcfg{Key: k, Enc: e, Owners: []int{1, 2, 1, 3}[:n], Dev: 4})
			}
		}
	}
	return out
}

func genAlt(t *rapid.T) altDesc {
	d := altDesc{V: genV(t, 0), Bit: -1}
	if rapid.IntRange(0, 2).Draw(t, "bitflip") == 0 {
		d.Bit = rapid.IntRange(0, 1<<17).Draw(t, "bit")
	} else {
		d.Mut = refcbor.Mutation{Node: rapid.IntRange(0, 400).Draw(t, "node"), Op: rapid.SampledFrom(refcbor.Ops).Draw(t, "op"), Arg: int64(rapid.IntRange(-60, 60).Draw(t, "arg"))}
	}
	return d
}

func TestC04(t *testing.T) {
	r := ev.Start(t, "C04")
	defer r.Finish()

	r.SetRule("positive", "exhaustive: 6 key types × encodings (x509, x5chain, cose for EC) × chain length 0..4 built by a real DI and ExtendVoucher; plus rapid-generated owner sequences with repeats and self-extension. Oracle: every Verify* step and OwnerPublicKey pass after every extension (on the extended objects and after a CBOR round trip), OwnerPublicKey equals the key of the last extension, the independent reference verifier accepts the wire bytes, re-encoding is byte-identical. Non-trivial: ≥1 entry.")
	ev.Enum(r, "positive", true, func(yield func(vcfg) bool) {
		for i, c := range allConfigs() {
			if r.Mine(i) && !yield(c) {
				return
			}
		}
	}, evalPositive)
	ev.Rapid(r, "positive-random", ev.N{Quick: 300, Thorough: 6000}, func(t *rapid.T) vcfg { return genV(t, 0) }, evalPositive)
	r.SetRule("positive-random", "rapid-generated (key, enc, owner sequence over keys 0..3 with repeats, device); same oracle as positive")

	r.SetRule("extension-histories", "rapid-generated histories: a freshly signed voucher (key, enc, 0..3 initial extensions, every intermediate object kept) then 1..7 operations 'extend pooled voucher #i with its current owner key to owner key j', on the object itself or on a decoded copy, so the same object is extended several times to different owners (forks) at every entry-slice length/capacity. Oracle after every operation, for EVERY voucher obtained so far: all verification steps pass, OwnerPublicKey is the key of that voucher's own last extension, entry count and encoding are what they were when it was created. Non-trivial: some object extended at least twice; distinct by descriptor.")
	ev.Rapid(r, "extension-histories", ev.N{Quick: 1500, Thorough: 60000}, genHist, evalHist)

	r.SetRule("alteration", "voucher from (key, enc, owner sequence 0..4: a voucher without entries is bound by the header HMAC alone) × one structure-aware mutation (all operators of the engine, descending into the header bstr, entry payloads and protected headers) or one bit flip of the encoded voucher. Oracle: the genuine voucher still verifies afterwards with the same HMAC objects; decoding fails or at least one of VerifyHeader/VerifyManufacturerKey/VerifyCertChainHash/VerifyDeviceCertChain/VerifyEntries/OwnerPublicKey fails — unless the alteration lies in the outer version or an entry's unprotected header map, or the decoded voucher re-encodes to the original bytes; never a panic. Non-trivial: every altered voucher; distinct by (voucher, operator, path, arg/bit).")
	ev.Rapid(r, "alteration", ev.N{Quick: 16000, Thorough: 600000}, genAlt, evalAlt)

	// exhaustive bit flips of one voucher per key type (thorough: all bits; quick: every 3rd byte)
	r.SetRule("all-bits", "enumeration: every bit (thorough) / one bit in every third byte (quick) of one 2-entry and one 0-entry voucher per key type and encoding; same oracle as alteration")
	ev.Enum(r, "all-bits", r.Thorough(), func(yield func(altDesc) bool) {
		idx := 0
		for _, k := range deploy.KeyNames {
			for _, e := range deploy.EncNames {
				if e == "cose" && strings.HasPrefix(k, "RSA") {
					continue
				}
				for _, owners := range [][]int{{1, 2}, {}} {
					v := vcfg{Key: k, Enc: e, Owners: owners, Dev: 4}
					b := build(v, false)
					if b.err != nil {
						continue
					}
					for bit := 0; bit < len(b.bytes)*8; bit++ {
						if !r.Thorough() && !(bit/8%3 == 0 && bit%8 == (bit/8)%8) {
							continue
						}
						idx++
						if !r.Mine(idx) {
							continue
						}
						if !yield(altDesc{V: v, Bit: bit}) {
							return
						}
					}
				}
			}
		}
	}, evalAlt)

	r.SetRule("rearrangement", "voucher × {swap two entries, duplicate an entry, delete an inner range, splice entries of a sibling voucher (other device of the same manufacturer, or a fork of the same DI voucher re-signed along another owner sequence) after any prefix, splice the sibling's header / HMAC / certificate chain}. Oracle: some verification step fails, unless the result equals an honest voucher or the reference verifier accepts it (a genuine prefix); never a panic. All non-trivial; distinct by descriptor.")
	ev.Rapid(r, "rearrangement", ev.N{Quick: 6000, Thorough: 200000}, func(t *rapid.T) structDesc {
		d := structDesc{V: genV(t, 1), Op: rapid.SampledFrom([]string{"swap", "dup", "del", "splice-entries", "splice-entries", "splice-header", "splice-hmac", "splice-certchain"}).Draw(t, "op"),
			I: rapid.IntRange(0, 8).Draw(t, "i"), J: rapid.IntRange(0, 8).Draw(t, "j")}
		d.Sib = d.V
		switch rapid.IntRange(0, 2).Draw(t, "sibkind") {
		case 0: // other device, same manufacturer, same or other owner sequence
			d.Sib.Dev = 9 - d.V.Dev
			if rapid.Bool().Draw(t, "sibowners") {
				d.Sib.Owners = genV(t, 1).Owners
			}
		case 1: // fork of the same DI voucher along another owner sequence sharing a prefix
			d.Fork = true
			keep := rapid.IntRange(0, len(d.V.Owners)).Draw(t, "keep")
			d.Sib.Owners = append(append([]int{}, d.V.Owners[:keep]...), genV(t, 1).Owners...)
			if len(d.Sib.Owners) > 4 {
				d.Sib.Owners = d.Sib.Owners[:4]
			}
		default: // fork re-signed along the same owner sequence
			d.Fork = true
		}
		return d
	}, evalStruct)

	r.SetRule("extension", "exhaustive: every voucher configuration × signer {current owner, stranger, manufacturer, previous owner, device key, current owner's index with another key kind} × next-owner key kind {ec256, ec384, rsa2048, rsa3072} × {bare key, certificate chain}. Oracle: ExtendVoucher succeeds iff the signer is the current owner and the next-owner key has the manufacturer key's kind; a successful extension verifies, reports the new owner and leaves its input unchanged; never a panic.")
	ev.Enum(r, "extension", true, func(yield func(extDesc) bool) {
		idx := 0
		for _, c := range allConfigs() {
			if len(c.Owners) > 2 {
				continue
			}
			for _, s := range []string{"current", "stranger", "mfg", "previous", "device", "current-other-kind"} {
				for _, nk := range keys.Kinds {
					for _, ne := range []string{"key", "chain"} {
						idx++
						if !r.Mine(idx) {
							continue
						}
						if !yield(extDesc{V: c, Signer: s, NextKind: nk, NextEnc: ne}) {
							return
						}
					}
				}
			}
		}
	}, evalExt)
	ev.CheckWitness(r, "alteration", evalAlt)
	ev.CheckWitness(r, "extension", evalExt)
	_ = protocol.GUID{}
}
