//go:build verif

package c04

import (
	"testing"

	"verif/harness/ev"
)

// FuzzAlteration drives the voucher-alteration generator from fuzz bytes.
func FuzzAlteration(f *testing.F) {
	f.Add([]byte{0})
	f.Add([]byte{1, 2, 3, 4, 5, 6, 7, 8, 9, 10, 11, 12, 13, 14, 15, 16})
	f.Fuzz(ev.Fuzz("C04", "alteration", genAlt, evalAlt))
}
