//go:build verif

package c20

import (
	"encoding/hex"
	"testing"
)

// FuzzRvInfo: coverage-guided search over instruction lists with the differential
// oracle of evalRv (reference interpreter vs protocol.ParseDeviceRvInfo/ParseOwnerRvInfo).
// Input layout: byte 0 bit0 = device view; then records (var, len, value bytes...);
// a record with var 0xff starts a new directive.
func FuzzRvInfo(f *testing.F) {
	f.Add([]byte{1, 5, 4, 0x63, 'a', '.', 'b', 3, 2, 0x19, 0x1f, 0x90})
	f.Add([]byte{0, 2, 5, 0x44, 10, 0, 0, 1, 4, 2, 0x19, 0x20, 0x00, 0xff, 0, 14, 0})
	f.Add([]byte{1, 15, 1, 0x80, 13, 5, 0x1a, 0xff, 0xff, 0xff, 0xff, 12, 1, 0x01, 11, 1, 0x0a})
	f.Add([]byte{0, 0, 0, 1, 0, 6, 1, 0xf5, 7, 1, 0x40, 8, 2, 0x82, 0x01})
	// found by this target: an IP address sent as a CBOR array of four small integers (the codec
	// decodes it into a []byte; now classified as a lenient encoding by the reference)
	f.Add([]byte("0z0\x84\x00\x02\x00\x00"))
	f.Add([]byte("0B0\x820\xf6"))            // certificate hash whose value is null (decodes to an empty slice)
	f.Add([]byte("0z0\x84\x03\xe8\x00\x00")) // array with an unassigned simple value (read as 8)
	f.Add([]byte{1, 2, 5, 0x84, 10, 0, 0, 7, 6, 6, 0x82, 0x2f, 0x83, 1, 2, 3})
	f.Fuzz(func(t *testing.T, in []byte) {
		if len(in) == 0 || len(in) > 4096 {
			t.Skip()
		}
		d := rvDesc{Device: in[0]&1 == 1, Dirs: [][]instr{{}}}
		for p := 1; p+1 < len(in); {
			v, n := in[p], int(in[p+1])
			p += 2
			if v == 0xff {
				if len(d.Dirs) >= 6 {
					break
				}
				d.Dirs = append(d.Dirs, []instr{})
				continue
			}
			if n > len(in)-p {
				n = len(in) - p
			}
			if len(d.Dirs[len(d.Dirs)-1]) < 24 {
				d.Dirs[len(d.Dirs)-1] = append(d.Dirs[len(d.Dirs)-1], instr{Var: v % 20, Val: hex.EncodeToString(in[p : p+n])})
			}
			p += n
		}
		res := evalRv(d)
		if res.Fail != "" {
			t.Fatalf("VIOLATION C20/fuzz key=%s: %s", res.Key, res.Fail)
		}
	})
}
