//go:build verif

// C20 — rendezvous instructions are interpreted totally and per role as specified.
package c20

import (
	"encoding/hex"
	"fmt"
	"net"
	"reflect"
	"sort"
	"strconv"
	"testing"
	"time"

	"github.com/fido-device-onboard/go-fdo/protocol"
	"pgregory.net/rapid"

	"verif/harness/ev"
	"verif/harness/refcbor"
)

type instr struct {
	Var uint8  `json:"var"`
	Val string `json:"val"` // hex of the instruction value (may be empty / malformed)
}

type rvDesc struct {
	Device bool      `json:"device"`
	Dirs   [][]instr `json:"dirs"`
	Perm   []int     `json:"perm,omitempty"` // permutation applied to directive 0 for the metamorphic check
}

func (d rvDesc) lib() [][]protocol.RvInstruction {
	out := make([][]protocol.RvInstruction, len(d.Dirs))
	for i, dir := range d.Dirs {
		out[i] = make([]protocol.RvInstruction, len(dir))
		for j, in := range dir {
			v, _ := hex.DecodeString(in.Val)
			out[i][j] = protocol.RvInstruction{Variable: protocol.RvVar(in.Var), Value: v}
		}
	}
	return out
}

// ---------------------------------------------------------------------------
// reference interpreter (table driven, FDO 1.1 §3.7 as the library applies it)
// ---------------------------------------------------------------------------

type refDirective struct {
	URLs       []string
	Bypass     bool
	Eth, Wlan  *uint8
	SSID, Pass string
	ExtMech    string
	ExtArgs    string // hex
	DelaySec   int64
	SvCert     string // "alg:hex" or ""
	ClCert     string
}

// protocol table: scheme and default port ("" = none)
var protoTable = map[uint64][2]string{
	0: {"", ""}, // REST: keeps defaults
	1: {"http", "80"},
	2: {"https", "443"},
	3: {"tcp", ""},
	4: {"tls", ""},
	5: {"coap+tcp", "5683"},
	6: {"coap", "5683"},
}

// value classes returned by the reference value decoders
type vclass int

const (
	vValid     vclass = iota // valid per the CDDL: the result is prescribed
	vMalformed               // definitely malformed: must be ignored
	vLenient                 // outside the CDDL but within the library's documented leniency (bstr/tstr interchange, non-shortest heads): either reading is accepted
)

func parseExact(v []byte) (*refcbor.Node, bool) {
	n, err := refcbor.ParseAll(v)
	if err != nil {
		return nil, false
	}
	return n, true
}

func refUint(v []byte, max uint64) (uint64, vclass) {
	n, ok := parseExact(v)
	if !ok || n.Kind != refcbor.Uint || n.Val > max {
		if ok && n.Kind == refcbor.Simple && n.FloatW == 0 && n.Val < 20 {
			return 0, vLenient // unassigned simple values: the cbor package reads them as integers (documented as unsupported)
		}
		return 0, vMalformed
	}
	if n.NonCanon {
		return n.Val, vLenient
	}
	return n.Val, vValid
}

// smallUintArray: the library's codec decodes a CBOR array of unsigned integers ≤ 255 into a Go
// []byte (a byte slice is a slice of uint8), so wherever a byte string is expected such an array is
// a lenient encoding of the same bytes: either reading is accepted.
func smallUintArray(n *refcbor.Node) bool {
	if n.Kind != refcbor.Array || n.Indef {
		return false
	}
	for _, it := range n.Items {
		// an element is an unsigned integer ≤ 255 or, as in refUint, an unassigned simple value < 20,
		// which the cbor package reads as that integer (documented as unsupported)
		if !(it.Kind == refcbor.Uint && it.Val <= 255) && !(it.Kind == refcbor.Simple && it.FloatW == 0 && it.Val < 20) {
			return false
		}
	}
	return true
}

func refString(v []byte, wantText bool) ([]byte, vclass) {
	n, ok := parseExact(v)
	if ok && !wantText && smallUintArray(n) {
		return nil, vLenient
	}
	if !ok || n.Indef || (n.Kind != refcbor.Text && n.Kind != refcbor.Bytes) {
		return nil, vMalformed
	}
	if (n.Kind == refcbor.Text) != wantText || n.NonCanon {
		return n.Bytes, vLenient
	}
	return n.Bytes, vValid
}

func refHash(v []byte) (string, vclass) {
	n, ok := parseExact(v)
	if !ok || n.Kind != refcbor.Array || len(n.Items) != 2 || n.Indef {
		return "", vMalformed
	}
	a, b := n.Items[0], n.Items[1]
	if (a.Kind != refcbor.Uint && a.Kind != refcbor.Nint) || a.Val > 1<<63-1 || b.Kind != refcbor.Bytes || b.Indef {
		// the codec's other readings of the two fields (all classes of refUint/refString): an
		// integer or an unassigned simple value < 20 as the algorithm; a byte or text string, null,
		// undefined (both decode to an empty slice) or a smallUintArray as the value
		aInt := ((a.Kind == refcbor.Uint || a.Kind == refcbor.Nint) && a.Val <= 1<<63-1) ||
			(a.Kind == refcbor.Simple && a.FloatW == 0 && a.Val < 20)
		bNull := b.Kind == refcbor.Simple && b.FloatW == 0 && (b.Val == 22 || b.Val == 23)
		if aInt && !b.Indef && (b.Kind == refcbor.Bytes || b.Kind == refcbor.Text || bNull || smallUintArray(b)) {
			return "", vLenient
		}
		return "", vMalformed
	}
	alg := int64(a.Val)
	if a.Kind == refcbor.Nint {
		alg = -alg - 1
	}
	cls := vValid
	if n.NonCanon || a.NonCanon || b.NonCanon {
		cls = vLenient
	}
	return fmt.Sprintf("%d:%x", alg, b.Bytes), cls
}

func refInterpret(vars []instr, device bool) (*refDirective, map[string]bool) {
	lenient := map[string]bool{}
	d := &refDirective{}
	scheme, port := "tls", ""
	protoPort := ""
	rolePort := ""
	var dns string
	var ip net.IP
	for _, in := range vars {
		switch in.Var {
		case 0:
			if !device {
				return nil, lenient
			}
		case 1:
			if device {
				return nil, lenient
			}
		}
	}
	for _, in := range vars {
		v, _ := hex.DecodeString(in.Val)
		switch in.Var {
		case 14:
			d.Bypass = true
		case 11:
			m, c := refUint(v, 255)
			if c == vLenient {
				lenient["medium"] = true
			}
			if c == vValid {
				mm := uint8(m)
				switch {
				case m < 10:
					d.Eth = &mm
				case m < 20:
					mm -= 10
					d.Wlan = &mm
				case m == 20:
					d.Eth = &mm
				case m == 21:
					d.Wlan = &mm
				}
			}
		case 9:
			s, c := refString(v, true)
			if c == vLenient {
				lenient["ssid"] = true
			}
			if c == vValid {
				d.SSID = string(s)
			}
		case 10:
			s, c := refString(v, true)
			if c == vLenient {
				lenient["pass"] = true
			}
			if c == vValid {
				d.Pass = string(s)
			}
		case 15:
			n, ok := parseExact(v)
			if ok && n.Kind == refcbor.Array && !n.Indef && len(n.Items) >= 1 && n.Items[0].Kind == refcbor.Text && !n.Items[0].Indef {
				d.ExtMech = string(n.Items[0].Bytes)
				rest := v[n.Items[0].End:]
				d.ExtArgs = hex.EncodeToString(append(headOf(4, uint64(len(n.Items)-1)), rest...))
				if n.NonCanon {
					lenient["ext"] = true
				}
			} else if ok && n.Kind == refcbor.Array && len(n.Items) >= 1 && n.Items[0].Kind == refcbor.Bytes {
				lenient["ext"] = true
			}
		case 13:
			s, c := refUint(v, 1<<32-1)
			if c == vLenient {
				lenient["delay"] = true
			}
			if c == vValid {
				d.DelaySec = int64(s)
			}
		case 6:
			h, c := refHash(v)
			if c == vLenient {
				lenient["svcert"] = true
			}
			if c == vValid {
				d.SvCert = h
			}
		case 7:
			h, c := refHash(v)
			if c == vLenient {
				lenient["clcert"] = true
			}
			if c == vValid {
				d.ClCert = h
			}
		case 12:
			p, c := refUint(v, 255)
			if c == vLenient {
				lenient["url"] = true
			}
			if c == vValid {
				if e, ok := protoTable[p]; ok && p != 0 {
					scheme, protoPort = e[0], e[1]
				}
			}
		case 3, 4:
			if (device && in.Var != 3) || (!device && in.Var != 4) {
				continue
			}
			p, c := refUint(v, 65535)
			if c == vLenient {
				lenient["url"] = true
			}
			if c == vValid {
				rolePort = strconv.FormatUint(p, 10)
			}
		case 5:
			s, c := refString(v, true)
			if c == vLenient {
				lenient["url"] = true
			}
			if c == vValid {
				dns = string(s)
			}
		case 2:
			s, c := refString(v, false)
			if c == vLenient {
				lenient["url"] = true
			}
			if c == vValid {
				if len(s) == 4 || len(s) == 16 {
					ip = net.IP(s)
				}
			}
		}
	}
	port = protoPort
	if rolePort != "" {
		port = rolePort
	}
	for _, host := range []string{dns, ipString(ip)} {
		if host == "" {
			continue
		}
		h := host
		if port != "" {
			h = net.JoinHostPort(host, port)
		}
		d.URLs = append(d.URLs, scheme+"://"+h)
	}
	return d, lenient
}

func ipString(ip net.IP) string {
	if len(ip) == 0 {
		return ""
	}
	return ip.String()
}

func headOf(major byte, v uint64) []byte {
	return refcbor.HeadWidth(major, v, widthOf(v))
}

func widthOf(v uint64) int {
	switch {
	case v < 24:
		return 0
	case v <= 0xff:
		return 1
	case v <= 0xffff:
		return 2
	case v <= 0xffffffff:
		return 4
	}
	return 8
}

func fromLib(d protocol.RvDirective) *refDirective {
	out := &refDirective{Bypass: d.Bypass, Eth: d.EthIface, Wlan: d.WlanIface, SSID: d.WlanSSID, Pass: d.WlanPass, ExtMech: d.ExtMechanism,
		ExtArgs: hex.EncodeToString(d.ExtArguments)}
	for _, u := range d.URLs {
		// scheme and host as the library holds them (url.String would percent-escape odd DNS text)
		out.URLs = append(out.URLs, u.Scheme+"://"+u.Host)
	}
	if d.Delay%time.Second == 0 {
		out.DelaySec = int64(d.Delay / time.Second)
	} else {
		out.DelaySec = -int64(d.Delay) // flagged as a mismatch below
	}
	if d.ServerCert != nil {
		out.SvCert = fmt.Sprintf("%d:%x", int64(d.ServerCert.Algorithm), d.ServerCert.Value)
	}
	if d.ServerCA != nil {
		out.ClCert = fmt.Sprintf("%d:%x", int64(d.ServerCA.Algorithm), d.ServerCA.Value)
	}
	return out
}

func pu8(p *uint8) string {
	if p == nil {
		return "nil"
	}
	return strconv.Itoa(int(*p))
}

// diff compares field groups, skipping those marked lenient.
func diff(got, want *refDirective, lenient map[string]bool) string {
	if !lenient["url"] && !reflect.DeepEqual(got.URLs, want.URLs) && !(len(got.URLs) == 0 && len(want.URLs) == 0) {
		return fmt.Sprintf("url: got %v want %v", got.URLs, want.URLs)
	}
	if got.Bypass != want.Bypass {
		return fmt.Sprintf("bypass: got %v want %v", got.Bypass, want.Bypass)
	}
	if !lenient["medium"] && (pu8(got.Eth) != pu8(want.Eth) || pu8(got.Wlan) != pu8(want.Wlan)) {
		return fmt.Sprintf("medium: got eth=%s wlan=%s want eth=%s wlan=%s", pu8(got.Eth), pu8(got.Wlan), pu8(want.Eth), pu8(want.Wlan))
	}
	if !lenient["ssid"] && got.SSID != want.SSID {
		return fmt.Sprintf("ssid: got %q want %q", got.SSID, want.SSID)
	}
	if !lenient["pass"] && got.Pass != want.Pass {
		return fmt.Sprintf("pass: got %q want %q", got.Pass, want.Pass)
	}
	if !lenient["ext"] && (got.ExtMech != want.ExtMech || got.ExtArgs != want.ExtArgs) {
		return fmt.Sprintf("ext: got %q/%s want %q/%s", got.ExtMech, got.ExtArgs, want.ExtMech, want.ExtArgs)
	}
	if !lenient["delay"] && got.DelaySec != want.DelaySec {
		return fmt.Sprintf("delay: got %ds want %ds", got.DelaySec, want.DelaySec)
	}
	if !lenient["svcert"] && got.SvCert != want.SvCert {
		return fmt.Sprintf("svcert: got %s want %s", got.SvCert, want.SvCert)
	}
	if !lenient["clcert"] && got.ClCert != want.ClCert {
		return fmt.Sprintf("clcert: got %s want %s", got.ClCert, want.ClCert)
	}
	return ""
}

func distinctVars(dir []instr) bool {
	seen := map[uint8]bool{}
	for _, in := range dir {
		if seen[in.Var] {
			return false
		}
		seen[in.Var] = true
	}
	return true
}

func parse(device bool, rv [][]protocol.RvInstruction) []protocol.RvDirective {
	if device {
		return protocol.ParseDeviceRvInfo(rv)
	}
	return protocol.ParseOwnerRvInfo(rv)
}

func evalRv(d rvDesc) ev.Result {
	got := parse(d.Device, d.lib())
	if len(got) != len(d.Dirs) {
		return ev.Failf("length", "result has %d directives for %d instruction lists", len(got), len(d.Dirs))
	}
	res := ev.Result{Class: "plain"}
	malformed := false
	addrVars := 0
	for i, dir := range d.Dirs {
		want, lenient := refInterpret(dir, d.Device)
		g := fromLib(got[i])
		if want == nil {
			res.Class = "other-role"
			res.NonTrivial = true
			if len(got[i].URLs) != 0 || !reflect.DeepEqual(g, &refDirective{}) {
				return ev.Failf("role-filter", "directive %d is marked for the other role but yields %+v (urls %v)", i, *g, g.URLs)
			}
			continue
		}
		seen := map[uint8]bool{}
		for _, in := range dir {
			if in.Var >= 2 && in.Var <= 5 || in.Var == 12 {
				if !seen[in.Var] {
					addrVars++
				}
				seen[in.Var] = true
			}
			v, _ := hex.DecodeString(in.Val)
			if _, ok := parseExact(v); !ok && in.Var != 0 && in.Var != 1 && in.Var != 14 {
				malformed = true
			}
		}
		if len(lenient) > 0 && res.Class == "plain" {
			res.Class = "lenient-value"
		}
		if !distinctVars(dir) {
			if res.Class == "plain" {
				res.Class = "duplicate-vars(no-panic only)"
			}
			continue
		}
		if df := diff(g, want, lenient); df != "" {
			field := df[:indexOf(df, ':')]
			return ev.Failf("interpret:"+field, "device=%v directive %d %v: %s", d.Device, i, dir, df)
		}
	}
	if malformed {
		res.Class = "malformed-value"
	}
	res.NonTrivial = res.NonTrivial || malformed || addrVars >= 2
	// metamorphic: permuting distinct instructions of directive 0 changes nothing
	if len(d.Dirs) > 0 && len(d.Perm) == len(d.Dirs[0]) && distinctVars(d.Dirs[0]) && isPerm(d.Perm) {
		p := rvDesc{Device: d.Device, Dirs: [][]instr{make([]instr, len(d.Perm))}}
		for i, j := range d.Perm {
			p.Dirs[0][i] = d.Dirs[0][j]
		}
		g2 := parse(d.Device, p.lib())
		a, b := fromLib(got[0]), fromLib(g2[0])
		if !reflect.DeepEqual(a, b) {
			return ev.Failf("order-dependence", "device=%v: %v gives %+v but permuted %v gives %+v", d.Device, d.Dirs[0], *a, p.Dirs[0], *b)
		}
	}
	return res
}

func isPerm(p []int) bool {
	q := append([]int{}, p...)
	sort.Ints(q)
	for i, v := range q {
		if v != i {
			return false
		}
	}
	return true
}

func indexOf(s string, c byte) int {
	for i := 0; i < len(s); i++ {
		if s[i] == c {
			return i
		}
	}
	return len(s)
}

// ---------------------------------------------------------------------------
// generator
// ---------------------------------------------------------------------------

func hx(n *refcbor.Node) string { return hex.EncodeToString(refcbor.Encode(n)) }

func genValue(t *rapid.T, v uint8) string {
	cls := rapid.IntRange(0, 9).Draw(t, "vcls")
	if cls >= 7 { // malformed / wrong-type / empty
		switch rapid.IntRange(0, 7).Draw(t, "bad") {
		case 0:
			return ""
		case 1: // truncated valid value
			b := refcbor.Encode(refcbor.A(refcbor.T("mech"), refcbor.U(1)))
			return hex.EncodeToString(b[:rapid.IntRange(1, len(b)-1).Draw(t, "cut")])
		case 2: // trailing bytes
			return genValidValue(t, v) + "00"
		case 3: // wrong major type
			return hx(rapid.SampledFrom([]*refcbor.Node{refcbor.U(5), refcbor.I(-3), refcbor.B([]byte{1, 2, 3, 4}), refcbor.T("x"), refcbor.A(), refcbor.M(), refcbor.Bool(true), refcbor.Null(), refcbor.Tg(1, refcbor.U(1)), refcbor.A(refcbor.U(1), refcbor.U(2)), refcbor.A(refcbor.U(10), refcbor.U(0), refcbor.U(0), refcbor.U(7)), refcbor.A(refcbor.U(10), refcbor.U(0), refcbor.U(256), refcbor.U(7)), refcbor.A(refcbor.I(-16), refcbor.A(refcbor.U(1), refcbor.U(2), refcbor.U(3)))}).Draw(t, "wt"))
		case 4: // non-CBOR garbage
			return hex.EncodeToString(rapid.SliceOfN(rapid.Byte(), 1, 6).Draw(t, "garbage"))
		case 5: // out-of-range integers
			return hx(rapid.SampledFrom([]*refcbor.Node{refcbor.U(7), refcbor.U(22), refcbor.U(255), refcbor.U(256), refcbor.U(65536), refcbor.U(1 << 32), refcbor.U(1<<63 - 1), refcbor.U(1 << 63), refcbor.U(1<<64 - 1), refcbor.I(-1), refcbor.I(-1 << 63)}).Draw(t, "oor"))
		case 6: // wrong-size addresses / odd strings
			n := rapid.SampledFrom([]int{0, 1, 3, 5, 15, 17, 32}).Draw(t, "iplen")
			return hx(refcbor.B(rapid.SliceOfN(rapid.Byte(), n, n).Draw(t, "ipb")))
		default: // indefinite / reserved
			return rapid.SampledFrom([]string{"9f", "9fff", "5f", "5fff", "7f6161ff", "1c", "fe", "f8ff", "ff"}).Draw(t, "indef")
		}
	}
	return genValidValue(t, v)
}

func genValidValue(t *rapid.T, v uint8) string {
	switch v {
	case 0, 1, 14, 8:
		if rapid.Bool().Draw(t, "hasv") {
			return hx(refcbor.Bool(true))
		}
		return ""
	case 2:
		n := rapid.SampledFrom([]int{4, 16}).Draw(t, "ipn")
		return hx(refcbor.B(rapid.SliceOfN(rapid.Byte(), n, n).Draw(t, "ip")))
	case 3, 4:
		return hx(refcbor.U(uint64(rapid.SampledFrom([]int{0, 1, 23, 24, 80, 443, 8080, 65535}).Draw(t, "port"))))
	case 5:
		return hx(refcbor.T(rapid.SampledFrom([]string{"a", "owner.example.com", "rv.fdo", "xn--bcher-kva.example", "1.2.3.4", "host-1"}).Draw(t, "dns")))
	case 6, 7:
		alg := rapid.SampledFrom([]int64{-16, -43, 5, 6}).Draw(t, "alg")
		return hx(refcbor.A(refcbor.I(alg), refcbor.B(rapid.SliceOfN(rapid.Byte(), 32, 48).Draw(t, "hv"))))
	case 9, 10:
		return hx(refcbor.T(rapid.StringN(0, 12, -1).Draw(t, "wifi")))
	case 11:
		return hx(refcbor.U(uint64(rapid.SampledFrom([]int{0, 1, 9, 10, 11, 19, 20, 21, 22, 23, 24, 100, 255}).Draw(t, "medium"))))
	case 12:
		return hx(refcbor.U(uint64(rapid.IntRange(0, 8).Draw(t, "proto"))))
	case 13:
		return hx(refcbor.U(rapid.SampledFrom([]uint64{0, 1, 23, 24, 3600, 1<<31 - 1, 1 << 31, 1<<32 - 1}).Draw(t, "delay")))
	default: // 15 ExtRV
		items := []*refcbor.Node{refcbor.T(rapid.SampledFrom([]string{"", "mech", "x-y"}).Draw(t, "mech"))}
		for i := 0; i < rapid.IntRange(0, 3).Draw(t, "nargs"); i++ {
			items = append(items, rapid.SampledFrom([]*refcbor.Node{refcbor.U(1), refcbor.T("arg"), refcbor.B([]byte{1, 2}), refcbor.A(refcbor.U(1)), refcbor.Null()}).Draw(t, "arg"))
		}
		return hx(refcbor.A(items...))
	}
}

func genRv(t *rapid.T) rvDesc {
	d := rvDesc{Device: rapid.Bool().Draw(t, "device")}
	nd := rapid.IntRange(0, 4).Draw(t, "ndirs")
	for i := 0; i < nd; i++ {
		ni := rapid.IntRange(0, 8).Draw(t, "ninstr")
		dir := []instr{}
		dupOK := rapid.IntRange(0, 4).Draw(t, "dups") == 0
		seen := map[uint8]int{}
		for j := 0; j < ni; j++ {
			v := uint8(rapid.IntRange(0, 15).Draw(t, "var"))
			if rapid.IntRange(0, 2).Draw(t, "addrbias") == 0 {
				v = rapid.SampledFrom([]uint8{2, 3, 4, 5, 12}).Draw(t, "avar")
			}
			if (v == 0 || v == 1) && rapid.IntRange(0, 2).Draw(t, "rolebias") != 0 {
				continue
			}
			if seen[v] >= 1 && (!dupOK || seen[v] >= 2) {
				continue
			}
			seen[v]++
			dir = append(dir, instr{Var: v, Val: genValue(t, v)})
		}
		d.Dirs = append(d.Dirs, dir)
	}
	if len(d.Dirs) > 0 && len(d.Dirs[0]) > 1 {
		d.Perm = rapid.Permutation(seq(len(d.Dirs[0]))).Draw(t, "perm")
	}
	return d
}

func seq(n int) []int {
	s := make([]int, n)
	for i := range s {
		s[i] = i
	}
	return s
}

func TestC20(t *testing.T) {
	r := ev.Start(t, "C20")
	defer r.Finish()
	r.SetRule("rvinfo", "rapid-generated lists of 0..4 directives × 0..8 instructions over all 16 variables (multiplicity ≤2 in 1/5 of directives), values valid incl. boundaries (port 0/65535, medium 0/9/10/19/20/21/22/255, protocol 0..8, delay 0/2^32-1) or malformed (empty, truncated, trailing bytes, wrong major type, garbage, out-of-range integers, wrong-size addresses, indefinite/reserved), for both roles; oracle: no panic; directives for the other role are zero; for lists with distinct variables every field group equals the table-driven reference interpreter (malformed ⇒ as if absent; bstr/tstr interchange and non-shortest heads are 'lenient': either reading accepted); permuting directive 0 leaves the result unchanged. Non-trivial: ≥2 distinct address-relevant variables, a malformed value, or an other-role directive; distinct by descriptor.")
	ev.Rapid(r, "rvinfo", ev.N{Quick: 60000, Thorough: 3000000}, genRv, evalRv)

	// exhaustive single-instruction sweep: every variable × a fixed catalogue of values × both roles
	r.SetRule("single-instruction", "exhaustive: each of the 16 variables (plus 16..20 unknown) × catalogue of 60 values (valid boundaries and malformed shapes) × role, alone and next to a DNS name; same oracle")
	catalogue := []string{"", "00", "01", "09", "0a", "13", "14", "15", "16", "17", "1818", "1819", "18ff", "190100", "19ffff", "1a00010000", "1affffffff", "1b0000000100000000", "1b7fffffffffffffff", "1b8000000000000000", "1bffffffffffffffff",
		"20", "3b7fffffffffffffff", "40", "4101", "43010203", "4401020304", "450102030405", "500102030405060708090a0b0c0d0e0f10", "5101020304050607080910111213141516aa", "60", "6161", "6b6f776e65722e6c6f63616c", "80", "8100", "8161", "81616d", "82616d01", "83616d0102", "8240", "a0", "a10102",
		"f4", "f5", "f6", "f7", "e5", "f818", "c101", "9f", "9fff", "5f", "1c", "ff", "822f5820" + "00000000000000000000000000000000000000000000000000000000000000ab", "8205" + "40", "820540ff", "82182f40", "8220", "18", "19ff", "0000", "840a000007", "840a0019010007", "822f83010203"}
	ev.Enum(r, "single-instruction", true, func(yield func(rvDesc) bool) {
		idx := 0
		for v := 0; v <= 20; v++ {
			for _, val := range catalogue {
				for _, dev := range []bool{true, false} {
					for _, withDNS := range []bool{false, true} {
						idx++
						if !r.Mine(idx) {
							continue
						}
						dir := []instr{{Var: uint8(v), Val: val}}
						if withDNS && v != 5 {
							dir = append(dir, instr{Var: 5, Val: "6b6f776e65722e6c6f63616c"})
						}
						d := rvDesc{Device: dev, Dirs: [][]instr{dir}}
						if len(dir) == 2 {
							d.Perm = []int{1, 0}
						}
						if !yield(d) {
							return
						}
					}
				}
			}
		}
	}, evalRv)
	ev.CheckWitness(r, "rvinfo", evalRv)
	ev.CheckWitness(r, "single-instruction", evalRv)
}
