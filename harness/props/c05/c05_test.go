//go:build verif

// C05 — TO2 messages after ProveDevice are confidential and tamper-evident.
package c05

import (
	"bytes"
	"context"
	"crypto/rand"
	"crypto/rsa"
	"encoding/hex"
	"fmt"
	"io"
	"strings"
	"sync"
	"testing"
	"time"

	fdo "github.com/fido-device-onboard/go-fdo"
	"github.com/fido-device-onboard/go-fdo/cbor"
	"github.com/fido-device-onboard/go-fdo/kex"
	"github.com/fido-device-onboard/go-fdo/serviceinfo"
	"pgregory.net/rapid"

	"verif/harness/deploy"
	"verif/harness/ev"
	"verif/harness/keys"
	"verif/harness/refcbor"
	"verif/harness/refverify"
)

var suites = []kex.Suite{kex.ECDH256Suite, kex.ECDH384Suite, kex.DHKEXid14Suite, kex.DHKEXid15Suite, kex.ASYMKEX2048Suite, kex.ASYMKEX3072Suite}
var ciphers = []kex.CipherSuiteID{kex.A128GcmCipher, kex.A192GcmCipher, kex.A256GcmCipher, kex.CoseAes128CbcCipher, kex.CoseAes128CtrCipher, kex.CoseAes256CbcCipher, kex.CoseAes256CtrCipher}

// reference facts per cipher suite: outer tag, encryption alg id, mac alg id, IV length
type cipherRef struct {
	aead           bool
	encAlg, macAlg int64
	ivLen          int
}

var cipherTable = map[kex.CipherSuiteID]cipherRef{
	kex.A128GcmCipher:       {true, 1, 0, 12},
	kex.A192GcmCipher:       {true, 2, 0, 12},
	kex.A256GcmCipher:       {true, 3, 0, 12},
	kex.CoseAes128CbcCipher: {false, -65531, 5, 16},
	kex.CoseAes128CtrCipher: {false, -65534, 5, 16},
	kex.CoseAes256CbcCipher: {false, -65529, 6, 16},
	kex.CoseAes256CtrCipher: {false, -65532, 6, 16},
}

type pair struct{ a, b kex.Session } // a = owner side, b = device side

var pairCache sync.Map

func rsaKeyFor(suite kex.Suite) *rsa.PrivateKey {
	switch suite {
	case kex.ASYMKEX2048Suite:
		return keys.Get("rsa2048", 1).(*rsa.PrivateKey)
	case kex.ASYMKEX3072Suite:
		return keys.Get("rsa3072", 1).(*rsa.PrivateKey)
	}
	return nil
}

func newPair(suite kex.Suite, cipher kex.CipherSuiteID) (*pair, error) {
	ok := rsaKeyFor(suite)
	var pub *rsa.PublicKey
	if ok != nil {
		pub = &ok.PublicKey
	}
	owner := suite.New(nil, cipher)
	xA, err := owner.Parameter(rand.Reader, pub)
	if err != nil {
		return nil, err
	}
	dev := suite.New(bytes.Clone(xA), cipher)
	xB, err := dev.Parameter(rand.Reader, pub)
	if err != nil {
		return nil, err
	}
	if err := owner.SetParameter(xB, ok); err != nil {
		return nil, err
	}
	return &pair{owner, dev}, nil
}

func getPair(suite kex.Suite, cipher kex.CipherSuiteID, n int) (*pair, error) {
	id := fmt.Sprintf("%s/%d/%d", suite, cipher, n)
	if v, ok := pairCache.Load(id); ok {
		return v.(*pair), nil
	}
	p, err := newPair(suite, cipher)
	if err != nil {
		return nil, err
	}
	pairCache.Store(id, p)
	return p, nil
}

// ---------------------------------------------------------------------------
// tamper operators over an encoded protected message
// ---------------------------------------------------------------------------

type tamper struct {
	Op  string `json:"op"`
	Arg int    `json:"arg"`
}

var tamperOps = []string{"bit", "bit", "bit", "strip-mac", "strip-mac-flip", "retag", "iv-drop", "iv-short", "iv-long", "iv-empty", "iv-zero", "iv-retype",
	"alg-change", "alg-drop", "alg-move", "ct-empty", "ct-trunc1", "ct-truncblock", "ct-extend", "ct-null", "cross-session", "plaintext", "plaintext-in-enc0",
	"mac-zero", "mac-trunc", "mac-swap", "mac-payload-null", "mutate"}

// enc0Of returns the Encrypt0 array node inside a parsed message (tag 16 directly, or inside tag 17's payload).
func enc0Of(root *refcbor.Node) (*refcbor.Node, *refcbor.Node) {
	if root.Kind != refcbor.Tag || len(root.Items[0].Items) < 3 {
		return nil, nil
	}
	body := root.Items[0]
	if root.Val == 16 {
		return body, nil
	}
	if root.Val == 17 && len(body.Items) == 4 && (body.Items[2].Kind == refcbor.Bytes || body.Items[2].Kind == refcbor.Text) {
		// (the library's byte-string wrappers accept a text string head as well)
		in := body.Items[2].Inner
		if in == nil {
			var err error
			if in, err = refcbor.ParseAll(body.Items[2].Bytes); err != nil {
				return nil, body
			}
			body.Items[2].Inner = in
		}
		return in, body
	}
	return nil, nil
}

func setHeaderVal(e0 *refcbor.Node, label int64, f func(v *refcbor.Node) *refcbor.Node) bool {
	// look in unprotected then protected
	if e0 == nil || len(e0.Items) < 2 {
		return false
	}
	un := e0.Items[1]
	for i := 0; i+1 < len(un.Items); i += 2 {
		if k, ok := refverify.NodeInt(un.Items[i]); ok && k == label {
			if nv := f(un.Items[i+1]); nv == nil {
				un.Items = append(un.Items[:i:i], un.Items[i+2:]...)
			} else {
				un.Items[i+1] = nv
			}
			return true
		}
	}
	pr := e0.Items[0]
	if pr.Kind == refcbor.Bytes && len(pr.Bytes)+boolInt(pr.Inner != nil) > 0 {
		pm := pr.Inner
		if pm == nil {
			var err error
			if pm, err = refcbor.ParseAll(pr.Bytes); err != nil {
				return false
			}
			pr.Inner = pm
		}
		for i := 0; i+1 < len(pm.Items); i += 2 {
			if k, ok := refverify.NodeInt(pm.Items[i]); ok && k == label {
				if nv := f(pm.Items[i+1]); nv == nil {
					pm.Items = append(pm.Items[:i:i], pm.Items[i+2:]...)
					if len(pm.Items) == 0 {
						pr.Inner, pr.Bytes = nil, []byte{}
					}
				} else {
					pm.Items[i+1] = nv
				}
				return true
			}
		}
	}
	return false
}

func boolInt(b bool) int {
	if b {
		return 1
	}
	return 0
}

// apply returns the tampered wire bytes; ok=false when the operator does not apply.
func apply(wire []byte, t tamper, cref cipherRef, other []byte, plaintext []byte, otherSameSession []byte) ([]byte, bool) {
	root, err := refcbor.ParseAll(wire)
	if err != nil {
		return nil, false
	}
	flip := func(b []byte, k int) []byte {
		q := append([]byte{}, b...)
		if len(q) == 0 {
			return q
		}
		q[(k/8)%len(q)] ^= 1 << (k % 8)
		return q
	}
	e0, mac := enc0Of(root)
	switch t.Op {
	case "bit":
		return flip(wire, t.Arg), true
	case "strip-mac", "strip-mac-flip":
		if mac == nil || e0 == nil {
			return nil, false
		}
		if t.Op == "strip-mac-flip" && len(e0.Items) == 3 && e0.Items[2].Kind == refcbor.Bytes {
			e0.Items[2].Bytes = flip(e0.Items[2].Bytes, t.Arg)
		}
		return refcbor.EncodeKeepOrder(refcbor.Tg(16, e0)), true
	case "retag":
		root.Val = 33 - root.Val // 16 <-> 17
		return refcbor.EncodeKeepOrder(root), true
	case "iv-drop", "iv-short", "iv-long", "iv-empty", "iv-zero", "iv-retype":
		ok := setHeaderVal(e0, 5, func(v *refcbor.Node) *refcbor.Node {
			switch t.Op {
			case "iv-drop":
				return nil
			case "iv-short":
				return refcbor.B(v.Bytes[:max(0, len(v.Bytes)-1-t.Arg%4)])
			case "iv-long":
				return refcbor.B(append(append([]byte{}, v.Bytes...), make([]byte, 1+t.Arg%5)...))
			case "iv-empty":
				return refcbor.B(nil)
			case "iv-zero":
				return refcbor.B(make([]byte, len(v.Bytes)))
			default:
				return refcbor.U(uint64(t.Arg))
			}
		})
		if !ok {
			return nil, false
		}
		return refcbor.EncodeKeepOrder(root), true
	case "alg-change", "alg-drop":
		ok := setHeaderVal(e0, 1, func(v *refcbor.Node) *refcbor.Node {
			if t.Op == "alg-drop" {
				return nil
			}
			algs := []int64{1, 2, 3, -65531, -65534, -65529, -65532, 10, 30, 0, -1, 99, 1 << 40}
			nv := algs[t.Arg%len(algs)]
			if cur, _ := refverify.NodeInt(v); cur == nv {
				nv = algs[(t.Arg+1)%len(algs)]
			}
			return refcbor.I(nv)
		})
		if !ok {
			return nil, false
		}
		return refcbor.EncodeKeepOrder(root), true
	case "alg-move":
		if e0 == nil {
			return nil, false
		}
		var algNode *refcbor.Node
		if !setHeaderVal(e0, 1, func(v *refcbor.Node) *refcbor.Node { algNode = refcbor.Clone(v); return nil }) {
			return nil, false
		}
		if cref.aead { // was protected: move to unprotected
			e0.Items[1].Items = append(e0.Items[1].Items, refcbor.I(1), algNode)
		} else { // was unprotected: move to protected
			e0.Items[0] = refcbor.Wrap(refcbor.M(refcbor.I(1), algNode))
		}
		return refcbor.EncodeKeepOrder(root), true
	case "ct-empty", "ct-trunc1", "ct-truncblock", "ct-extend", "ct-null":
		if e0 == nil || len(e0.Items) != 3 || e0.Items[2].Kind != refcbor.Bytes {
			return nil, false
		}
		ct := e0.Items[2].Bytes
		switch t.Op {
		case "ct-empty":
			e0.Items[2] = refcbor.B(nil)
		case "ct-trunc1":
			if len(ct) == 0 {
				return nil, false
			}
			e0.Items[2] = refcbor.B(ct[:len(ct)-1])
		case "ct-truncblock":
			if len(ct) < 16 {
				return nil, false
			}
			e0.Items[2] = refcbor.B(ct[:len(ct)-16])
		case "ct-extend":
			e0.Items[2] = refcbor.B(append(append([]byte{}, ct...), make([]byte, 1+t.Arg%16)...))
		default:
			e0.Items[2] = refcbor.Null()
		}
		return refcbor.EncodeKeepOrder(root), true
	case "cross-session":
		return other, other != nil
	case "plaintext":
		return plaintext, true
	case "plaintext-in-enc0":
		if e0 == nil || len(e0.Items) != 3 {
			return nil, false
		}
		e0.Items[2] = refcbor.B(plaintext)
		return refcbor.EncodeKeepOrder(root), true
	case "mac-zero", "mac-trunc", "mac-swap", "mac-payload-null":
		if mac == nil {
			return nil, false
		}
		tag := mac.Items[3].Bytes
		switch t.Op {
		case "mac-zero":
			mac.Items[3] = refcbor.B(make([]byte, len(tag)))
		case "mac-trunc":
			mac.Items[3] = refcbor.B(tag[:len(tag)-1-t.Arg%(len(tag))])
		case "mac-swap":
			o, err := refcbor.ParseAll(otherSameSession)
			if err != nil {
				return nil, false
			}
			_, omac := enc0Of(o)
			if omac == nil {
				return nil, false
			}
			mac.Items[3] = omac.Items[3]
		default:
			mac.Items[2] = refcbor.Null()
		}
		return refcbor.EncodeKeepOrder(root), true
	case "mutate":
		refcbor.ExpandBstr(root)
		mt, _, ok := refcbor.Apply(root, refcbor.Mutation{Node: t.Arg % 64, Op: "auto", Arg: int64(t.Arg / 64)})
		if !ok {
			return nil, false
		}
		return refcbor.EncodeKeepOrder(mt), true
	}
	return nil, false
}

// checkShape verifies the wire object is the COSE shape of the negotiated suite and returns its IV.
func checkShape(wire []byte, cref cipherRef) (iv []byte, why string) {
	root, err := refcbor.ParseAll(wire)
	if err != nil || root.Kind != refcbor.Tag {
		return nil, "not a tagged CBOR item"
	}
	e0, mac := enc0Of(root)
	if cref.aead {
		if root.Val != 16 || e0 == nil {
			return nil, fmt.Sprintf("expected COSE_Encrypt0 (tag 16), got tag %d", root.Val)
		}
	} else {
		if root.Val != 17 || mac == nil || e0 == nil {
			return nil, fmt.Sprintf("expected COSE_Mac0 (tag 17) wrapping COSE_Encrypt0, got tag %d", root.Val)
		}
		pm, err := refcbor.ParseAll(mac.Items[0].Bytes)
		if err != nil {
			return nil, "Mac0 protected header"
		}
		if a, ok := refverify.NodeInt(refverify.MapGet(pm, 1)); !ok || a != cref.macAlg {
			return nil, fmt.Sprintf("Mac0 alg %d, negotiated %d", a, cref.macAlg)
		}
		if n := len(mac.Items[3].Bytes); n != 32 && n != 48 {
			return nil, fmt.Sprintf("Mac0 tag of %d bytes", n)
		}
	}
	var alg *refcbor.Node
	if cref.aead {
		pm, err := refcbor.ParseAll(e0.Items[0].Bytes)
		if err != nil {
			return nil, "Encrypt0 protected header"
		}
		alg = refverify.MapGet(pm, 1)
	} else {
		alg = refverify.MapGet(e0.Items[1], 1)
	}
	if a, ok := refverify.NodeInt(alg); !ok || a != cref.encAlg {
		return nil, fmt.Sprintf("Encrypt0 alg %d, negotiated %d", a, cref.encAlg)
	}
	ivn := refverify.MapGet(e0.Items[1], 5)
	if ivn == nil || ivn.Kind != refcbor.Bytes || len(ivn.Bytes) != cref.ivLen {
		return nil, "IV header missing or of wrong length"
	}
	if e0.Items[2].Kind != refcbor.Bytes || len(e0.Items[2].Bytes) == 0 {
		return nil, "no ciphertext"
	}
	return ivn.Bytes, ""
}

// wrapperOK reports whether the object still has the wrapper of the negotiated
// suite (tag 16 for AEAD; tag 17 around an Encrypt0 for encrypt-then-MAC). The
// algorithm headers are not compared: the library ignores what the peer wrote
// there and uses the negotiated algorithms.
func wrapperOK(wire []byte, cref cipherRef) bool {
	root, err := refcbor.ParseAll(wire)
	if err != nil || root.Kind != refcbor.Tag {
		return false
	}
	e0, mac := enc0Of(root)
	if cref.aead {
		return root.Val == 16 && e0 != nil
	}
	return root.Val == 17 && mac != nil && e0 != nil
}

// ---------------------------------------------------------------------------
// layer 1: the session crypter
// ---------------------------------------------------------------------------

type crypterDesc struct {
	Suite   string `json:"suite"`
	Cipher  int64  `json:"cipher"`
	ToOwner bool   `json:"to_owner"` // direction: device -> owner
	Size    int    `json:"size"`
	Tamper  tamper `json:"tamper"`
}

var marker = []byte("\x7fMARKER-plaintext-must-not-leak-0123456789\x7f")

func payloadOf(size int) any {
	b := make([]byte, size)
	for i := range b {
		b[i] = byte(i*13 + 7)
	}
	return []any{true, append(append([]byte{}, marker...), b...), "service-info"}
}

func evalCrypter(d crypterDesc) ev.Result {
	suite, cipher := kex.Suite(d.Suite), kex.CipherSuiteID(d.Cipher)
	cref, ok := cipherTable[cipher]
	if !ok {
		return ev.Result{Skip: true}
	}
	p, err := getPair(suite, cipher, 0)
	if err != nil {
		return ev.Failf("kex", "%s/%s: %v", suite, cipher, err)
	}
	q, err := getPair(suite, cipher, 1)
	if err != nil {
		return ev.Failf("kex", "%s/%s: %v", suite, cipher, err)
	}
	snd, rcv, osnd := p.a, p.b, q.a
	if d.ToOwner {
		snd, rcv, osnd = p.b, p.a, q.b
	}
	payload := payloadOf(d.Size)
	plaintext, _ := cbor.Marshal(payload)
	encode := func(s kex.Session, v any) ([]byte, error) {
		enc, err := s.Encrypt(rand.Reader, v)
		if err != nil {
			return nil, err
		}
		return cbor.Marshal(enc)
	}
	wire, err := encode(snd, payload)
	if err != nil {
		return ev.Failf("encrypt", "%s/%s: %v", suite, cipher, err)
	}
	tag := fmt.Sprintf("%s/%s dir=%v", suite, cipher, d.ToOwner)
	iv1, why := checkShape(wire, cref)
	if why != "" {
		return ev.Failf("wire-shape", "%s: %s (%x)", tag, why, wire[:min(len(wire), 60)])
	}
	if bytes.Contains(wire, marker) || bytes.Contains(wire, plaintext[4:min(len(plaintext), 40)]) {
		return ev.Failf("plaintext-on-wire", "%s: the protected message contains the plaintext", tag)
	}
	wire2, err := encode(snd, []any{false, []byte("other message"), "x"})
	if err != nil {
		return ev.Failf("encrypt", "%s: %v", tag, err)
	}
	iv2, _ := checkShape(wire2, cref)
	if bytes.Equal(iv1, iv2) {
		return ev.Failf("iv-reuse", "%s: two messages of one session carry the same IV %x", tag, iv1)
	}
	decrypt := func(b []byte) (pt []byte, err error, pkey, pmsg string) {
		k, m, ok := ev.Guard(func() { pt, err = rcv.Decrypt(rand.Reader, bytes.NewReader(b)) })
		if !ok {
			return nil, nil, k, m
		}
		return pt, err, "", ""
	}
	if d.Tamper.Op == "none" {
		pt, err, pk, pm := decrypt(wire)
		if pk != "" {
			return ev.Failf(pk, "%s decrypting a genuine message: %s", tag, pm)
		}
		if err != nil || !bytes.Equal(pt, plaintext) {
			return ev.Failf("genuine-rejected", "%s: genuine message: err=%v, plaintext equal=%v", tag, err, bytes.Equal(pt, plaintext))
		}
		return ev.Trivial("positive")
	}
	// the same content protected by an INDEPENDENT session of the same suite and cipher
	other, _ := encode(osnd, payload)
	tw, ok := apply(wire, d.Tamper, cref, other, plaintext, wire2)
	if !ok || bytes.Equal(tw, wire) {
		return ev.Trivial("tamper-not-applicable/" + d.Tamper.Op)
	}
	pt, derr, pk, pm := decrypt(tw)
	if pk != "" {
		return ev.Failf(pk, "%s tamper %s(%d): %s", tag, d.Tamper.Op, d.Tamper.Arg, pm)
	}
	r := ev.OK("rejected/" + d.Tamper.Op)
	r.ID = fmt.Sprintf("%s|%d|%v|%s|%d|%d", d.Suite, d.Cipher, d.ToOwner, d.Tamper.Op, d.Tamper.Arg%2048, d.Size)
	if derr != nil {
		return r
	}
	if d.Tamper.Op == "cross-session" {
		// keys are derived per session: whatever it contains, a message protected by another
		// session must not open under this session's keys
		return ev.Failf("cross-session-accepted", "%s: a message protected under the keys of an independent session was accepted by this session (keys are not session-specific)", tag)
	}
	if bytes.Equal(pt, plaintext) {
		r.Class = "accepted-same-plaintext/" + d.Tamper.Op
		// accepted with the sender's exact plaintext: allowed only if the authenticated-encryption
		// wrapper of the negotiated suite is still in place
		if !wrapperOK(tw, cref) {
			return ev.Failf("wrapper-downgrade:"+d.Tamper.Op, "%s tamper %s(%d): accepted (same plaintext) although the message is no longer a %s object", tag, d.Tamper.Op, d.Tamper.Arg, map[bool]string{true: "COSE_Encrypt0", false: "COSE_Mac0(COSE_Encrypt0)"}[cref.aead])
		}
		return r
	}
	return ev.Failf("accepted-different-content:"+d.Tamper.Op, "%s tamper %s(%d): Decrypt accepted the altered message and returned %x… instead of the sender's plaintext", tag, d.Tamper.Op, d.Tamper.Arg, pt[:min(len(pt), 24)])
}

// ---- IV freshness over many messages ------------------------------------------------------

type ivDesc struct {
	Cipher  int64 `json:"cipher"`
	ToOwner bool  `json:"to_owner"`
	N       int   `json:"n"`
}

// evalIVs: one session protects N small messages; all N initialisation vectors must be
// distinct. An IV with little randomness in it (a counter block left at zero, a truncated random
// read, ...) looks fine on any two messages and repeats only after about 2^(bits/2) of them:
// with N = 150 000 an IV carrying 32 random bits collides with probability > 90 %.
func evalIVs(d ivDesc) ev.Result {
	cipher := kex.CipherSuiteID(d.Cipher)
	cref, ok := cipherTable[cipher]
	if !ok {
		return ev.Result{Skip: true}
	}
	p, err := getPair(kex.ECDH256Suite, cipher, 0)
	if err != nil {
		return ev.Failf("kex", "ECDH256/%s: %v", cipher, err)
	}
	snd := p.a
	if d.ToOwner {
		snd = p.b
	}
	n := min(max(d.N, 2), 2000000)
	seen := make(map[string]int, n)
	zeroAt := make([]bool, cref.ivLen) // byte positions that were zero in every IV so far
	for i := range zeroAt {
		zeroAt[i] = true
	}
	tag := fmt.Sprintf("ECDH256/%s to_owner=%v", cipher, d.ToOwner)
	for i := 0; i < n; i++ {
		enc, err := snd.Encrypt(rand.Reader, []byte{byte(i)})
		if err != nil {
			return ev.Failf("encrypt", "%s: %v", tag, err)
		}
		wire, err := cbor.Marshal(enc)
		if err != nil {
			return ev.Failf("encrypt", "%s: %v", tag, err)
		}
		var iv []byte
		if i < 64 {
			var why string
			if iv, why = checkShape(wire, cref); why != "" {
				return ev.Failf("wire-shape", "%s: %s", tag, why)
			}
		} else if iv = fastIV(wire, cref.ivLen); iv == nil {
			var why string
			if iv, why = checkShape(wire, cref); why != "" {
				return ev.Failf("wire-shape", "%s: %s", tag, why)
			}
		}
		if j, dup := seen[string(iv)]; dup {
			return ev.Failf("iv-reuse", "%s: messages #%d and #%d of one session carry the same IV %x (%d messages sent)", tag, j, i, iv, i+1)
		}
		seen[string(iv)] = i
		for k, b := range iv {
			if b != 0 {
				zeroAt[k] = false
			}
		}
	}
	_ = zeroAt
	res := ev.OK(fmt.Sprintf("iv-freshness/%s/n=%d", cipher, n))
	res.ID = fmt.Sprintf("%d|%v|%d", d.Cipher, d.ToOwner, n)
	return res
}

// fastIV finds the IV header (label 5, bstr of ivLen bytes) without a full parse: 0x05, then the
// byte-string head; nil if not found exactly once.
func fastIV(wire []byte, ivLen int) []byte {
	pat := []byte{0x05, byte(0x40 + ivLen)}
	i := bytes.Index(wire, pat)
	if i < 0 || i+2+ivLen > len(wire) || bytes.Index(wire[i+1:], pat) >= 0 {
		return nil
	}
	return wire[i+2 : i+2+ivLen]
}

// ---------------------------------------------------------------------------
// layer 2: full TO2 with a man-in-the-middle
// ---------------------------------------------------------------------------

type tunnelDesc struct {
	Cfg         deploy.Config `json:"config"`
	Victim      int           `json:"victim"` // index among the protected messages of the run (requests 66.. and responses 65..)
	OnReq       bool          `json:"on_req"` // tamper the request (owner must reject) or the response (device must reject)
	Tamper      tamper        `json:"tamper"`
	PayloadSize int           `json:"payload_size"`
}

func evalTunnel(d tunnelDesc) ev.Result {
	ctx, cancel := context.WithTimeout(context.Background(), 30*time.Second)
	defer cancel()
	cref, ok := cipherTable[d.Cfg.CipherID()]
	if !ok {
		return ev.Result{Skip: true}
	}
	mfg, owner := deploy.NewMemService("mfg", deploy.KeyMfg), deploy.NewMemService("owner", deploy.KeyOwner1)
	secretDown := append(append([]byte{}, marker...), bytes.Repeat([]byte{0xd0}, d.PayloadSize)...)
	secretUp := append(append([]byte("up-"), marker...), bytes.Repeat([]byte{0xd1}, d.PayloadSize)...)
	owner.Modules.Factory = func(ctx context.Context) []deploy.NamedModule {
		tr, _ := cbor.Marshal(true)
		msg, _ := cbor.Marshal(secretDown)
		return []deploy.NamedModule{{Name: "probe", Mod: &deploy.ScriptOwnerModule{ModName: "probe", Steps: []deploy.OwnerStep{
			{Send: []deploy.KVMsg{{Name: "active", Body: tr}}},
			{Send: []deploy.KVMsg{{Name: "down", Body: msg}}},
			{Send: []deploy.KVMsg{{Name: "bye", Body: tr}}, Done: true},
		}}}}
	}
	dev := deploy.NewDevice(d.Cfg, deploy.KeyDevice)
	probe := &deploy.RecDeviceModule{}
	probe.OnReceive = func(name string, body []byte, respond func(string) io.Writer, yield func()) {
		if name == "down" {
			_ = cbor.NewEncoder(respond("up")).Encode(secretUp)
		}
	}
	dev.Modules = map[string]serviceinfo.DeviceModule{"probe": probe}
	if err := dev.DI(ctx, deploy.NewLink(mfg)); err != nil {
		return ev.Failf("setup", "DI: %v", err)
	}
	if _, err := deploy.TransferVoucher(ctx, d.Cfg, mfg, deploy.KeyMfg, owner, deploy.KeyOwner1, dev.Cred.GUID); err != nil {
		return ev.Failf("setup", "transfer: %v", err)
	}
	// a previous session of the same device and suite supplies cross-session material
	var crossReq, crossResp [][]byte
	if d.Tamper.Op == "cross-session" {
		l0 := deploy.NewLink(owner)
		owner.Reuse, dev.Reuse = true, true
		if _, err := fdo.TO2(ctx, l0.Transport(), nil, dev.TO2Config()); err != nil {
			return ev.Failf("setup", "earlier session: %v", err)
		}
		for _, ex := range l0.Exchanges() {
			if ex.ReqType > 64 {
				crossReq = append(crossReq, ex.ReqBody)
			}
			if ex.RespType > 64 && ex.RespType < 255 {
				crossResp = append(crossResp, ex.RespBody)
			}
		}
	}
	link := deploy.NewLink(owner)
	count := 0
	var tampered, original []byte
	var victimType uint8
	var victimToken string
	var prevSame []byte
	var victimCrypter *kex.SessionCrypter
	tamperIt := func(body []byte, isReq bool, pool [][]byte) []byte {
		if tampered != nil || isReq != d.OnReq {
			return nil
		}
		defer func() { count++; prevSame = body }()
		if count != d.Victim {
			return nil
		}
		var other []byte
		if len(pool) > 0 {
			other = pool[count%len(pool)]
		}
		var pt []byte
		if sc, ok := owner.Mem.SessionCrypter(victimToken); ok {
			victimCrypter = sc
			pt, _ = sc.Decrypt(rand.Reader, bytes.NewReader(body))
		}
		if pt == nil {
			pt = []byte{0x80}
		}
		tw, ok := apply(body, d.Tamper, cref, other, pt, prevSame)
		if !ok || bytes.Equal(tw, body) {
			return nil
		}
		tampered, original = tw, body
		return tw
	}
	link.OnRequest = func(ex *deploy.Exchange) *deploy.Action {
		if ex.ReqType > 64 && ex.ReqType < 255 {
			victimToken = ex.ReqToken
			if tw := tamperIt(ex.ReqBody, true, crossReq); tw != nil {
				victimType = ex.ReqType
				return &deploy.Action{Body: tw}
			}
		}
		return nil
	}
	link.OnResponse = func(ex *deploy.Exchange) *deploy.Action {
		if ex.RespType > 64 && ex.RespType < 255 {
			victimToken = ex.ReqToken
			if tw := tamperIt(ex.RespBody, false, crossResp); tw != nil {
				victimType = ex.RespType
				return &deploy.Action{Body: tw}
			}
		}
		return nil
	}
	_, terr := fdo.TO2(ctx, link.Transport(), nil, dev.TO2Config())
	tag := fmt.Sprintf("%s/%s/%s/%s victim#%d req=%v tamper=%s(%d)", d.Cfg.Key, d.Cfg.Enc, d.Cfg.Kex, d.Cfg.Cipher, d.Victim, d.OnReq, d.Tamper.Op, d.Tamper.Arg)

	// wire observations on everything the honest parties produced
	ivs := map[string]bool{}
	nprot := 0
	for _, ex := range link.Exchanges() {
		bodies := [][]byte{}
		if ex.ReqType > 64 && ex.ReqType < 255 {
			bodies = append(bodies, ex.ReqBody)
		}
		if ex.RespType > 64 && ex.RespType < 255 && ex.RespStatus == 200 {
			bodies = append(bodies, ex.RespBody)
		}
		for _, b := range bodies {
			nprot++
			iv, why := checkShape(b, cref)
			if why != "" {
				return ev.Failf("wire-shape", "%s: message %d/%d is not protected with the negotiated suite: %s", tag, ex.ReqType, ex.RespType, why)
			}
			if ivs[string(iv)] {
				return ev.Failf("iv-reuse", "%s: IV %x used twice in one session", tag, iv)
			}
			ivs[string(iv)] = true
			if bytes.Contains(b, marker) {
				return ev.Failf("plaintext-on-wire", "%s: message %d/%d carries the plaintext marker", tag, ex.ReqType, ex.RespType)
			}
		}
	}
	if d.Tamper.Op == "none" {
		if terr != nil {
			return ev.Failf("honest-run-failed", "%s: %v", tag, terr)
		}
		if nprot < 6 {
			return ev.Failf("too-few-protected", "%s: only %d protected messages observed", tag, nprot)
		}
		got := false
		for _, c := range probe.Snapshot() {
			if c.Kind == "Receive" && c.Name == "down" {
				var v []byte
				if cbor.Unmarshal(c.Data, &v) == nil && bytes.Equal(v, secretDown) {
					got = true
				}
			}
		}
		if !got {
			return ev.Failf("payload-lost", "%s: the device module did not receive the owner's payload intact", tag)
		}
		r := ev.OK("positive")
		r.ID = fmt.Sprintf("%+v", d.Cfg)
		return r
	}
	if tampered == nil {
		return ev.Trivial("tamper-not-applied/" + d.Tamper.Op)
	}
	// ground truth: does the altered message still carry exactly the sender's plaintext?
	samePlain := false
	if sc := victimCrypter; sc != nil {
		po, e1 := sc.Decrypt(rand.Reader, bytes.NewReader(original))
		var pt []byte
		var e2 error
		ev.Guard(func() { pt, e2 = sc.Decrypt(rand.Reader, bytes.NewReader(tampered)) })
		samePlain = e1 == nil && e2 == nil && bytes.Equal(po, pt) && wrapperOK(tampered, cref)
	}
	r := ev.OK(fmt.Sprintf("rejected/%s/type%d", d.Tamper.Op, victimType))
	r.ID = fmt.Sprintf("%s|%s|%d|%v|%s|%d", d.Cfg.Kex, d.Cfg.Cipher, d.Victim, d.OnReq, d.Tamper.Op, d.Tamper.Arg%512)
	if terr == nil {
		if samePlain {
			return ev.Trivial("accepted-same-plaintext/" + d.Tamper.Op)
		}
		if victimType == 71 && !d.OnReq {
			// Done2 is the last message: its loss cannot fail anything after it, but a tampered one must
			return ev.Failf("run-succeeded:"+d.Tamper.Op, "%s: TO2 succeeded although Done2 was altered", tag)
		}
		return ev.Failf("run-succeeded:"+d.Tamper.Op, "%s: TO2 succeeded although message type %d was altered in transit", tag, victimType)
	}
	if pe, ok := terr.(interface{ Unwrap() error }); ok {
		_ = pe
	}
	if strings.Contains(terr.Error(), "server handler panicked") {
		return ev.Failf("panic:server", "%s: %s", tag, firstLines(terr.Error()))
	}
	// a message rejected by the owner kills the session: the unaltered original must now be refused
	if d.OnReq && !samePlain {
		st, typ := resend(owner, victimType, victimToken, original)
		if st == 200 && typ != 255 {
			return ev.Failf("session-survives-rejection", "%s: after rejecting the altered message the owner still accepted the original under the same token (status %d type %d)", tag, st, typ)
		}
	}
	return r
}

func firstLines(s string) string {
	lines := strings.Split(s, "\n")
	out := lines[0]
	for _, l := range lines[1:] {
		if strings.Contains(l, "go-fdo") && !strings.Contains(l, "harness") {
			return out + " @ " + strings.TrimSpace(l)
		}
	}
	return out
}

func resend(s *deploy.Service, msgType uint8, token string, body []byte) (int, int) {
	l := deploy.NewLink(s)
	tok := token
	l.OnRequest = func(ex *deploy.Exchange) *deploy.Action { return &deploy.Action{Token: &tok, Body: body} }
	typ, rd, err := l.Transport().Send(context.Background(), msgType, cbor.RawBytes(body), nil)
	if err != nil {
		return 0, 255
	}
	_ = rd.Close()
	ex := l.Exchanges()
	return ex[len(ex)-1].RespStatus, int(typ)
}

// ---------------------------------------------------------------------------

func keyFor(kx string) string {
	switch kx {
	case "ECDH256":
		return "P-256"
	case "ECDH384":
		return "P-384"
	case "DHKEXid14", "ASYMKEX2048":
		return "RSA2048RESTR"
	}
	return "RSAPKCS-3072"
}

func TestC05(t *testing.T) {
	r := ev.Start(t, "C05")
	defer r.Finish()

	r.SetRule("crypter-matrix", "exhaustive: 6 key-exchange suites × 7 cipher suites × direction × every tamper operator (bit flips at 8 spread positions; strip COSE_Mac0 with and without a ciphertext bit flip; swap tag 16/17; IV dropped/shortened/lengthened/emptied/zeroed/retyped; alg changed/dropped/moved between protected and unprotected; ciphertext emptied/truncated by 1 byte or a block/extended/null; message of another session of the same suite; plaintext sent bare or inside an Encrypt0; MAC tag zeroed/truncated/swapped with another message's; Mac0 payload null; structure-aware mutation). Oracle: the genuine message has the COSE shape of the negotiated suite (tag, alg ids, IV length), does not contain the plaintext, two messages never share an IV; Decrypt of the altered message errors, or returns exactly the sender's plaintext AND the object is still the negotiated authenticated-encryption wrapper; never different content, never a panic. Non-trivial: applied tamper; distinct by (suite,cipher,direction,operator,arg,size).")
	ev.Enum(r, "crypter-matrix", true, func(yield func(crypterDesc) bool) {
		i := 0
		seen := map[string]bool{}
		for _, s := range suites {
			for _, c := range ciphers {
				for _, dir := range []bool{false, true} {
					for _, op := range append([]string{"none"}, tamperOps...) {
						if seen[op] && false {
							continue
						}
						args := []int{0}
						if op == "bit" || op == "mutate" || op == "strip-mac-flip" {
							args = []int{0, 5, 17, 77, 130, 311, 650, 1201}
						}
						for _, a := range args {
							i++
							if !r.Mine(i) {
								continue
							}
							if !yield(crypterDesc{Suite: string(s), Cipher: int64(c), ToOwner: dir, Size: 40, Tamper: tamper{Op: op, Arg: a}}) {
								return
							}
						}
					}
				}
			}
		}
	}, evalCrypter)

	r.SetRule("iv-freshness", "exhaustive over the 7 cipher suites × direction: one session protects 150 000 (quick) / 600 000 (thorough) one-byte messages and all initialisation vectors must be pairwise distinct (an IV with only 32 random bits collides with probability > 90 % / ≈ 100 % at these volumes; two consecutive messages never show it)")
	ev.Enum(r, "iv-freshness", true, func(yield func(ivDesc) bool) {
		i := 0
		n := 150000
		if r.Thorough() {
			n = 600000
		}
		for _, cid := range []kex.CipherSuiteID{kex.A128GcmCipher, kex.A192GcmCipher, kex.A256GcmCipher, kex.CoseAes128CbcCipher, kex.CoseAes128CtrCipher, kex.CoseAes256CbcCipher, kex.CoseAes256CtrCipher} {
			c := int64(cid)
			for _, to := range []bool{false, true} {
				i++
				if !r.Mine(i) {
					continue
				}
				if !yield(ivDesc{Cipher: c, ToOwner: to, N: n}) {
					return
				}
			}
		}
	}, evalIVs)

	r.SetRule("crypter-random", "rapid: suite × cipher × direction × payload size 0..3000 × tamper operator with random argument (bit position over the whole message); same oracle as crypter-matrix")
	ev.Rapid(r, "crypter-random", ev.N{Quick: 30000, Thorough: 1500000}, func(t *rapid.T) crypterDesc {
		return crypterDesc{Suite: string(rapid.SampledFrom(suites).Draw(t, "suite")), Cipher: int64(rapid.SampledFrom(ciphers).Draw(t, "cipher")), ToOwner: rapid.Bool().Draw(t, "dir"),
			Size:   rapid.SampledFrom([]int{0, 1, 15, 16, 17, 100, 1000, 3000}).Draw(t, "size"),
			Tamper: tamper{Op: rapid.SampledFrom(tamperOps).Draw(t, "op"), Arg: rapid.IntRange(0, 1<<15).Draw(t, "arg")}}
	}, evalCrypter)

	r.SetRule("tunnel", "full TO2 (real device function, real owner service behind the HTTP handler) with instrumented modules exchanging marker payloads, for kex × cipher pairs; a man-in-the-middle alters one chosen protected message (request 66/68/70 or response 65/67/69/71) with one tamper operator, or substitutes the corresponding message of an earlier session. Oracle: every body of 65..71 has the COSE shape of the negotiated suite, IVs are pairwise distinct, no body contains the plaintext marker; if the altered message no longer yields exactly the sender's plaintext under the session keys (ground truth read from the harness' state backend) fdo.TO2 must fail, the server must not panic, and after an owner-side rejection the unaltered original under the same token must be refused. Non-trivial: a delivered alteration; distinct by (kex,cipher,victim,direction,operator,arg).")
	ev.Enum(r, "tunnel-controls", true, func(yield func(tunnelDesc) bool) {
		i := 0
		for _, kx := range deploy.KexNames {
			for _, c := range deploy.CipherNames {
				i++
				if !r.Mine(i) {
					continue
				}
				if !yield(tunnelDesc{Cfg: deploy.Config{Key: keyFor(kx), Enc: "x509", Kex: kx, Cipher: c}, Tamper: tamper{Op: "none"}, PayloadSize: 100}) {
					return
				}
			}
		}
	}, evalTunnel)
	r.SetRule("tunnel-controls", "exhaustive: honest TO2 for all 6×7 kex/cipher pairs; wire observations as in tunnel; the payload must arrive intact")
	ev.Rapid(r, "tunnel", ev.N{Quick: 2500, Thorough: 80000}, func(t *rapid.T) tunnelDesc {
		kx := rapid.SampledFrom(deploy.KexNames).Draw(t, "kex")
		if rapid.IntRange(0, 3).Draw(t, "cheap") != 0 {
			kx = rapid.SampledFrom([]string{"ECDH256", "ECDH384"}).Draw(t, "kexcheap")
		}
		return tunnelDesc{Cfg: deploy.Config{Key: keyFor(kx), Enc: "x509", Kex: kx, Cipher: rapid.SampledFrom(deploy.CipherNames).Draw(t, "cipher")},
			Victim: rapid.IntRange(0, 5).Draw(t, "victim"), OnReq: rapid.Bool().Draw(t, "onreq"),
			Tamper: tamper{Op: rapid.SampledFrom(tamperOps).Draw(t, "op"), Arg: rapid.IntRange(0, 1<<14).Draw(t, "arg")}, PayloadSize: rapid.SampledFrom([]int{10, 200, 900}).Draw(t, "psize")}
	}, evalTunnel)
	ev.CheckWitness(r, "crypter-random", evalCrypter)
	ev.CheckWitness(r, "tunnel", evalTunnel)
	_ = hex.EncodeToString
}
