//go:build verif

// C12 — CBOR decoding of arbitrary bytes is total, bounded and exact.
package c12

import (
	"bytes"
	"encoding/hex"
	"fmt"
	"reflect"
	"runtime"
	"testing"
	"testing/iotest"
	"time"

	fdo "github.com/fido-device-onboard/go-fdo"
	"github.com/fido-device-onboard/go-fdo/cbor"
	"github.com/fido-device-onboard/go-fdo/cose"
	"github.com/fido-device-onboard/go-fdo/protocol"
	"github.com/fido-device-onboard/go-fdo/serviceinfo"
	"pgregory.net/rapid"

	"verif/harness/ev"
	"verif/harness/refcbor"
)

type inner struct {
	X int64
	Y string
}
type withOmit struct {
	A int
	B []byte `cbor:",omitempty"`
}
type twoBstr struct {
	A cbor.Bstr[inner]
	B int
}
type wrapThenInt struct {
	A cbor.ByteWrap[inner]
	B uint8
}

type target struct {
	name string
	new  func() any
}

func tgt[T any](name string) target { return target{name, func() any { return new(T) }} }

var targets = []target{
	tgt[any]("any"),
	tgt[int64]("int64"),
	tgt[uint8]("uint8"),
	tgt[[]byte]("bytes"),
	tgt[string]("string"),
	tgt[bool]("bool"),
	tgt[*int]("*int"),
	tgt[[]int]("[]int"),
	tgt[[]any]("[]any"),
	tgt[[][]any]("[][]any"),
	tgt[[4]byte]("[4]byte"),
	tgt[[2]int]("[2]int"),
	tgt[map[int]int]("map[int]int"),
	tgt[map[any]any]("map[any]any"),
	tgt[map[string][]byte]("map[string][]byte"),
	tgt[inner]("struct"),
	tgt[withOmit]("struct-omitempty"),
	tgt[twoBstr]("struct-bstr-then-int"),
	tgt[wrapThenInt]("struct-bytewrap-then-int"),
	tgt[cbor.RawBytes]("RawBytes"),
	tgt[cbor.Tag[any]]("Tag[any]"),
	tgt[cbor.Tag[cbor.RawBytes]]("Tag[RawBytes]"),
	tgt[cbor.Bstr[inner]]("Bstr[struct]"),
	tgt[cbor.Bstr[any]]("Bstr[any]"),
	tgt[cbor.ByteWrap[[]byte]]("ByteWrap[bytes]"),
	tgt[cbor.ByteWrap[inner]]("ByteWrap[struct]"),
	tgt[cbor.X509Certificate]("X509Certificate"),
	tgt[cbor.X509CertificateRequest]("X509CertificateRequest"),
	tgt[[]*cbor.X509Certificate]("[]*X509Certificate"),
	tgt[cbor.Timestamp]("Timestamp"),
	tgt[cose.Sign1Tag[cbor.RawBytes, []byte]]("Sign1Tag[RawBytes]"),
	tgt[cose.Sign1[inner, []byte]]("Sign1[struct]"),
	tgt[cose.Mac0Tag[inner, []byte]]("Mac0Tag"),
	tgt[cose.Encrypt0Tag[[]byte, []byte]]("Encrypt0Tag"),
	tgt[cose.Key]("cose.Key"),
	tgt[cose.Label]("cose.Label"),
	tgt[protocol.PublicKey]("protocol.PublicKey"),
	tgt[protocol.Hash]("protocol.Hash"),
	tgt[protocol.To1d]("protocol.To1d"),
	tgt[protocol.ErrorMessage]("protocol.ErrorMessage"),
	tgt[[][]protocol.RvInstruction]("RvInfo"),
	tgt[fdo.Voucher]("fdo.Voucher"),
	tgt[fdo.VoucherHeader]("fdo.VoucherHeader"),
	tgt[fdo.DeviceCredential]("fdo.DeviceCredential"),
	tgt[[]*serviceinfo.KV]("[]*KV"),
	tgt[serviceinfo.DevmodModulesChunk]("DevmodModulesChunk"),
}

var targetIdx = map[string]*target{}

func init() {
	for i := range targets {
		targetIdx[targets[i].name] = &targets[i]
	}
}

// allocation meter: runtime.ReadMemStats flushes the per-P caches, so
// TotalAlloc is exact (runtime/metrics is only updated at span granularity).
func heapAllocs() uint64 {
	var ms runtime.MemStats
	runtime.ReadMemStats(&ms)
	return ms.TotalAlloc
}

// Allocation bound: A + B*len(input). A allows one string at the documented
// 100 000-byte limit plus fixed reflection overhead; B is a generous per-byte
// factor (honest decoding of 1-byte items into `any` costs ~100-200 B/byte).
const (
	allocA = 512 << 10
	allocB = 1024
)

type decDesc struct {
	Target string `json:"target"`
	Hex    string `json:"cbor"`
}

// sentinel appended after the input so that the "next item" is observable.
var sentinel = []byte{0x19, 0xab, 0xcd}

func evalDecode(d decDesc) ev.Result { return evalDecodeOpt(d, true) }

func evalDecodeNoMeter(d decDesc) ev.Result { return evalDecodeOpt(d, false) }

func evalDecodeOpt(d decDesc, meter bool) ev.Result {
	tg := targetIdx[d.Target]
	in, err := hex.DecodeString(d.Hex)
	if tg == nil || err != nil {
		return ev.Result{Skip: true}
	}
	_, n, perr := refcbor.Parse(in)
	wellFormed := perr == nil
	key := d.Target

	// (1) streaming decode from a reader holding input||sentinel
	// (for a well-formed first item only that item is followed by the sentinel)
	first := in
	if wellFormed {
		first = in[:n]
	}
	stream := append(append(make([]byte, 0, len(first)+3), first...), sentinel...)
	rd := bytes.NewReader(stream)
	ptr := tg.new()
	var before, after uint64
	if meter {
		before = heapAllocs()
	}
	t0 := time.Now()
	derr := cbor.NewDecoder(rd).Decode(ptr)
	el := time.Since(t0)
	if meter {
		after = heapAllocs()
	}
	consumed := len(stream) - rd.Len()
	res := ev.Result{Class: "rejected-at-first-head"}
	if derr == nil {
		res.Class = "decoded"
		res.NonTrivial = true
	} else if consumed > 1+headArgLen(in) {
		res.Class = "rejected-after-first-head"
		res.NonTrivial = true
	}
	if meter {
		if delta := after - before; delta > allocA+allocB*uint64(len(in)) {
			return ev.Failf(key+":alloc", "decoding %d input bytes (%s) into %s allocated %d bytes (> %d + %d·len); err=%v", len(in), clip(d.Hex), d.Target, delta, allocA, allocB, derr)
		}
	}
	if el > 5*time.Second {
		return ev.Failf(key+":slow", "decoding %d input bytes (%s) into %s took %v; err=%v", len(in), clip(d.Hex), d.Target, el, derr)
	}
	if derr == nil && wellFormed {
		if consumed != n {
			return ev.Failf(key+":position", "input %s is a well-formed item of %d bytes; Decode into %s succeeded but consumed %d bytes", clip(d.Hex), n, d.Target, consumed)
		}
		var next uint16
		if err := cbor.NewDecoder(rd).Decode(&next); err != nil || next != 0xabcd {
			return ev.Failf(key+":next-item", "after decoding %s into %s the next item was not readable (got %#x, err %v)", clip(d.Hex), d.Target, next, err)
		}
	}
	// (1b) the same stream delivered in one-byte reads must decode identically
	if len(stream) <= 4096 {
		rd1 := bytes.NewReader(stream)
		ptr1 := tg.new()
		err1 := cbor.NewDecoder(iotest.OneByteReader(rd1)).Decode(ptr1)
		consumed1 := len(stream) - rd1.Len()
		if (err1 == nil) != (derr == nil) || (derr == nil && consumed1 != consumed) {
			return ev.Failf(key+":short-reads", "decoding %s into %s from a one-byte-at-a-time reader: err=%v consumed=%d; from a bytes.Reader: err=%v consumed=%d", clip(d.Hex), d.Target, err1, consumed1, derr, consumed)
		}
		if derr == nil {
			a, errA := cbor.Marshal(reflect.ValueOf(ptr).Elem().Interface())
			b, errB := cbor.Marshal(reflect.ValueOf(ptr1).Elem().Interface())
			if (errA == nil) != (errB == nil) || !bytes.Equal(a, b) {
				return ev.Failf(key+":short-reads-value", "decoding %s into %s yields different values depending on read sizes: %x vs %x", clip(d.Hex), d.Target, a, b)
			}
		}
	}
	// (2) whole-buffer decoding never succeeds with bytes left over
	ptr2 := tg.new()
	uerr := cbor.Unmarshal(in, ptr2)
	if uerr == nil && wellFormed && n < len(in) {
		return ev.Failf(key+":trailing", "Unmarshal(%s) into %s succeeded although the first item ends at byte %d of %d", clip(d.Hex), d.Target, n, len(in))
	}
	if uerr == nil && !wellFormed && perr == refcbor.ErrTruncated {
		return ev.Failf(key+":truncated-accepted", "Unmarshal(%s) into %s succeeded although the input is a truncated item", clip(d.Hex), d.Target)
	}
	if wellFormed && n == len(in) && (uerr == nil) != (derr == nil) {
		return ev.Failf(key+":unmarshal-vs-decode", "Unmarshal err=%v but Decode err=%v consumed=%d of %d for %s into %s", uerr, derr, consumed, len(in), clip(d.Hex), d.Target)
	}
	return res
}

func clip(h string) string {
	if len(h) > 160 {
		return h[:96] + "…" + h[len(h)-32:] + fmt.Sprintf("(%d bytes)", len(h)/2)
	}
	return h
}

func headArgLen(in []byte) int {
	if len(in) == 0 {
		return 0
	}
	switch in[0] & 0x1f {
	case 24:
		return 1
	case 25:
		return 2
	case 26:
		return 4
	case 27:
		return 8
	}
	return 0
}

// ---------------------------------------------------------------------------
// length-limit sub-property: heads declaring >= MaxArrayDecodeLength
// ---------------------------------------------------------------------------

type limitDesc struct {
	Target string `json:"target"`
	Major  int    `json:"major"`
	Len    uint64 `json:"len"`
	Width  int    `json:"width"`
	Tail   int    `json:"tail"` // number of filler bytes that follow
	Depth  int    `json:"depth"`
}

func (l limitDesc) bytes() []byte {
	var b []byte
	for i := 0; i < l.Depth; i++ {
		b = append(b, 0x81)
	}
	b = append(b, refcbor.HeadWidth(byte(l.Major), l.Len, l.Width)...)
	for i := 0; i < l.Tail; i++ {
		b = append(b, 0x00)
	}
	return b
}

func evalLimit(l limitDesc) ev.Result {
	tg := targetIdx[l.Target]
	if tg == nil {
		return ev.Result{Skip: true}
	}
	in := l.bytes()
	ptr := tg.new()
	before := heapAllocs()
	err := cbor.NewDecoder(bytes.NewReader(in)).Decode(ptr)
	delta := heapAllocs() - before
	res := ev.OK(fmt.Sprintf("major%d", l.Major))
	limit := uint64(cbor.MaxArrayDecodeLength)
	if l.Major == 5 {
		limit /= 2
	}
	if l.Len >= limit {
		if err == nil {
			return ev.Failf(l.Target+":limit-accepted", "head %x declares length %d ≥ limit but decoding into %s succeeded", in[:min(len(in), 12)], l.Len, l.Target)
		}
		if delta > 64<<10 {
			return ev.Failf(l.Target+":limit-alloc", "head %x declares length %d ≥ limit; decoding into %s allocated %d bytes before rejecting (%v)", in[:min(len(in), 12)], l.Len, l.Target, delta, err)
		}
	}
	return res
}

// ---------------------------------------------------------------------------
// generators
// ---------------------------------------------------------------------------

func genAdversarial(t *rapid.T) []byte {
	switch rapid.IntRange(0, 7).Draw(t, "shape") {
	case 0: // nested arrays/maps each claiming many items
		depth := rapid.IntRange(1, 400).Draw(t, "depth")
		claim := rapid.SampledFrom([]uint64{2, 23, 24, 255, 256, 65535, 65536, 99_999, 49_999, 50_000, 100_000}).Draw(t, "claim")
		major := byte(rapid.SampledFrom([]int{4, 4, 4, 5}).Draw(t, "major"))
		var b []byte
		for i := 0; i < depth; i++ {
			b = append(b, refcbor.HeadWidth(major, claim, rapid.SampledFrom([]int{4, 8}).Draw(t, "w"))...)
			if major == 5 && rapid.Bool().Draw(t, "key") {
				b = append(b, 0x01)
			}
		}
		return b
	case 1: // deep nesting of 1-item arrays / tags
		depth := rapid.SampledFrom([]int{1, 10, 100, 1000, 5000, 20000}).Draw(t, "depth")
		lead := rapid.SampledFrom([]byte{0x81, 0xc1, 0xd8}).Draw(t, "lead")
		var b []byte
		for i := 0; i < depth; i++ {
			b = append(b, lead)
			if lead == 0xd8 {
				b = append(b, 0x20)
			}
		}
		if rapid.Bool().Draw(t, "term") {
			b = append(b, 0x00)
		}
		return b
	case 2: // maximal heads
		major := byte(rapid.IntRange(0, 7).Draw(t, "major"))
		v := rapid.SampledFrom([]uint64{1<<64 - 1, 1 << 63, 1<<63 - 1, 1 << 32, 1<<32 - 1, 1<<31 - 1, 100_000, 99_999}).Draw(t, "v")
		b := refcbor.HeadWidth(major, v, 8)
		return append(b, rapid.SliceOfN(rapid.Byte(), 0, 16).Draw(t, "tail")...)
	case 3: // indefinite / reserved additional information
		major := byte(rapid.IntRange(0, 7).Draw(t, "major"))
		ai := byte(rapid.IntRange(28, 31).Draw(t, "ai"))
		b := []byte{major<<5 | ai}
		return append(b, rapid.SliceOfN(rapid.Byte(), 0, 16).Draw(t, "tail")...)
	case 4: // bstr-wrapped item with trailing bytes inside the bstr, in a struct-like array
		innerItem := refcbor.Encode(refcbor.A(refcbor.I(int64(rapid.IntRange(-5, 30).Draw(t, "x"))), refcbor.T(rapid.StringN(0, 5, -1).Draw(t, "y"))))
		extra := rapid.SliceOfN(rapid.Byte(), 0, 6).Draw(t, "extra")
		w := refcbor.Encode(refcbor.B(append(innerItem, extra...)))
		b := []byte{0x82}
		b = append(b, w...)
		b = append(b, refcbor.Encode(refcbor.I(int64(rapid.IntRange(0, 300).Draw(t, "b"))))...)
		if rapid.Bool().Draw(t, "bare") {
			return w
		}
		return b
	case 5: // valid tree, then raw mutation (truncate / extend / bit flip / splice)
		tree := genTree(t, 3)
		b := refcbor.Encode(tree)
		switch rapid.IntRange(0, 4).Draw(t, "mut") {
		case 0:
			if len(b) > 1 {
				b = b[:rapid.IntRange(1, len(b)-1).Draw(t, "cut")]
			}
		case 1:
			b = append(b, rapid.SliceOfN(rapid.Byte(), 1, 4).Draw(t, "ext")...)
		case 2:
			i := rapid.IntRange(0, len(b)*8-1).Draw(t, "bit")
			b[i/8] ^= 1 << (i % 8)
		case 3:
			i := rapid.IntRange(0, len(b)).Draw(t, "at")
			ins := rapid.SliceOfN(rapid.Byte(), 1, 9).Draw(t, "ins")
			b = append(append(append([]byte{}, b[:i]...), ins...), b[i:]...)
		}
		return b
	case 6: // structure-aware mutation of a valid tree
		tree := genTree(t, 3)
		m := refcbor.Mutation{Node: rapid.IntRange(0, 40).Draw(t, "node"), Op: rapid.SampledFrom(refcbor.Ops).Draw(t, "op"), Arg: int64(rapid.IntRange(-40, 40).Draw(t, "arg"))}
		mt, _, _ := refcbor.Apply(tree, m)
		return refcbor.Encode(mt)
	default: // arbitrary bytes
		return rapid.SliceOfN(rapid.Byte(), 0, 64).Draw(t, "raw")
	}
}

func genTree(t *rapid.T, depth int) *refcbor.Node {
	max := 8
	if depth <= 0 {
		max = 5
	}
	switch rapid.IntRange(0, max).Draw(t, "kind") {
	case 0:
		return refcbor.U(rapid.Uint64().Draw(t, "u"))
	case 1:
		return &refcbor.Node{Kind: refcbor.Nint, Val: rapid.Uint64().Draw(t, "n")}
	case 2:
		return refcbor.B(rapid.SliceOfN(rapid.Byte(), 0, 30).Draw(t, "b"))
	case 3:
		return refcbor.T(rapid.StringN(0, 10, -1).Draw(t, "s"))
	case 4:
		return refcbor.Bool(rapid.Bool().Draw(t, "bo"))
	case 5:
		return refcbor.Null()
	case 6:
		n := rapid.IntRange(0, 5).Draw(t, "al")
		items := make([]*refcbor.Node, n)
		for i := range items {
			items[i] = genTree(t, depth-1)
		}
		return refcbor.A(items...)
	case 7:
		n := rapid.IntRange(0, 3).Draw(t, "ml")
		var kv []*refcbor.Node
		for i := 0; i < n; i++ {
			kv = append(kv, refcbor.I(int64(rapid.IntRange(-30, 300).Draw(t, "mk"))), genTree(t, depth-1))
		}
		return refcbor.M(kv...)
	default:
		return refcbor.Tg(rapid.SampledFrom([]uint64{0, 1, 16, 17, 18, 24, 1<<64 - 1}).Draw(t, "tn"), genTree(t, depth-1))
	}
}

// valid encodings of typed FDO values serve as mutation seeds for typed targets.
func typedSeeds() map[string][]byte {
	must := func(v any) []byte {
		b, err := cbor.Marshal(v)
		if err != nil {
			panic(err)
		}
		return b
	}
	dns := "owner.example"
	h := protocol.Hash{Algorithm: protocol.Sha256Hash, Value: make([]byte, 32)}
	s1 := cose.Sign1[inner, []byte]{Header: cose.Header{Protected: cose.HeaderMap{cose.AlgLabel: int64(-7)}, Unprotected: cose.HeaderMap{cose.Label{Int64: 256}: make([]byte, 16)}},
		Payload: cbor.NewByteWrap(inner{X: 5, Y: "y"}), Signature: make([]byte, 64)}
	ovh := fdo.VoucherHeader{Version: 101, DeviceInfo: "dev", RvInfo: [][]protocol.RvInstruction{{{Variable: protocol.RVDns, Value: must("a.b")}, {Variable: protocol.RVBypass}}},
		ManufacturerKey: protocol.PublicKey{Type: protocol.Secp256r1KeyType, Encoding: protocol.X509KeyEnc, Body: must(make([]byte, 91))}, CertChainHash: &h}
	entry := cose.Sign1[fdo.VoucherEntryPayload, []byte]{Header: cose.Header{Protected: cose.HeaderMap{cose.AlgLabel: int64(-7)}},
		Payload: cbor.NewByteWrap(fdo.VoucherEntryPayload{PreviousHash: h, HeaderHash: h, PublicKey: ovh.ManufacturerKey}), Signature: make([]byte, 64)}
	return map[string][]byte{
		"struct":                   must(inner{X: -3, Y: "abc"}),
		"struct-omitempty":         must(withOmit{A: 1, B: []byte{1}}),
		"struct-bstr-then-int":     must(twoBstr{A: cbor.Bstr[inner]{Val: inner{1, "x"}}, B: 7}),
		"struct-bytewrap-then-int": must(wrapThenInt{A: cbor.ByteWrap[inner]{Val: inner{1, "x"}}, B: 7}),
		"Bstr[struct]":             must(cbor.Bstr[inner]{Val: inner{1, "x"}}),
		"ByteWrap[struct]":         must(cbor.ByteWrap[inner]{Val: inner{1, "x"}}),
		"Sign1Tag[RawBytes]":       must(s1.Tag()),
		"Sign1[struct]":            must(s1),
		"Mac0Tag":                  must(cose.Mac0[inner, []byte]{Header: s1.Header, Payload: s1.Payload, Value: make([]byte, 32)}.Tag()),
		"Encrypt0Tag":              must(cose.Encrypt0[[]byte, []byte]{Header: s1.Header, Ciphertext: &[]byte{1, 2, 3}}.Tag()),
		"protocol.PublicKey":       must(ovh.ManufacturerKey),
		"protocol.Hash":            must(h),
		"protocol.To1d":            must(protocol.To1d{RV: []protocol.RvTO2Addr{{DNSAddress: &dns, Port: 8080, TransportProtocol: protocol.HTTPTransport}}, To0dHash: h}),
		"protocol.ErrorMessage":    must(protocol.ErrorMessage{Code: 500, PrevMsgType: 60, ErrString: "x", Timestamp: 1}),
		"RvInfo":                   must(ovh.RvInfo),
		"fdo.VoucherHeader":        must(ovh),
		"fdo.Voucher":              must(fdo.Voucher{Version: 101, Header: *cbor.NewBstr(ovh), Hmac: h, Entries: []cose.Sign1Tag[fdo.VoucherEntryPayload, []byte]{*entry.Tag()}}),
		"fdo.DeviceCredential":     must(fdo.DeviceCredential{Version: 101, DeviceInfo: "d", RvInfo: ovh.RvInfo, PublicKeyHash: h}),
		"[]*KV":                    must([]*serviceinfo.KV{{Key: "devmod:active", Val: []byte{0xf5}}}),
		"DevmodModulesChunk":       must(serviceinfo.DevmodModulesChunk{Start: 0, Len: 2, Modules: []string{"a", "b"}}),
		"Timestamp":                []byte{0xc1, 0x1a, 0x65, 0x00, 0x00, 0x00},
		"cose.Label":               {0x01},
		"cose.Key":                 must(map[int]any{1: 2, -1: 1, -2: make([]byte, 32), -3: make([]byte, 32)}),
	}
}

func TestC12(t *testing.T) {
	r := ev.Start(t, "C12")
	defer r.Finish()
	names := make([]string, len(targets))
	for i := range targets {
		names[i] = targets[i].name
	}

	// --- exhaustive short strings -------------------------------------------
	r.SetRule("short-strings", fmt.Sprintf("every byte string of length 0..2 (exhaustive) and length 3 (quick: seeded 1/64 sample; thorough: all 16.8M) against %d decode targets; oracle: no panic, well-formed item consumed exactly (reference parser), next item readable, Unmarshal never succeeds with trailing or truncated input. Non-trivial: decoding proceeds past the first head (success or nested error); distinct by (target,input).", len(targets)))
	exh := r.Thorough()
	ev.Enum(r, "short-strings", exh, func(yield func(decDesc) bool) {
		buf := make([]byte, 0, 3)
		idx := 0
		emit := func(b []byte) bool {
			h := hex.EncodeToString(b)
			for _, tg := range targets {
				if !yield(decDesc{Target: tg.name, Hex: h}) {
					return false
				}
			}
			return true
		}
		for l := 0; l <= 3; l++ {
			total := 1 << (8 * l)
			for v := 0; v < total; v++ {
				idx++
				if !r.Mine(idx) {
					continue
				}
				if l == 3 && !exh {
					// seeded sample: keep 1/64 of the 3-byte strings
					if (uint64(v)*0x9E3779B97F4A7C15+r.Seed)>>58 != 0 {
						continue
					}
				}
				buf = buf[:0]
				for i := l - 1; i >= 0; i-- {
					buf = append(buf, byte(v>>(8*i)))
				}
				if !emit(buf) {
					return
				}
			}
		}
	}, evalDecodeNoMeter)

	// --- declared lengths at and above the limit ------------------------------
	r.SetRule("length-limit", "heads of bstr/tstr/array/map declaring lengths around and far above MaxArrayDecodeLength (99 998 … 2^64-1; 4- and 8-byte heads; nested under 0..3 one-element arrays; 0..8 filler bytes) against every target; oracle: lengths ≥ limit are rejected and the allocation delta (runtime/metrics) stays < 64 KiB. All cases non-trivial; exhaustive over the listed grid.")
	ev.Enum(r, "length-limit", true, func(yield func(limitDesc) bool) {
		idx := 0
		for _, tg := range targets {
			for _, major := range []int{2, 3, 4, 5} {
				for _, l := range []uint64{49_999, 50_000, 50_001, 99_998, 99_999, 100_000, 100_001, 1 << 20, 1 << 24, 1<<31 - 1, 1 << 31, 1<<32 - 1, 1 << 32, 1 << 40, 1<<62 - 1, 1 << 62, 1<<63 - 1, 1 << 63, 1<<64 - 1} {
					for _, w := range []int{4, 8} {
						if w == 4 && l > 1<<32-1 {
							continue
						}
						for _, depth := range []int{0, 1, 3} {
							for _, tail := range []int{0, 8} {
								idx++
								if !r.Mine(idx) {
									continue
								}
								if !yield(limitDesc{Target: tg.name, Major: major, Len: l, Width: w, Tail: tail, Depth: depth}) {
									return
								}
							}
						}
					}
				}
			}
		}
	}, evalLimit)

	// --- generated adversarial inputs, allocation metered ----------------------
	r.SetRule("adversarial", "rapid-generated adversarial inputs (nested arrays/maps each claiming up to 99 999 items, deep nesting up to 20 000, maximal 8-byte heads, indefinite/reserved additional information, bstr-wrapped items with trailing bytes, raw and structure-aware mutations of valid trees, arbitrary bytes) × target; oracle as short-strings plus allocation ≤ 512 KiB + 1 KiB·len(input) and wall time < 5 s. Non-trivial: decoding proceeds past the first head; distinct by (target,input).")
	ev.Rapid(r, "adversarial", ev.N{Quick: 40000, Thorough: 1500000}, func(t *rapid.T) decDesc {
		return decDesc{Target: rapid.SampledFrom(names).Draw(t, "target"), Hex: hex.EncodeToString(genAdversarial(t))}
	}, evalDecode)

	// --- typed seeds: structure-aware mutation of valid encodings ----------------
	seeds := typedSeeds()
	var seedNames []string
	for _, tg := range targets {
		if _, ok := seeds[tg.name]; ok {
			seedNames = append(seedNames, tg.name)
		}
	}
	r.SetRule("typed-mutation", "valid encodings of FDO/COSE/test structures, 0..2 structure-aware mutations (all operators of the mutation engine incl. length inflation, hostile constants, wrap/unwrap, trailing bytes in bstr wrappers), decoded into the matching typed target; same oracle as adversarial. Non-trivial: decoding proceeds past the first head; distinct by (target,input).")
	ev.Rapid(r, "typed-mutation", ev.N{Quick: 40000, Thorough: 1500000}, func(t *rapid.T) decDesc {
		name := rapid.SampledFrom(seedNames).Draw(t, "target")
		tree, err := refcbor.ParseAll(seeds[name])
		if err != nil {
			panic(err)
		}
		refcbor.ExpandBstr(tree)
		for i := 0; i < rapid.IntRange(0, 2).Draw(t, "nmut"); i++ {
			m := refcbor.Mutation{Node: rapid.IntRange(0, 80).Draw(t, "node"), Op: rapid.SampledFrom(refcbor.Ops).Draw(t, "op"), Arg: int64(rapid.IntRange(-40, 40).Draw(t, "arg"))}
			tree, _, _ = refcbor.Apply(tree, m)
		}
		b := refcbor.EncodeKeepOrder(tree)
		if rapid.IntRange(0, 9).Draw(t, "trail") == 0 {
			b = append(b, rapid.SliceOfN(rapid.Byte(), 1, 3).Draw(t, "tb")...)
		}
		return decDesc{Target: name, Hex: hex.EncodeToString(b)}
	}, evalDecode)

	// --- large inputs up to 64 KiB (amplification) ------------------------------
	r.SetRule("large", "inputs of 1..64 KiB built from repeated adversarial units (0x81 nesting, inflated array heads, tags, nested bstr) against any/RawBytes/typed targets; oracle: allocation bound and wall time. All non-trivial; distinct by (target,unit,size).")
	ev.Rapid(r, "large", ev.N{Quick: 400, Thorough: 20000}, func(t *rapid.T) decDesc {
		unit := rapid.SampledFrom([][]byte{{0x81}, {0xc1}, {0x9a, 0x00, 0x01, 0x86, 0x9f}, {0x82, 0x01}, {0xa1, 0x01}, {0xd8, 0x18}, {0x81, 0x9a, 0x00, 0x00, 0xff, 0xff}, {0xba, 0x00, 0x00, 0xc3, 0x4f, 0x01}}).Draw(t, "unit")
		size := rapid.SampledFrom([]int{1 << 10, 2 << 10, 4 << 10, 8 << 10, 16 << 10}).Draw(t, "size")
		var b []byte
		for len(b)+len(unit) <= size {
			b = append(b, unit...)
		}
		return decDesc{Target: rapid.SampledFrom([]string{"any", "RawBytes", "[]any", "[][]any", "Tag[RawBytes]", "Sign1Tag[RawBytes]", "map[any]any", "fdo.Voucher", "Bstr[any]"}).Draw(t, "target"), Hex: hex.EncodeToString(b)}
	}, evalDecode)

	ev.CheckWitness(r, "adversarial", evalDecode)
	ev.CheckWitness(r, "typed-mutation", evalDecode)
	ev.CheckWitness(r, "large", evalDecode)
	ev.CheckWitness(r, "short-strings", evalDecodeNoMeter)
}
