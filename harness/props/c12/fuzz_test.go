//go:build verif

package c12

import (
	"encoding/hex"
	"testing"

	"verif/harness/refcbor"
)

// FuzzDecode is the coverage-guided companion of the "adversarial" sub-check: the
// same oracle (evalDecodeNoMeter: no panic, clean error or exact consumption,
// agreement with the reference parser on well-formedness, next item readable)
// over inputs found by native fuzzing. The first byte selects the decode target.
func FuzzDecode(f *testing.F) {
	for _, b := range typedSeeds() {
		f.Add(byte(0), b)
	}
	for i, h := range []string{"9a0001869f", "5b8000000000000000", "bb8000000000000000", "9fff", "d818", "d81845", "fb7ff8000000000000", "3b7fffffffffffffff", "1bffffffffffffffff", "c11a514b67b0", "a201020102", "f6", "f7", "60", "40", "80", "a0"} {
		b, _ := hex.DecodeString(h)
		f.Add(byte(i), b)
		f.Add(byte(i+7), append(append([]byte{0x82}, b...), b...))
	}
	for i, v := range refcbor.Hostile {
		f.Add(byte(i), refcbor.Encode(refcbor.A(refcbor.U(v), refcbor.B([]byte{1, 2, 3}))))
	}
	f.Fuzz(func(t *testing.T, sel byte, in []byte) {
		if len(in) > 1<<16 {
			t.Skip()
		}
		tg := targets[int(sel)%len(targets)]
		res := evalDecodeNoMeter(decDesc{Target: tg.name, Hex: hex.EncodeToString(in)})
		if res.Fail != "" {
			t.Fatalf("VIOLATION C12/fuzz key=%s target=%s: %s", res.Key, tg.name, res.Fail)
		}
	})
}
