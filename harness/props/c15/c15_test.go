//go:build verif

// C15 — service-info chunking is lossless, ordered and within the MTU.
package c15

import (
	"bytes"
	"errors"
	"fmt"
	"io"
	"runtime"
	"strings"
	"testing"
	"time"

	"github.com/fido-device-onboard/go-fdo/serviceinfo"
	"pgregory.net/rapid"

	"verif/harness/ev"
	"verif/harness/refcbor"
)

type msg struct {
	KeyLen int   `json:"keylen"` // total key length "mod:name"
	KeyID  int   `json:"keyid"`  // distinguishes keys of equal length
	ValLen int   `json:"vallen"`
	Writes []int `json:"writes"` // split points (sizes of successive writes; remainder goes last)
	Yield  bool  `json:"yield"`  // ForceNewMessage before this message
}

type chunkDesc struct {
	MTU      int   `json:"mtu"` // size budget of each batch (what ReadChunk gets initially)
	Buffered bool  `json:"buffered"`
	Msgs     []msg `json:"msgs"`
	Sched    int   `json:"sched"` // schedule perturbation seed (0 = none)
	TailYld  bool  `json:"tail_yield"`
}

func keyOf(m msg) string {
	// "mNNN:xxxx" with exact total length KeyLen (≥ 3)
	mod := fmt.Sprintf("m%d", m.KeyID)
	n := m.KeyLen - len(mod) - 1
	if n < 1 {
		mod = mod[:max(1, m.KeyLen-2)]
		n = m.KeyLen - len(mod) - 1
	}
	return mod + ":" + strings.Repeat("k", n)
}

func valOf(i int, m msg) []byte {
	b := make([]byte, m.ValLen)
	for j := range b {
		b[j] = byte(i*31 + j*7 + j>>8)
	}
	return b
}

func kvEncodedSize(kv *serviceinfo.KV) int {
	return len(refcbor.Encode(refcbor.A(refcbor.T(kv.Key), refcbor.B(kv.Val))))
}

type perturb struct{ s uint64 }

func (p *perturb) point() {
	if p.s == 0 {
		return
	}
	p.s = p.s*6364136223846793005 + 1442695040888963407
	switch (p.s >> 33) % 8 {
	case 0, 1:
		runtime.Gosched()
	case 2:
		time.Sleep(time.Duration((p.s>>40)%50) * time.Microsecond)
	}
}

type batchRec struct {
	kvs []*serviceinfo.KV
}

func evalChunk(d chunkDesc) ev.Result {
	var res ev.Result
	done := make(chan struct{})
	go func() {
		defer close(done)
		key, msgTxt, ok := ev.Guard(func() { res = runChunk(d) })
		if !ok {
			res = ev.Failf(key, "%s", msgTxt)
		}
	}()
	select {
	case <-done:
		return res
	case <-time.After(8 * time.Second):
		return ev.Failf("hang", "chunking pipeline made no progress for 8 s (mtu %d, %d messages, buffered %v)", d.MTU, len(d.Msgs), d.Buffered)
	}
}

func runChunk(d chunkDesc) ev.Result {
	if d.MTU < 16 || len(d.Msgs) == 0 {
		return ev.Result{Skip: true}
	}
	buffers := 0
	if d.Buffered {
		buffers = 1000
	}
	reader, writer := serviceinfo.NewChunkOutPipe(buffers)
	pp, pc := &perturb{uint64(d.Sched)}, &perturb{uint64(d.Sched) * 7919}

	// model
	type kvm struct {
		key string
		val []byte
	}
	var model []kvm
	for i, m := range d.Msgs {
		k, v := keyOf(m), valOf(i, m)
		if len(model) > 0 && model[len(model)-1].key == k && !m.Yield {
			model[len(model)-1].val = append(model[len(model)-1].val, v...)
			continue
		}
		if len(model) > 0 && model[len(model)-1].key == k {
			// same key after a yield: reassembly by key still concatenates
			model[len(model)-1].val = append(model[len(model)-1].val, v...)
			continue
		}
		model = append(model, kvm{k, v})
	}

	// producer
	prodErr := make(chan error, 1)
	var scratch []byte
	go func() {
		var err error
		defer func() { prodErr <- err }()
		for i, m := range d.Msgs {
			if m.Yield {
				pp.point()
				if err = writer.ForceNewMessage(); err != nil {
					err = fmt.Errorf("ForceNewMessage before message %d: %w", i, err)
					return
				}
			}
			k := keyOf(m)
			mod, name, _ := strings.Cut(k, ":")
			pp.point()
			if err = writer.NextServiceInfo(mod, name); err != nil {
				err = fmt.Errorf("NextServiceInfo(%q) for message %d: %w", k, i, err)
				return
			}
			v := valOf(i, m)
			// the producer writes from one buffer that it reuses straight after every Write
			// (as io.Copy does): a Writer must not retain the slice it is given
			for _, w := range m.Writes {
				if w <= 0 || w >= len(v) {
					continue
				}
				pp.point()
				if _, err = writer.Write(scribbled(&scratch, v[:w])); err != nil {
					err = fmt.Errorf("Write for message %d (%q): %w", i, k, err)
					return
				}
				scribble(scratch)
				v = v[w:]
			}
			pp.point()
			if _, err = writer.Write(scribbled(&scratch, v)); err != nil {
				err = fmt.Errorf("Write for message %d (%q): %w", i, k, err)
				return
			}
			scribble(scratch)
		}
		if d.TailYld {
			if err = writer.ForceNewMessage(); err != nil {
				return
			}
		}
		err = writer.Close()
	}()

	// consumer: pack batches exactly as the documented contract says
	var batches []batchRec
	var consErr error
	multiChunk, boundaryInside := false, false
	for rounds := 0; ; rounds++ {
		if rounds > 100000 {
			consErr = errors.New("more than 100000 batches")
			break
		}
		maxRead := uint16(d.MTU)
		var b batchRec
		eof := false
		for {
			pc.point()
			kv, err := reader.ReadChunk(maxRead)
			if errors.Is(err, io.EOF) {
				eof = true
				break
			}
			if errors.Is(err, serviceinfo.ErrSizeTooSmall) {
				break
			}
			if err != nil {
				consErr = fmt.Errorf("ReadChunk(%d): %w", maxRead, err)
				eof = true
				break
			}
			if sz := kvEncodedSize(kv); sz > int(maxRead) {
				_ = reader.Close()
				return ev.Failf("chunk-exceeds-size", "ReadChunk(%d) returned a KV of encoded size %d (key %q, %d value bytes)", maxRead, sz, kv.Key, len(kv.Val))
			}
			if int(kv.Size()) > int(maxRead) {
				_ = reader.Close()
				return ev.Failf("chunk-exceeds-size", "ReadChunk(%d) returned a KV with Size() %d", maxRead, kv.Size())
			}
			maxRead -= kv.Size()
			b.kvs = append(b.kvs, kv)
		}
		batches = append(batches, b)
		if eof {
			break
		}
	}
	_ = reader.Close()
	var perr error
	select {
	case perr = <-prodErr:
	case <-time.After(5 * time.Second):
		perr = errors.New("producer still blocked 5 s after the consumer finished")
	}
	if consErr != nil {
		return ev.Failf("consumer-error", "mtu %d buffered %v msgs %v: %v (producer: %v)", d.MTU, d.Buffered, brief(d), consErr, perr)
	}
	if perr != nil {
		return ev.Failf("producer-error", "mtu %d buffered %v msgs %v: %v", d.MTU, d.Buffered, brief(d), perr)
	}

	// batch budgets (real encoded sizes)
	var all []*serviceinfo.KV
	batchOf := []int{}
	for bi, b := range batches {
		sum := 0
		for _, kv := range b.kvs {
			sum += kvEncodedSize(kv)
			all = append(all, kv)
			batchOf = append(batchOf, bi)
			if len(kv.Val) == 0 {
				return ev.Failf("empty-chunk", "batch %d contains a KV with an empty value (key %q)", bi, kv.Key)
			}
		}
		if sum > d.MTU {
			return ev.Failf("batch-exceeds-budget", "batch %d carries %d encoded bytes, budget %d (mtu %d msgs %v)", bi, sum, d.MTU, d.MTU, brief(d))
		}
	}

	// reassembly
	unchunked, cw := serviceinfo.NewChunkInPipe(len(all) + 1)
	for _, kv := range all {
		if err := cw.WriteChunk(kv); err != nil {
			return ev.Failf("reassembly-write", "WriteChunk: %v", err)
		}
	}
	if err := cw.Close(); err != nil {
		return ev.Failf("reassembly-close", "Close: %v", err)
	}
	var got []kvm
	for {
		k, body, ok := unchunked.NextServiceInfo()
		if !ok {
			break
		}
		v, err := io.ReadAll(body)
		if err != nil {
			return ev.Failf("reassembly-read", "reading body of %q: %v", k, err)
		}
		got = append(got, kvm{k, v})
	}
	if len(got) != len(model) {
		return ev.Failf("lossy", "reassembled %d messages, sent %d (mtu %d buffered %v msgs %v); got keys %v", len(got), len(model), d.MTU, d.Buffered, brief(d), keysOf(got, func(k kvm) string { return k.key }))
	}
	for i := range model {
		if got[i].key != model[i].key {
			return ev.Failf("lossy", "message %d: key %q, want %q (mtu %d msgs %v)", i, got[i].key, model[i].key, d.MTU, brief(d))
		}
		if !bytes.Equal(got[i].val, model[i].val) {
			return ev.Failf("lossy", "message %d (%q): %d value bytes, want %d; first difference at %d (mtu %d msgs %v)", i, got[i].key, len(got[i].val), len(model[i].val), firstDiff(got[i].val, model[i].val), d.MTU, brief(d))
		}
	}

	// yields start a new batch: map message boundaries onto KV indices by length
	kvIdx, off := 0, 0
	lastKVofPrev := -1
	for i, m := range d.Msgs {
		need := m.ValLen
		firstKV := kvIdx
		for need > 0 && kvIdx < len(all) {
			avail := len(all[kvIdx].Val) - off
			if avail > need {
				off += need
				need = 0
			} else {
				need -= avail
				kvIdx++
				off = 0
			}
		}
		last := kvIdx - 1
		if off > 0 {
			last = kvIdx
		}
		if last > firstKV {
			multiChunk = true
		}
		if i > 0 && m.Yield && lastKVofPrev >= 0 && firstKV < len(batchOf) && batchOf[lastKVofPrev] >= batchOf[firstKV] {
			return ev.Failf("yield-no-new-batch", "message %d follows a yield but its first chunk shares batch %d with the previous message (mtu %d msgs %v)", i, batchOf[firstKV], d.MTU, brief(d))
		}
		lastKVofPrev = last
	}
	if len(batches) > 1 {
		boundaryInside = true
	}
	res := ev.Result{Class: "single-batch"}
	if multiChunk || boundaryInside {
		res = ev.OK("multi-batch")
		if multiChunk {
			res.Class = "value-spans-chunks"
		}
	}
	return res
}

func brief(d chunkDesc) string {
	var sb strings.Builder
	for i, m := range d.Msgs {
		if i > 0 {
			sb.WriteByte(' ')
		}
		if m.Yield {
			sb.WriteString("Y,")
		}
		fmt.Fprintf(&sb, "k%d/v%d", m.KeyLen, m.ValLen)
		if i > 12 {
			sb.WriteString(" …")
			break
		}
	}
	return sb.String()
}

func keysOf[T any](s []T, f func(T) string) []string {
	var out []string
	for _, x := range s {
		out = append(out, f(x))
	}
	return out
}

func firstDiff(a, b []byte) int {
	for i := 0; i < len(a) && i < len(b); i++ {
		if a[i] != b[i] {
			return i
		}
	}
	return min(len(a), len(b))
}

func genChunk(t *rapid.T) chunkDesc {
	d := chunkDesc{
		MTU:      rapid.SampledFrom([]int{256, 257, 300, 512, 1024, 1295, 1300, 2048, 4096, 65530, 65535}).Draw(t, "mtu"),
		Buffered: rapid.Bool().Draw(t, "buffered"),
		TailYld:  rapid.IntRange(0, 9).Draw(t, "tailyield") == 0,
	}
	if rapid.Bool().Draw(t, "anymtu") {
		d.MTU = rapid.IntRange(256, 3000).Draw(t, "mtu2")
	}
	if rapid.Bool().Draw(t, "sched") {
		d.Sched = rapid.IntRange(1, 1<<20).Draw(t, "schedseed")
	}
	n := rapid.IntRange(1, 8).Draw(t, "nmsgs")
	for i := 0; i < n; i++ {
		m := msg{KeyLen: rapid.IntRange(3, 80).Draw(t, "keylen"), KeyID: rapid.IntRange(0, 3).Draw(t, "keyid")}
		switch rapid.IntRange(0, 4).Draw(t, "vcls") {
		case 0:
			m.ValLen = rapid.IntRange(1, 30).Draw(t, "vsmall")
		case 1:
			m.ValLen = rapid.IntRange(1, d.MTU).Draw(t, "vmid")
		case 2: // around the budget
			m.ValLen = max(1, d.MTU-rapid.IntRange(0, 120).Draw(t, "vnear"))
		case 3:
			m.ValLen = min(200000, d.MTU*rapid.IntRange(1, 4).Draw(t, "vmul")+rapid.IntRange(-40, 40).Draw(t, "vadd"))
			if m.ValLen < 1 {
				m.ValLen = 1
			}
		default:
			m.ValLen = rapid.SampledFrom([]int{1, 22, 23, 24, 25, 254, 255, 256, 257}).Draw(t, "vb")
		}
		for j := 0; j < rapid.IntRange(0, 3).Draw(t, "nwrites"); j++ {
			m.Writes = append(m.Writes, rapid.IntRange(1, max(1, m.ValLen)).Draw(t, "w"))
		}
		if i > 0 {
			m.Yield = rapid.IntRange(0, 4).Draw(t, "yield") == 0
		}
		d.Msgs = append(d.Msgs, m)
	}
	return d
}

// remainderCase builds the two-message script in which the budget left after
// the first message is exactly r, followed by a message with a key of length kl.
func remainderCase(mtu, r, kl1, kl2 int, buffered bool) (chunkDesc, bool) {
	// KV size = 1 + enc(key) + enc(val)
	encLen := func(n int) int {
		switch {
		case n < 24:
			return 1 + n
		case n < 256:
			return 2 + n
		case n < 65536:
			return 3 + n
		}
		return 5 + n
	}
	target := mtu - r // size of first KV
	for v := 1; v < mtu; v++ {
		if 1+encLen(kl1)+encLen(v) == target {
			return chunkDesc{MTU: mtu, Buffered: buffered, Msgs: []msg{{KeyLen: kl1, KeyID: 1, ValLen: v}, {KeyLen: kl2, KeyID: 2, ValLen: 37}}}, true
		}
	}
	return chunkDesc{}, false
}

// scribbled copies p into the producer's reusable buffer; scribble overwrites that buffer.
func scribbled(scratch *[]byte, p []byte) []byte {
	*scratch = append((*scratch)[:0], p...)
	return *scratch
}

func scribble(b []byte) {
	for i := range b {
		b[i] = ^b[i]
	}
}

func TestC15(t *testing.T) {
	r := ev.Start(t, "C15")
	defer r.Finish()
	r.SetRule("pipeline", "rapid-generated scripts: 1..8 messages (key length 3..80, value length 1..4 MTU incl. head boundaries 23/24/255/256 and sizes within 120 bytes of the budget, value split into 1..4 writes, yields between messages and at the end), budget 256..65535, buffered/unbuffered pipes, seeded Gosched/sleep perturbation of producer and consumer; the consumer packs batches as documented (ReadChunk(remaining) until ErrSizeTooSmall/EOF, subtract KV.Size()). Oracle: no error on either side, no hang (8 s watchdog), every KV's reference-encoded size and Size() ≤ the size it was read with, every batch's encoded size ≤ budget, no empty chunk, reassembly through ChunkWriter/UnchunkReader yields exactly the model list (consecutive equal keys concatenated), first chunk after a yield is in a later batch. Non-trivial: a value spans >1 chunk or the list spans >1 batch; distinct by descriptor.")
	ev.Rapid(r, "pipeline", ev.N{Quick: 24000, Thorough: 600000}, genChunk, evalChunk)

	r.SetRule("remainder-sweep", "exhaustive: budget ∈ {256,1295,4000} × remainder r = 0..60 left after the first message × first key length {5,23,24} × second key length {3,10,24,40,80} × buffered/unbuffered: the first message is sized so that exactly r bytes of budget remain when the second message's key is read; same oracle. All non-trivial.")
	ev.Enum(r, "remainder-sweep", true, func(yield func(chunkDesc) bool) {
		i := 0
		for _, mtu := range []int{256, 1295, 4000} {
			for rem := 0; rem <= 60; rem++ {
				for _, kl1 := range []int{5, 23, 24} {
					for _, kl2 := range []int{3, 10, 24, 40, 80} {
						for _, buf := range []bool{true, false} {
							i++
							if !r.Mine(i) {
								continue
							}
							d, ok := remainderCase(mtu, rem, kl1, kl2, buf)
							if !ok {
								continue
							}
							if !yield(d) {
								return
							}
						}
					}
				}
			}
		}
	}, func(d chunkDesc) ev.Result {
		res := evalChunk(d)
		if res.Fail == "" {
			res.NonTrivial = true
			res.Class = "remainder"
		}
		return res
	})
	ev.CheckWitness(r, "pipeline", evalChunk)
	ev.CheckWitness(r, "remainder-sweep", evalChunk)
}
