//go:build verif

// C18 — SQLite server state is a faithful, session-isolated store across restarts.
package c18

import (
	"bytes"
	"context"
	"crypto/rand"
	"crypto/rsa"
	"crypto/x509"
	"encoding"
	"errors"
	"fmt"
	"os"
	"path/filepath"
	"strings"
	"sync"
	"testing"
	"time"

	fdo "github.com/fido-device-onboard/go-fdo"
	"github.com/fido-device-onboard/go-fdo/cbor"
	"github.com/fido-device-onboard/go-fdo/cose"
	"github.com/fido-device-onboard/go-fdo/kex"
	"github.com/fido-device-onboard/go-fdo/protocol"
	"github.com/fido-device-onboard/go-fdo/serviceinfo"
	"github.com/fido-device-onboard/go-fdo/sqlite"
	"pgregory.net/rapid"

	"verif/harness/deploy"
	"verif/harness/ev"
	"verif/harness/keys"
)

// ---------------------------------------------------------------------------
// value pools (built once per process)
// ---------------------------------------------------------------------------

type xsess struct {
	suite  kex.Suite
	cipher kex.CipherSuiteID
	stage  int
	state  []byte      // MarshalBinary of the owner-side session at that stage
	xB     []byte      // device parameter (stage 1: to be applied after reading back)
	device kex.Session // the device's side (stages 1, 2)
}

type pools struct {
	vouchers []*fdo.Voucher // distinct GUIDs, 0..3 entries
	fresh    []*fdo.Voucher // zero entries (valid ReplaceVoucher arguments)
	to1ds    []*cose.Sign1[protocol.To1d, []byte]
	chains   [][]*x509.Certificate
	sessions []xsess
}

var (
	poolOnce sync.Once
	pool     pools
	poolErr  error
)

var suites = []struct {
	suite  string
	cipher string
	rsaK   string
}{
	{"ECDH256", "A128GCM", ""}, {"ECDH384", "COSEAES256CBC", ""}, {"DHKEXid14", "COSEAES128CTR", ""}, {"DHKEXid15", "A256GCM", ""},
	{"ASYMKEX2048", "COSEAES128CBC", "rsa2048"}, {"ASYMKEX3072", "COSEAES256CTR", "rsa3072"}, {"ECDH256", "COSEAES256CBC", ""},
}

func buildPools() {
	ctx := context.Background()
	// vouchers and to1d blobs from real DI / TO0 runs on the in-memory backend
	for i, cfg := range []deploy.Config{
		{Key: "P-256", Enc: "x509", Kex: "ECDH256", Cipher: "A128GCM"},
		{Key: "P-384", Enc: "x5chain", Kex: "ECDH384", Cipher: "A256GCM"},
		{Key: "RSA2048RESTR", Enc: "x509", Kex: "DHKEXid14", Cipher: "A128GCM"},
		{Key: "P-256", Enc: "cose", Kex: "ECDH256", Cipher: "A128GCM"},
	} {
		for k := 0; k < 3; k++ {
			mfg, owner, rv := deploy.NewMemService("mfg", deploy.KeyMfg), deploy.NewMemService("owner", deploy.KeyOwner1), deploy.NewMemService("rv", deploy.KeyStranger)
			dev := deploy.NewDevice(cfg, deploy.KeyDevice)
			if err := dev.DI(ctx, deploy.NewLink(mfg)); err != nil {
				poolErr = fmt.Errorf("pool DI %d: %w", i, err)
				return
			}
			ov, err := mfg.State.Voucher(ctx, dev.Cred.GUID)
			if err != nil {
				poolErr = err
				return
			}
			pool.fresh = append(pool.fresh, ov)
			if k == 0 {
				pool.vouchers = append(pool.vouchers, ov)
				continue
			}
			x, err := deploy.TransferVoucher(ctx, cfg, mfg, deploy.KeyMfg, owner, deploy.KeyOwner1, dev.Cred.GUID)
			if err != nil {
				poolErr = fmt.Errorf("pool transfer: %w", err)
				return
			}
			if _, err := deploy.RegisterTO0(ctx, owner, deploy.NewLink(rv), dev.Cred.GUID, deploy.DefaultAddrs(), 3600); err != nil {
				poolErr = fmt.Errorf("pool TO0: %w", err)
				return
			}
			to1d, _, err := rv.State.RVBlob(ctx, dev.Cred.GUID)
			if err != nil {
				poolErr = err
				return
			}
			pool.to1ds = append(pool.to1ds, to1d)
			if k == 2 {
				if x2, err := deploy.Extend(x, keys.Get(cfg.Kind(), deploy.KeyOwner1), deploy.OwnerPublic(cfg, deploy.KeyOwner2), nil); err == nil {
					x = x2
				}
			}
			pool.vouchers = append(pool.vouchers, x)
		}
	}
	for _, k := range keys.Kinds {
		pool.chains = append(pool.chains, keys.SelfSigned(keys.Get(k, deploy.KeyDevice), "dev-"+k), keys.Chain(keys.Get(k, deploy.KeyDevice2).Public(), "dev2-"+k, keys.Get("ec384", 7)))
	}
	// key exchange sessions of every family at every stage
	for _, s := range suites {
		suite := kex.Suite(s.suite)
		cipher, ok := kex.CipherSuiteByName(s.cipher)
		if !ok {
			poolErr = fmt.Errorf("cipher %s", s.cipher)
			return
		}
		var priv *rsa.PrivateKey
		var pub *rsa.PublicKey
		if s.rsaK != "" {
			priv = keys.Get(s.rsaK, deploy.KeyOwner1).(*rsa.PrivateKey)
			pub = &priv.PublicKey
		}
		marshal := func(x kex.Session) []byte {
			b, err := x.(encoding.BinaryMarshaler).MarshalBinary()
			if err != nil {
				panic(err)
			}
			return b
		}
		owner := suite.New(nil, cipher)
		pool.sessions = append(pool.sessions, xsess{suite: suite, cipher: cipher, stage: 0, state: marshal(owner)})
		xA, err := owner.Parameter(rand.Reader, pub)
		if err != nil {
			poolErr = fmt.Errorf("%s Parameter: %w", s.suite, err)
			return
		}
		device := suite.New(bytes.Clone(xA), cipher)
		xB, err := device.Parameter(rand.Reader, pub)
		if err != nil {
			poolErr = fmt.Errorf("%s device Parameter: %w", s.suite, err)
			return
		}
		pool.sessions = append(pool.sessions, xsess{suite: suite, cipher: cipher, stage: 1, state: marshal(owner), xB: xB, device: device})
		if err := owner.SetParameter(bytes.Clone(xB), priv); err != nil {
			poolErr = fmt.Errorf("%s SetParameter: %w", s.suite, err)
			return
		}
		pool.sessions = append(pool.sessions, xsess{suite: suite, cipher: cipher, stage: 2, state: marshal(owner), device: device})
	}
}

func rsaKeyFor(s kex.Suite) *rsa.PrivateKey {
	switch s {
	case kex.ASYMKEX2048Suite:
		return keys.Get("rsa2048", deploy.KeyOwner1).(*rsa.PrivateKey)
	case kex.ASYMKEX3072Suite:
		return keys.Get("rsa3072", deploy.KeyOwner1).(*rsa.PrivateKey)
	}
	return nil
}

// ---------------------------------------------------------------------------
// descriptor: a history of operations
// ---------------------------------------------------------------------------

type op struct {
	Kind  string `json:"k"`           // see run()
	Slot  int    `json:"s,omitempty"` // token slot (mod number of slots)
	Field int    `json:"f,omitempty"` // field (mod number of fields of the slot's protocol)
	V     int    `json:"v,omitempty"` // value variant
	Bad   int    `json:"bad,omitempty"`
}

type history struct {
	Ops []op `json:"ops"`
}

var protos = []protocol.Protocol{protocol.DIProtocol, protocol.TO0Protocol, protocol.TO1Protocol, protocol.TO2Protocol}

// fields per protocol
var fieldsOf = map[protocol.Protocol][]string{
	protocol.DIProtocol:  {"certchain", "ovh"},
	protocol.TO0Protocol: {"to0nonce"},
	protocol.TO1Protocol: {"to1nonce"},
	protocol.TO2Protocol: {"guid", "rvinfo", "replguid", "replhmac", "xsession", "provenonce", "setupnonce", "mtu", "devmod"},
}

var setOnce = map[string]bool{"certchain": true, "ovh": true}

func patt(seed, n int) []byte {
	b := make([]byte, n)
	x := uint32(seed)*2654435761 + 99
	for i := range b {
		x ^= x << 13
		x ^= x >> 17
		x ^= x << 5
		b[i] = byte(x)
	}
	return b
}

func rvInfoVariant(v int) [][]protocol.RvInstruction {
	switch v % 5 {
	case 0:
		return nil
	case 1:
		return [][]protocol.RvInstruction{}
	case 2:
		return [][]protocol.RvInstruction{{{Variable: protocol.RVDns, Value: mustCBOR("rv.example")}, {Variable: protocol.RVDevPort, Value: mustCBOR(8080)}}}
	case 3:
		return [][]protocol.RvInstruction{{}, {{Variable: protocol.RVBypass}}}
	}
	var out [][]protocol.RvInstruction
	for i := 0; i < 40; i++ {
		out = append(out, []protocol.RvInstruction{{Variable: protocol.RVDns, Value: mustCBOR(strings.Repeat("h", 200) + fmt.Sprint(i, v))}, {Variable: protocol.RVIPAddress, Value: mustCBOR([]byte{10, 0, byte(i), byte(v)})}, {Variable: protocol.RVDelaysec, Value: mustCBOR(uint32(v))}})
	}
	return out
}

func mustCBOR(v any) []byte {
	b, err := cbor.Marshal(v)
	if err != nil {
		panic(err)
	}
	return b
}

func devmodVariant(v int) (serviceinfo.Devmod, []string, bool) {
	d := serviceinfo.Devmod{Os: "linux", Arch: "amd64", Version: fmt.Sprint("v", v), Device: "dev", FileSep: ";", Bin: "amd64"}
	if v%2 == 1 {
		d.Serial, d.PathSep, d.Newline, d.Temp, d.Dir, d.ProgEnv, d.MudURL = patt(v, 9), "/", "\r\n", "/tmp", "/opt", "bin:py3", "https://mud.example/"+fmt.Sprint(v)
	}
	var mods []string
	switch (v / 2) % 4 {
	case 1:
		mods = []string{}
	case 2:
		mods = []string{"devmod", "fdo.download", fmt.Sprint("m", v)}
	case 3:
		for i := 0; i < 300; i++ {
			mods = append(mods, fmt.Sprintf("module-%d-%d", v, i))
		}
	}
	return d, mods, (v/8)%2 == 1
}

var mtus = []uint16{0, 1, 256, 1300, 32767, 32768, 40000, 65535}

// ---------------------------------------------------------------------------
// model
// ---------------------------------------------------------------------------

type slot struct {
	proto  protocol.Protocol
	token  string
	live   bool
	fields map[string][]byte // encoded expected values
	xs     *xsess
}

type world struct {
	path  string
	db    *sqlite.DB
	slots []*slot
	vouch map[protocol.GUID][]byte
	blobs map[protocol.GUID]struct {
		to1d, ov []byte
		expired  bool
	}
	foreign  string // a token issued by another database
	nReopen  int
	nBad     int
	nChecked int
}

func (w *world) ctx(tok string) context.Context {
	return w.db.TokenContext(context.Background(), tok)
}

func enc(v any) []byte { return mustCBOR(v) }

// get reads a field through the real store and returns its encoded value.
func (w *world) get(ctx context.Context, s *slot, f string) ([]byte, error) {
	switch f {
	case "certchain":
		c, err := w.db.DeviceCertChain(ctx)
		if err != nil {
			return nil, err
		}
		var raw []byte
		for _, x := range c {
			raw = append(raw, x.Raw...)
		}
		return raw, nil
	case "ovh":
		h, err := w.db.IncompleteVoucherHeader(ctx)
		if err != nil {
			return nil, err
		}
		return enc(h), nil
	case "to0nonce":
		n, err := w.db.TO0SignNonce(ctx)
		return n[:], err
	case "to1nonce":
		n, err := w.db.TO1ProofNonce(ctx)
		return n[:], err
	case "guid":
		g, err := w.db.GUID(ctx)
		return g[:], err
	case "replguid":
		g, err := w.db.ReplacementGUID(ctx)
		return g[:], err
	case "rvinfo":
		r, err := w.db.RvInfo(ctx)
		if err != nil {
			return nil, err
		}
		if len(r) == 0 {
			return []byte("empty"), nil
		}
		return enc(r), nil
	case "replhmac":
		h, err := w.db.ReplacementHmac(ctx)
		if err != nil {
			return nil, err
		}
		return enc(h), nil
	case "provenonce":
		n, err := w.db.ProveDeviceNonce(ctx)
		return n[:], err
	case "setupnonce":
		n, err := w.db.SetupDeviceNonce(ctx)
		return n[:], err
	case "mtu":
		m, err := w.db.MTU(ctx)
		return []byte(fmt.Sprint(m)), err
	case "devmod":
		d, m, c, err := w.db.Devmod(ctx)
		if err != nil {
			return nil, err
		}
		return []byte(fmt.Sprintf("%+v|%q|%v", d, m, c)), nil
	case "xsession":
		suite, sess, err := w.db.XSession(ctx)
		if err != nil {
			return nil, err
		}
		b, err := sess.(encoding.BinaryMarshaler).MarshalBinary()
		if err != nil {
			return nil, err
		}
		// a restored session must also work: finish the exchange and talk to the device side
		if s != nil && s.xs != nil && s.xs.stage >= 1 {
			if s.xs.stage == 1 {
				if err := sess.SetParameter(bytes.Clone(s.xs.xB), rsaKeyFor(suite)); err != nil {
					return nil, fmt.Errorf("restored %s session cannot complete the exchange: %w", suite, err)
				}
			}
			msg, err := sess.Encrypt(rand.Reader, []byte("probe"))
			if err != nil {
				return nil, fmt.Errorf("restored %s session cannot encrypt: %w", suite, err)
			}
			wire, _ := cbor.Marshal(msg)
			pt, err := s.xs.device.Decrypt(rand.Reader, bytes.NewReader(wire))
			if err != nil {
				return nil, fmt.Errorf("device cannot open a message of the restored %s session: %w", suite, err)
			}
			var got []byte
			if err := cbor.Unmarshal(pt, &got); err != nil || string(got) != "probe" {
				return nil, fmt.Errorf("restored %s session: plaintext differs", suite)
			}
		}
		return append([]byte(string(suite)+"|"), b...), nil
	}
	panic("field " + f)
}

// set writes variant v of a field; it returns the encoded expected value.
func (w *world) set(ctx context.Context, s *slot, f string, v int) ([]byte, *xsess, error) {
	var g protocol.GUID
	copy(g[:], patt(v+7, 16))
	var n protocol.Nonce
	copy(n[:], patt(v+13, 16))
	switch f {
	case "certchain":
		c := pool.chains[v%len(pool.chains)]
		var raw []byte
		for _, x := range c {
			raw = append(raw, x.Raw...)
		}
		return raw, nil, w.db.SetDeviceCertChain(ctx, c)
	case "ovh":
		h := pool.vouchers[v%len(pool.vouchers)].Header.Val
		return enc(&h), nil, w.db.SetIncompleteVoucherHeader(ctx, &h)
	case "to0nonce":
		return n[:], nil, w.db.SetTO0SignNonce(ctx, n)
	case "to1nonce":
		return n[:], nil, w.db.SetTO1ProofNonce(ctx, n)
	case "guid":
		return g[:], nil, w.db.SetGUID(ctx, g)
	case "replguid":
		return g[:], nil, w.db.SetReplacementGUID(ctx, g)
	case "rvinfo":
		r := rvInfoVariant(v)
		e := enc(r)
		if len(r) == 0 {
			e = []byte("empty")
		}
		return e, nil, w.db.SetRvInfo(ctx, r)
	case "replhmac":
		h := protocol.Hmac{Algorithm: protocol.HmacSha256Hash, Value: patt(v, 32)}
		if v%2 == 1 {
			h = protocol.Hmac{Algorithm: protocol.HmacSha384Hash, Value: patt(v, 48)}
		}
		return enc(h), nil, w.db.SetReplacementHmac(ctx, h)
	case "provenonce":
		return n[:], nil, w.db.SetProveDeviceNonce(ctx, n)
	case "setupnonce":
		return n[:], nil, w.db.SetSetupDeviceNonce(ctx, n)
	case "mtu":
		m := mtus[v%len(mtus)]
		return []byte(fmt.Sprint(m)), nil, w.db.SetMTU(ctx, m)
	case "devmod":
		d, m, c := devmodVariant(v)
		return []byte(fmt.Sprintf("%+v|%q|%v", d, m, c)), nil, w.db.SetDevmod(ctx, d, m, c)
	case "xsession":
		xs := &pool.sessions[v%len(pool.sessions)]
		sess := xs.suite.New(nil, xs.cipher)
		if err := sess.(encoding.BinaryUnmarshaler).UnmarshalBinary(xs.state); err != nil {
			panic(err)
		}
		return append([]byte(string(xs.suite)+"|"), xs.state...), xs, w.db.SetXSession(ctx, xs.suite, sess)
	}
	panic("field " + f)
}

func (w *world) badToken(s *slot, kind int) (string, string) {
	t := s.token
	switch kind % 8 {
	case 0:
		return "", "empty"
	case 1:
		return "AAAA", "short-garbage"
	case 2:
		return t[:len(t)/2], "truncated-half"
	case 3:
		return t[:len(t)-1], "truncated-1"
	case 4:
		b := []byte(t)
		i := (kind / 8) % len(b)
		if b[i] == 'A' {
			b[i] = 'B'
		} else {
			b[i] = 'A'
		}
		return string(b), "one-char-changed"
	case 5:
		return w.foreign, "foreign-database"
	case 6:
		return t + "A", "extended"
	}
	return strings.Repeat("A", len(t)), "same-length-garbage"
}

func notFound(err error) bool { return errors.Is(err, fdo.ErrNotFound) }

// checkSlot compares every field of a slot with the model.
func (w *world) checkSlot(s *slot, where string) *ev.Result {
	ctx := w.ctx(s.token)
	for _, f := range fieldsOf[s.proto] {
		got, err := w.get(ctx, s, f)
		w.nChecked++
		want, has := s.fields[f]
		switch {
		case !s.live:
			if err == nil {
				r := ev.Failf("invalidated-token-reads:"+f, "%s: %s read through an invalidated %v token returned a value", where, f, s.proto)
				return &r
			}
		case !has:
			if err == nil {
				r := ev.Failf("phantom-value:"+f, "%s: %s was never stored for this %v session but a read returned %x", where, f, s.proto, got[:min(len(got), 24)])
				return &r
			}
			if !notFound(err) {
				r := ev.Failf("unset-not-notfound:"+f, "%s: %s was never stored; the read failed with %v instead of ErrNotFound", where, f, err)
				return &r
			}
		case err != nil:
			r := ev.Failf("lost-value:"+f, "%s: stored %s cannot be read back: %v", where, f, err)
			return &r
		case !bytes.Equal(got, want):
			r := ev.Failf("wrong-value:"+f, "%s: %s read back differs from what was stored for this token\n got  %.120q\n want %.120q", where, f, got, want)
			return &r
		}
	}
	return nil
}

func (w *world) checkAll(where string) *ev.Result {
	for _, s := range w.slots {
		if r := w.checkSlot(s, where); r != nil {
			return r
		}
	}
	ctx := context.Background()
	for _, ov := range append(append([]*fdo.Voucher{}, pool.vouchers...), pool.fresh...) {
		g := ov.Header.Val.GUID
		got, err := w.db.Voucher(ctx, g)
		want, has := w.vouch[g]
		switch {
		case !has && err == nil:
			r := ev.Failf("phantom-voucher", "%s: voucher %x is not in the store according to the history but Voucher() returned one", where, g[:4])
			return &r
		case !has && !notFound(err):
			r := ev.Failf("voucher-error", "%s: Voucher(%x) for an absent voucher: %v", where, g[:4], err)
			return &r
		case has && err != nil:
			r := ev.Failf("lost-voucher", "%s: voucher %x cannot be read: %v", where, g[:4], err)
			return &r
		case has && !bytes.Equal(enc(got), want):
			r := ev.Failf("wrong-voucher", "%s: voucher %x differs from what was stored", where, g[:4])
			return &r
		}
		bt, bov, err := w.db.RVBlob(ctx, g)
		b, hasB := w.blobs[g]
		switch {
		case (!hasB || b.expired) && err == nil:
			r := ev.Failf("phantom-rvblob", "%s: RVBlob(%x) returned a blob although none is registered or it has expired (registered=%v)", where, g[:4], hasB)
			return &r
		case (!hasB || b.expired) && !notFound(err):
			r := ev.Failf("rvblob-error", "%s: RVBlob(%x) absent/expired: %v instead of ErrNotFound", where, g[:4], err)
			return &r
		case hasB && !b.expired && err != nil:
			r := ev.Failf("lost-rvblob", "%s: RVBlob(%x): %v", where, g[:4], err)
			return &r
		case hasB && !b.expired && (!bytes.Equal(enc(bt), b.to1d) || !bytes.Equal(enc(bov), b.ov)):
			r := ev.Failf("wrong-rvblob", "%s: RVBlob(%x) differs from what was stored", where, g[:4])
			return &r
		}
	}
	return nil
}

func (w *world) reopen() error {
	if err := w.db.Close(); err != nil {
		return err
	}
	db, err := sqlite.Open(w.path, "")
	if err != nil {
		return err
	}
	w.db = db
	w.nReopen++
	return nil
}

func evalHistory(h history) ev.Result {
	poolOnce.Do(buildPools)
	if poolErr != nil {
		return ev.Failf("setup", "pools: %v", poolErr)
	}
	dir := deploy.ScratchDir()
	defer os.RemoveAll(dir)
	w := &world{path: filepath.Join(dir, "state.db"), vouch: map[protocol.GUID][]byte{}, blobs: map[protocol.GUID]struct {
		to1d, ov []byte
		expired  bool
	}{}}
	var err error
	if w.db, err = sqlite.Open(w.path, ""); err != nil {
		return ev.Failf("setup", "open: %v", err)
	}
	defer func() { _ = w.db.Close() }()
	other, err := sqlite.Open(filepath.Join(dir, "other.db"), "")
	if err != nil {
		return ev.Failf("setup", "open other: %v", err)
	}
	w.foreign, err = other.NewToken(context.Background(), protocol.TO2Protocol)
	_ = other.Close()
	if err != nil {
		return ev.Failf("setup", "foreign token: %v", err)
	}

	for i, o := range h.Ops {
		where := fmt.Sprintf("op #%d %s", i, o.Kind)
		var s *slot
		if len(w.slots) > 0 {
			s = w.slots[((o.Slot%len(w.slots))+len(w.slots))%len(w.slots)]
		}
		v := o.V
		if v < 0 {
			v = -v
		}
		switch o.Kind {
		case "new":
			p := protos[v%len(protos)]
			tok, err := w.db.NewToken(context.Background(), p)
			if err != nil {
				return ev.Failf("newtoken", "%s: %v", where, err)
			}
			for _, old := range w.slots {
				if old.token == tok {
					return ev.Failf("token-reuse", "%s: NewToken returned a token that was issued before", where)
				}
			}
			w.slots = append(w.slots, &slot{proto: p, token: tok, live: true, fields: map[string][]byte{}})
		case "set":
			if s == nil {
				continue
			}
			fs := fieldsOf[s.proto]
			f := fs[((o.Field%len(fs))+len(fs))%len(fs)]
			if s.live && setOnce[f] && s.fields[f] != nil {
				continue // the protocol stores these once per session
			}
			want, xs, err := w.set(w.ctx(s.token), s, f, v)
			if !s.live {
				if err == nil {
					return ev.Failf("invalidated-token-writes:"+f, "%s: writing %s through an invalidated token succeeded", where, f)
				}
				continue
			}
			if err != nil {
				return ev.Failf("set-failed:"+f, "%s: storing %s (variant %d) for a live %v session failed: %v", where, f, v, s.proto, err)
			}
			s.fields[f] = want
			if f == "xsession" {
				s.xs = xs
			}
		case "get":
			if s == nil {
				continue
			}
			if r := w.checkSlot(s, where); r != nil {
				return *r
			}
		case "invalidate":
			if s == nil {
				continue
			}
			err := w.db.InvalidateToken(w.ctx(s.token))
			if s.live && err != nil {
				return ev.Failf("invalidate-failed", "%s: %v", where, err)
			}
			s.live = false
		case "reopen":
			if err := w.reopen(); err != nil {
				return ev.Failf("reopen", "%s: %v", where, err)
			}
			if r := w.checkAll(where + " (after reopening the database file)"); r != nil {
				return *r
			}
		case "bad":
			if s == nil {
				continue
			}
			tok, kind := w.badToken(s, o.Bad)
			if tok == s.token {
				continue
			}
			w.nBad++
			fs := fieldsOf[s.proto]
			f := fs[((o.Field%len(fs))+len(fs))%len(fs)]
			ctx := w.ctx(tok)
			if kind == "empty" {
				ctx = context.Background()
			}
			if got, err := w.get(ctx, nil, f); err == nil {
				return ev.Failf("bad-token-reads:"+kind, "%s: reading %s with a %s token returned %x", where, f, kind, got[:min(len(got), 16)])
			}
			if _, _, err := w.set(ctx, nil, f, v+1); err == nil {
				return ev.Failf("bad-token-writes:"+kind, "%s: writing %s with a %s token succeeded", where, f, kind)
			}
			if err := w.db.InvalidateToken(ctx); err == nil {
				return ev.Failf("bad-token-invalidates:"+kind, "%s: InvalidateToken with a %s token succeeded", where, kind)
			}
			// nothing leaked into the session the token was derived from
			if r := w.checkSlot(s, where+" (after the attempt with a "+kind+" token)"); r != nil {
				return *r
			}
		case "addvoucher":
			ov := pool.vouchers[v%len(pool.vouchers)]
			g := ov.Header.Val.GUID
			err := w.db.AddVoucher(context.Background(), ov)
			if _, has := w.vouch[g]; has {
				if err == nil {
					// a second AddVoucher for the same GUID: either refused or replacing; both leave one voucher
					w.vouch[g] = enc(ov)
				}
				continue
			}
			if err != nil {
				return ev.Failf("addvoucher", "%s: %v", where, err)
			}
			w.vouch[g] = enc(ov)
		case "replacevoucher":
			old := pool.vouchers[v%len(pool.vouchers)].Header.Val.GUID
			nv := pool.fresh[(v/len(pool.vouchers))%len(pool.fresh)]
			ng := nv.Header.Val.GUID
			if old == ng {
				continue // TO2 always replaces with a new GUID
			}
			_, hasOld := w.vouch[old]
			_, hasNew := w.vouch[ng]
			err := w.db.ReplaceVoucher(context.Background(), old, nv)
			switch {
			case hasOld && !hasNew && old != ng:
				if err != nil {
					return ev.Failf("replacevoucher", "%s: replacing a stored voucher failed: %v", where, err)
				}
				delete(w.vouch, old)
				w.vouch[ng] = enc(nv)
			case err == nil && !hasOld:
				return ev.Failf("replace-absent", "%s: ReplaceVoucher for a GUID that is not stored succeeded", where)
			case err == nil:
				// replacement GUID already present (or equal): accept the store's choice if consistent
				delete(w.vouch, old)
				w.vouch[ng] = enc(nv)
			}
		case "removevoucher":
			g := pool.vouchers[v%len(pool.vouchers)].Header.Val.GUID
			if v%3 == 0 {
				g = pool.fresh[v%len(pool.fresh)].Header.Val.GUID
			}
			got, err := w.db.RemoveVoucher(context.Background(), g)
			want, has := w.vouch[g]
			switch {
			case has && err != nil:
				return ev.Failf("removevoucher", "%s: %v", where, err)
			case has && !bytes.Equal(enc(got), want):
				return ev.Failf("wrong-voucher", "%s: RemoveVoucher returned a different voucher", where)
			case !has && err == nil:
				return ev.Failf("phantom-voucher", "%s: RemoveVoucher of an absent voucher returned one", where)
			}
			delete(w.vouch, g)
		case "setblob":
			ov := pool.vouchers[v%len(pool.vouchers)]
			to1d := pool.to1ds[v%len(pool.to1ds)]
			expired := (v/7)%3 == 0
			exp := time.Now().Add(time.Hour)
			if expired {
				exp = time.Now().Add(-time.Duration(2+v%1000) * time.Second)
			}
			if err := w.db.SetRVBlob(context.Background(), ov, to1d, exp); err != nil {
				return ev.Failf("setrvblob", "%s: %v", where, err)
			}
			w.blobs[ov.Header.Val.GUID] = struct {
				to1d, ov []byte
				expired  bool
			}{enc(to1d), enc(ov), expired}
		case "checkall":
			if r := w.checkAll(where); r != nil {
				return *r
			}
		}
	}
	if r := w.checkAll("end of history"); r != nil {
		return *r
	}
	if err := w.reopen(); err != nil {
		return ev.Failf("reopen", "final reopen: %v", err)
	}
	if r := w.checkAll("end of history, after reopening the database file"); r != nil {
		return *r
	}
	live := 0
	for _, s := range w.slots {
		if s.live {
			live++
		}
	}
	res := ev.OK(fmt.Sprintf("tokens=%s reopen=%v bad=%v", bucket(len(w.slots)), w.nReopen > 1, w.nBad > 0))
	res.NonTrivial = len(w.slots) >= 2 && (w.nReopen > 1 || w.nBad > 0)
	return res
}

func bucket(n int) string {
	switch {
	case n < 2:
		return "<2"
	case n < 5:
		return "2-4"
	}
	return "5+"
}

func genHistory(t *rapid.T) history {
	n := rapid.IntRange(5, 60).Draw(t, "n")
	kinds := []string{"new", "new", "set", "set", "set", "set", "set", "set", "get", "get", "invalidate", "reopen", "bad", "bad", "addvoucher", "replacevoucher", "removevoucher", "setblob", "checkall"}
	h := history{Ops: []op{{Kind: "new", V: rapid.IntRange(0, 3).Draw(t, "p0")}, {Kind: "new", V: 3}}}
	for i := 0; i < n; i++ {
		h.Ops = append(h.Ops, op{Kind: rapid.SampledFrom(kinds).Draw(t, "kind"), Slot: rapid.IntRange(0, 7).Draw(t, "slot"), Field: rapid.IntRange(0, 8).Draw(t, "field"), V: rapid.IntRange(0, 400).Draw(t, "v"), Bad: rapid.IntRange(0, 400).Draw(t, "bad")})
	}
	return h
}

// ---------------------------------------------------------------------------
// restarts at every message boundary
// ---------------------------------------------------------------------------

type restartCase struct {
	Cfg     int   `json:"cfg"`
	At      []int `json:"at"`      // request ordinals (over the whole DI→TO0→TO1→TO2 chain) before which the server is rebuilt; -1: before every request
	MTU     int   `json:"mtu"`     // device receive MTU (stored in the session)
	Modules int   `json:"modules"` // extra device modules (devmod size)
	Reuse   bool  `json:"reuse"`   // credential reuse
}

var restartCfgs = []deploy.Config{
	{Key: "P-256", Enc: "x509", Kex: "ECDH256", Cipher: "A128GCM"},
	{Key: "P-384", Enc: "x5chain", Kex: "ECDH384", Cipher: "COSEAES256CBC"},
	{Key: "RSA2048RESTR", Enc: "x509", Kex: "DHKEXid14", Cipher: "COSEAES128CTR"},
	{Key: "RSAPKCS-3072", Enc: "x509", Kex: "DHKEXid15", Cipher: "A256GCM"},
	{Key: "RSAPSS-2048", Enc: "x509", Kex: "ASYMKEX2048", Cipher: "COSEAES256CTR"},
	{Key: "RSAPKCS-3072", Enc: "x5chain", Kex: "ASYMKEX3072", Cipher: "COSEAES128CBC"},
}

func evalRestart(c restartCase) ev.Result {
	cfg := restartCfgs[((c.Cfg%len(restartCfgs))+len(restartCfgs))%len(restartCfgs)]
	ctx, cancel := context.WithTimeout(context.Background(), 120*time.Second)
	defer cancel()
	dir := deploy.ScratchDir()
	defer os.RemoveAll(dir)
	path := filepath.Join(dir, "aio.db")
	svc, db, err := deploy.NewSQLiteService("aio", path, deploy.KeyOwner1, true)
	if err != nil {
		return ev.Failf("setup", "open: %v", err)
	}
	defer func() { _ = db.Close() }()
	sm := svc.Modules
	tr, _ := cbor.Marshal(true)
	var ownerGot []string
	var mu sync.Mutex
	sm.Factory = func(context.Context) []deploy.NamedModule {
		return []deploy.NamedModule{{Name: "probe", Mod: &deploy.ScriptOwnerModule{ModName: "probe", Steps: []deploy.OwnerStep{{Send: []deploy.KVMsg{{Name: "active", Body: tr}}}, {Send: []deploy.KVMsg{{Name: "x", Body: tr}}}, {Done: true}}}}}
	}
	configure := func(s *deploy.Service) {
		s.AutoExtendTo = deploy.OwnerPublic(cfg, deploy.KeyOwner1)
		s.Reuse = c.Reuse
		s.RvInfo = [][]protocol.RvInstruction{{{Variable: protocol.RVDns, Value: mustCBOR("rv.test")}}}
		if _, bits := cfg.KeyType(); bits != 0 {
			s.MfgBits = bits
		}
	}
	configure(svc)
	at := map[int]bool{}
	every := false
	for _, a := range c.At {
		if a < 0 {
			every = true
		}
		at[a] = true
	}
	link := deploy.NewLink(svc)
	nreq, nrestart := 0, 0
	var restartErr error
	link.OnRequest = func(ex *deploy.Exchange) *deploy.Action {
		k := nreq
		nreq++
		if !(every || at[k]) {
			return nil
		}
		// tear the server side down and rebuild everything from the database file
		if err := db.Close(); err != nil {
			restartErr = err
			return nil
		}
		ns, ndb, err := deploy.NewSQLiteService("aio", path, deploy.KeyOwner1, false)
		if err != nil {
			restartErr = err
			return nil
		}
		configure(ns)
		// the module state machine is the application's (in memory, keyed by token); it talks to the new store
		sm.Tokens = ns.State
		ns.Modules = sm
		ns.TO2.Modules = sm
		db, svc = ndb, ns
		link.Svc = ns
		nrestart++
		return nil
	}
	dev := deploy.NewDevice(cfg, deploy.KeyDevice)
	dev.Reuse = c.Reuse
	dev.MTU = uint16(c.MTU)
	rec := &deploy.RecDeviceModule{}
	dev.Modules = map[string]serviceinfo.DeviceModule{"probe": rec}
	for j := 0; j < c.Modules; j++ {
		dev.Modules[fmt.Sprintf("extra-module-%03d", j)] = &deploy.RecDeviceModule{}
	}
	_ = ownerGot
	_ = mu.TryLock
	tag := fmt.Sprintf("%s/%s/%s restarts before requests %v", cfg.Key, cfg.Kex, cfg.Cipher, c.At)
	fail := func(stage string, err error) ev.Result {
		if restartErr != nil {
			return ev.Failf("setup", "%s: rebuilding the server failed: %v", tag, restartErr)
		}
		return ev.Failf("restart-breaks:"+stage, "%s: %s failed after %d requests / %d restarts: %v", tag, stage, nreq, nrestart, err)
	}
	if err := dev.DI(ctx, link); err != nil {
		return fail("DI", err)
	}
	guid0 := dev.Cred.GUID
	// the TO0 client role (owner) keeps its own state: the server under test may be rebuilt at any time
	ov0, err := link.Svc.State.Voucher(ctx, guid0)
	if err != nil {
		return fail("voucher after DI", err)
	}
	ownerClient := deploy.NewMemService("owner-client", deploy.KeyOwner1)
	if err := ownerClient.State.AddVoucher(ctx, ov0); err != nil {
		return ev.Failf("setup", "owner client: %v", err)
	}
	if _, err := deploy.RegisterTO0(ctx, ownerClient, link, guid0, deploy.DefaultAddrs(), 3600); err != nil {
		return fail("TO0", err)
	}
	to1d, err := dev.TO1(ctx, link)
	if err != nil {
		return fail("TO1", err)
	}
	cred, err := dev.TO2(ctx, link, to1d)
	if err != nil {
		return fail("TO2", err)
	}
	if restartErr != nil {
		return ev.Failf("setup", "%s: rebuilding the server failed: %v", tag, restartErr)
	}
	// outcome as without restarts
	calls := rec.Snapshot()
	gotX := false
	for _, cl := range calls {
		if cl.Kind == "Receive" && cl.Name == "x" {
			gotX = true
		}
	}
	if !gotX {
		return ev.Failf("restart-outcome", "%s: TO2 succeeded but the device module never received the owner's message", tag)
	}
	if c.Reuse {
		if cred != nil {
			return ev.Failf("restart-outcome", "%s: credential reuse expected, got a replacement credential", tag)
		}
		if _, err := link.Svc.State.Voucher(ctx, guid0); err != nil {
			return ev.Failf("restart-outcome", "%s: voucher missing after credential reuse: %v", tag, err)
		}
	} else {
		if cred == nil {
			return ev.Failf("restart-outcome", "%s: no replacement credential", tag)
		}
		if _, err := link.Svc.State.Voucher(ctx, guid0); err == nil {
			return ev.Failf("restart-outcome", "%s: old voucher still stored after replacement", tag)
		}
		nov, err := link.Svc.State.Voucher(ctx, cred.GUID)
		if err != nil {
			return ev.Failf("restart-outcome", "%s: replacement voucher not retrievable: %v", tag, err)
		}
		if nov.Header.Val.GUID != cred.GUID || len(nov.Entries) != 0 {
			return ev.Failf("restart-outcome", "%s: replacement voucher has GUID %x / %d entries", tag, nov.Header.Val.GUID[:4], len(nov.Entries))
		}
	}
	res := ev.OK(fmt.Sprintf("restart/%s/%d-restarts", cfg.Kex, min(nrestart, 3)))
	res.NonTrivial = nrestart > 0
	res.ID = fmt.Sprintf("%d|%v|%d|%d|%v", c.Cfg, c.At, c.MTU, c.Modules, c.Reuse)
	return res
}

// ---- sessions used in parallel ------------------------------------------------------------

type concCase struct {
	Workers int `json:"workers"`
	Rounds  int `json:"rounds"`
	Seed    int `json:"seed"`
}

// evalConcurrent: several goroutines, each with its own session tokens, store and read back
// their own values through ONE *sqlite.DB at the same time (as concurrent HTTP requests of
// different devices do). What a session stored is what it reads, foreign tokens grant nothing,
// and no call fails.
func evalConcurrent(c concCase) ev.Result {
	poolOnce.Do(buildPools)
	if poolErr != nil {
		return ev.Failf("setup", "pools: %v", poolErr)
	}
	c.Workers = min(max(c.Workers, 2), 16)
	c.Rounds = min(max(c.Rounds, 1), 60)
	dir := deploy.ScratchDir()
	defer os.RemoveAll(dir)
	w := &world{path: filepath.Join(dir, "state.db")}
	var err error
	if w.db, err = sqlite.Open(w.path, ""); err != nil {
		return ev.Failf("setup", "open: %v", err)
	}
	defer func() { _ = w.db.Close() }()
	other, err := sqlite.Open(filepath.Join(dir, "other.db"), "")
	if err != nil {
		return ev.Failf("setup", "open other: %v", err)
	}
	foreign, err := other.NewToken(context.Background(), protocol.TO2Protocol)
	_ = other.Close()
	if err != nil {
		return ev.Failf("setup", "foreign token: %v", err)
	}
	var mu sync.Mutex
	var fail *ev.Result
	report := func(key, format string, a ...any) {
		mu.Lock()
		if fail == nil {
			r := ev.Failf(key, format, a...)
			fail = &r
		}
		mu.Unlock()
	}
	failed := func() bool { mu.Lock(); defer mu.Unlock(); return fail != nil }
	var wg sync.WaitGroup
	start := make(chan struct{})
	for g := 0; g < c.Workers; g++ {
		wg.Add(1)
		go func(g int) {
			defer wg.Done()
			defer func() {
				if p := recover(); p != nil {
					report("concurrent-panic", "worker %d panicked: %v", g, p)
				}
			}()
			<-start
			for round := 0; round < c.Rounds && !failed(); round++ {
				p := protos[(g+round+c.Seed)%len(protos)]
				tok, err := w.db.NewToken(context.Background(), p)
				if err != nil {
					report("concurrent-newtoken", "worker %d round %d: NewToken: %v", g, round, err)
					return
				}
				s := &slot{proto: p, token: tok, live: true, fields: map[string][]byte{}}
				ctx := w.ctx(tok)
				fs := fieldsOf[p]
				for k := 0; k < 4; k++ {
					f := fs[(k+g+round)%len(fs)]
					if _, done := s.fields[f]; done && setOnce[f] {
						continue
					}
					want, _, err := w.set(ctx, s, f, c.Seed+g*1000+round*17+k)
					if err != nil {
						report("concurrent-set", "worker %d round %d: storing %s through the session's own fresh token failed: %v", g, round, f, err)
						return
					}
					s.fields[f] = want
					if g%3 == 0 {
						// a token of another database never grants anything
						if _, err := w.get(w.ctx(foreign), s, f); err == nil {
							report("concurrent-foreign-token", "worker %d: a token issued by another database read %s", g, f)
							return
						}
					}
				}
				for f, want := range s.fields {
					got, err := w.get(ctx, s, f)
					if err != nil {
						report("concurrent-get", "worker %d round %d: reading %s back through the same token failed: %v", g, round, f, err)
						return
					}
					if f != "xsession" && f != "devmod" && f != "rvinfo" && !bytes.Equal(got, want) {
						report("concurrent-wrong-value", "worker %d round %d: %s read back as %x, stored %x", g, round, f, got[:min(len(got), 24)], want[:min(len(want), 24)])
						return
					}
				}
				if round%2 == 0 {
					if err := w.db.InvalidateToken(ctx); err != nil {
						report("concurrent-invalidate", "worker %d round %d: InvalidateToken: %v", g, round, err)
						return
					}
					if _, err := w.get(ctx, s, fs[0]); err == nil {
						report("concurrent-dead-token", "worker %d round %d: an invalidated token still reads %s", g, round, fs[0])
						return
					}
				}
			}
		}(g)
	}
	close(start)
	wg.Wait()
	if fail != nil {
		return *fail
	}
	res := ev.OK(fmt.Sprintf("concurrent/workers=%d", c.Workers))
	res.ID = fmt.Sprintf("%d|%d|%d", c.Workers, c.Rounds, c.Seed)
	return res
}

func TestC18(t *testing.T) {
	r := ev.Start(t, "C18")
	defer r.Finish()
	poolOnce.Do(buildPools)
	if poolErr != nil {
		t.Fatalf("pools: %v", poolErr)
	}

	r.SetRule("restart-points", "exhaustive: for each of 6 configurations (all key-exchange families incl. both ASYMKEX sizes, both cipher families) the whole chain DI → TO0 → TO1 → TO2 (with a service-info module and a multi-message devmod) runs on the SQLite backend over the real handler while, before request #k for every k of the chain (and in one run before every request), the database is closed and the DB object, all responders and the handler are rebuilt from the file; with and without credential reuse; device MTUs 1300 and 40000. Oracle: every protocol completes, the device module got the owner's message, and the voucher store ends as after an undisturbed run (old voucher gone and replacement retrievable, or kept on reuse). Non-trivial: at least one restart happened.")
	ev.Enum(r, "restart-points", true, func(yield func(restartCase) bool) {
		i := 0
		for c := range restartCfgs {
			for k := -1; k < 24; k++ {
				for _, reuse := range []bool{false, true} {
					if reuse && (k%4 != 1) {
						continue
					}
					i++
					if !r.Mine(i) {
						continue
					}
					mtu := 1300
					if k%2 == 0 {
						mtu = 40000
					}
					if !yield(restartCase{Cfg: c, At: []int{k}, MTU: mtu, Modules: 3 + 40*(k&1), Reuse: reuse}) {
						return
					}
				}
			}
		}
	}, evalRestart)

	r.SetRule("histories", "generated histories (7..62 operations) of the state interfaces against the real SQLite store and a reference model (maps): NewToken for all four protocols, every session setter/getter of the token's protocol with all value shapes (7 key-exchange sessions × 3 stages incl. both ASYMKEX sizes, 5 RvInfo shapes up to 40 directives, devmod with/without optional fields and 0..300 modules, both HMAC sizes, MTUs 0..65535 incl. 32767/32768, certificate chains of 1 and 2), InvalidateToken, close-and-reopen of the database file, attempts with 8 kinds of illegitimate token (empty, garbage, truncated, one character changed, extended, issued by another database, ...), AddVoucher / ReplaceVoucher / RemoveVoucher, SetRVBlob with past and future expiry. Oracle after every read, after every reopen and at the end (before and after a final reopen): each field of each token reads back exactly what the model holds for that token (restored key-exchange sessions must also complete the exchange and talk to the device side), unset fields give ErrNotFound, invalidated/illegitimate tokens give errors on read, write and invalidate and leave no trace, vouchers and rendezvous blobs match the model, expired blobs are not found. Non-trivial: ≥ 2 tokens and a reopen or an illegitimate token.")
	ev.Rapid(r, "histories", ev.N{Quick: 480, Thorough: 4800}, genHistory, evalHistory)
	r.SetRule("concurrent-sessions", "2..16 goroutines use ONE *sqlite.DB at the same time; each creates its own tokens (all four protocols), stores 4 fields per token, reads them back, tries a token of another database, invalidates every other token and reads again; 4..16 rounds per goroutine. Oracle: no call on a session's own fresh token fails, every value read is the value stored through that token, foreign and invalidated tokens read nothing, no panic. Schedules are whatever the Go scheduler produces (not enumerated).")
	ev.Rapid(r, "concurrent-sessions", ev.N{Quick: 64, Thorough: 480}, func(t *rapid.T) concCase {
		return concCase{Workers: rapid.SampledFrom([]int{2, 4, 8, 8, 16}).Draw(t, "workers"), Rounds: rapid.IntRange(4, 16).Draw(t, "rounds"), Seed: rapid.IntRange(0, 1<<16).Draw(t, "seed")}
	}, evalConcurrent)
	ev.Rapid(r, "restarts", ev.N{Quick: 48, Thorough: 400}, func(t *rapid.T) restartCase {
		n := rapid.IntRange(1, 4).Draw(t, "n")
		var at []int
		for i := 0; i < n; i++ {
			at = append(at, rapid.IntRange(0, 22).Draw(t, "at"))
		}
		return restartCase{Cfg: rapid.IntRange(0, len(restartCfgs)-1).Draw(t, "cfg"), At: at, MTU: rapid.SampledFrom([]int{256, 1300, 32767, 32768, 65535}).Draw(t, "mtu"), Modules: rapid.SampledFrom([]int{0, 3, 80}).Draw(t, "modules"), Reuse: rapid.IntRange(0, 3).Draw(t, "reuse") == 0}
	}, evalRestart)
	r.SetRule("restarts", "generated: 1..4 restart points anywhere in the chain × configuration × device MTU {256, 1300, 32767, 32768, 65535} × devmod size × credential reuse; same oracle as restart-points")
	ev.CheckWitness(r, "histories", evalHistory)
	ev.CheckWitness(r, "restarts", evalRestart)
}
