//go:build verif

// C10 — no peer-supplied bytes can crash, hang or exhaust a protocol endpoint.
package c10

import (
	"bytes"
	"context"
	"crypto"
	"crypto/rand"
	"crypto/rsa"
	"crypto/x509"
	"encoding/hex"
	"fmt"
	"io"
	"net/http"
	"os"
	"runtime"
	"strconv"
	"strings"
	"testing"
	"time"

	fdo "github.com/fido-device-onboard/go-fdo"
	"github.com/fido-device-onboard/go-fdo/cbor"
	"github.com/fido-device-onboard/go-fdo/protocol"
	"github.com/fido-device-onboard/go-fdo/serviceinfo"
	"pgregory.net/rapid"

	"verif/harness/deploy"
	"verif/harness/ev"
	"verif/harness/keys"
	"verif/harness/peer"
	"verif/harness/refcbor"
	"verif/harness/refverify"
)

// input describes how the honest message at a position is replaced.
type input struct {
	Kind  string `json:"kind"` // mutate mutate2 bit trunc extend random nest envelope honest
	Node  int    `json:"node"`
	Arg   int64  `json:"arg"`
	Node2 int    `json:"node2,omitempty"`
	Arg2  int64  `json:"arg2,omitempty"`
	Size  int    `json:"size,omitempty"`
	Hex   string `json:"hex,omitempty"` // for random: the bytes (kept in the descriptor for replay)
	Op    string `json:"op,omitempty"`  // for kind "op": the explicit mutation operator
	// Resign: after the alteration every COSE_Sign1 of the honest message that one of the
	// deployment's keys signed is signed again with that key (a credentialed but hostile peer)
	Resign bool `json:"resign,omitempty"`
}

type caseDesc struct {
	Side string `json:"side"` // server | client
	Pos  int    `json:"pos"`  // message type at which the hostile input is delivered
	Cfg  int    `json:"cfg"`
	In   input  `json:"in"`
}

var cfgs = []deploy.Config{
	{Key: "P-256", Enc: "x509", Kex: "ECDH256", Cipher: "A128GCM"},
	{Key: "P-384", Enc: "x5chain", Kex: "ECDH384", Cipher: "COSEAES256CBC"},
	{Key: "RSA2048RESTR", Enc: "x509", Kex: "DHKEXid14", Cipher: "COSEAES128CTR"},
	{Key: "RSAPSS-3072", Enc: "x509", Kex: "ASYMKEX3072", Cipher: "A256GCM"},
	{Key: "P-256", Enc: "cose", Kex: "ECDH256", Cipher: "COSEAES128CBC"},
}

// SubjectPublicKeyInfo of a 1024-bit RSA key (an RSA size FDO does not define)
var weakRSA1024 = func() string {
	k, err := rsa.GenerateKey(rand.Reader, 1024)
	if err != nil {
		panic(err)
	}
	der, _ := x509.MarshalPKIXPublicKey(&k.PublicKey)
	return hex.EncodeToString(der)
}()

var serverPositions = []int{10, 12, 20, 22, 30, 32, 60, 62, 64, 66, 68, 70, 255}
var clientPositions = []int{11, 13, 21, 23, 31, 33, 61, 63, 65, 67, 69, 71}

// allocation bound: A + B*len(message)
const (
	allocA = 3 << 20
	allocB = 1 << 10
)

func totalAlloc() uint64 {
	var ms runtime.MemStats
	runtime.ReadMemStats(&ms)
	return ms.TotalAlloc
}

// transform applies the input to an honest plaintext message; ok=false if inapplicable.
func transform(honest []byte, in input) ([]byte, bool) {
	out, ok := transform0(honest, in)
	if ok && in.Resign {
		out = resign(honest, out)
	}
	return out, ok
}

type signedAt struct {
	key crypto.Signer
	alg int64
}

var allSigners = func() []crypto.Signer {
	var out []crypto.Signer
	for _, k := range keys.Kinds {
		for i := 0; i <= deploy.KeyDevice2; i++ {
			out = append(out, keys.Get(k, i))
		}
	}
	return out
}()

func sign1Shape(n *refcbor.Node) *refcbor.Node {
	if n.Kind == refcbor.Tag && n.Val == 18 && len(n.Items) == 1 {
		n = n.Items[0]
	}
	if n.Kind == refcbor.Array && len(n.Items) == 4 && n.Items[0].Kind == refcbor.Bytes && n.Items[2].Kind == refcbor.Bytes && n.Items[3].Kind == refcbor.Bytes {
		return n
	}
	return nil
}

// resign signs again, in the altered message, every COSE_Sign1 that one of the
// known keys had signed in the honest message (matched by tree path), innermost first.
func resign(honest, altered []byte) []byte {
	ht, err := refcbor.ParseAll(honest)
	if err != nil {
		return altered
	}
	refcbor.ExpandBstr(ht)
	by := map[string]signedAt{}
	for _, r := range refcbor.Refs(ht) {
		if r.Node.Kind == refcbor.Tag {
			continue // the array below is visited too
		}
		a := sign1Shape(r.Node)
		if a == nil {
			continue
		}
		s1, err := refverify.Sign1FromNode(a)
		if err != nil || s1.PayloadNil {
			continue
		}
		for _, k := range allSigners {
			if ok, _ := refverify.VerifySign1(s1, k.Public(), nil, nil); ok {
				alg, _ := s1.Alg()
				by[r.Path] = signedAt{k, alg}
				break
			}
		}
	}
	if len(by) == 0 {
		return altered
	}
	at, err := refcbor.ParseAll(altered)
	if err != nil {
		return altered
	}
	refcbor.ExpandBstr(at)
	refs := refcbor.Refs(at)
	n := 0
	for i := len(refs) - 1; i >= 0; i-- {
		sa, ok := by[refs[i].Path]
		if !ok {
			continue
		}
		a := sign1Shape(refs[i].Node)
		if a == nil || a != refs[i].Node {
			continue
		}
		enc := func(x *refcbor.Node) []byte {
			if x.Inner != nil {
				return refcbor.EncodeKeepOrder(x.Inner)
			}
			return x.Bytes
		}
		sig, err := refverify.SignRaw(sa.key, sa.alg, refverify.SigStructure(enc(a.Items[0]), nil, enc(a.Items[2])))
		if err != nil {
			continue
		}
		a.Items[3] = refcbor.B(sig)
		n++
	}
	if n == 0 {
		return altered
	}
	return refcbor.EncodeKeepOrder(at)
}

// binleaf alters the inner binary structure of a byte-string leaf: the FDO key
// exchange parameters are (u16 length, bytes)* sequences or big-endian integers.
func binleaf(b []byte, arg int64) []byte {
	if arg < 0 {
		arg = -arg
	}
	type field struct{ off, n int }
	var fs []field
	for o := 0; o+2 <= len(b); {
		n := int(b[o])<<8 | int(b[o+1])
		if o+2+n > len(b) {
			fs = nil
			break
		}
		fs = append(fs, field{o, n})
		o += 2 + n
		if o == len(b) {
			break
		}
		if o+2 > len(b) {
			fs = nil
		}
	}
	op := int(arg % 11)
	if len(fs) >= 2 {
		f := fs[int(arg/11)%len(fs)]
		pre, val, post := b[:f.off], b[f.off+2:f.off+2+f.n], b[f.off+2+f.n:]
		build := func(declared int, v []byte) []byte {
			out := append([]byte{}, pre...)
			out = append(out, byte(declared>>8), byte(declared))
			out = append(out, v...)
			return append(out, post...)
		}
		switch op {
		case 0: // one byte shorter, honestly declared
			if f.n > 0 {
				return build(f.n-1, val[1:])
			}
		case 1: // one byte longer, honestly declared
			return build(f.n+1, append([]byte{0x01}, val...))
		case 2: // leading zero added
			return build(f.n+1, append([]byte{0x00}, val...))
		case 3: // declared longer than present
			return build(f.n+1, val)
		case 4: // declared 65535
			return build(0xffff, val)
		case 5: // declared 0 with the bytes left in place
			return build(0, val)
		case 6: // empty field
			return build(0, nil)
		case 7: // all ones
			return build(f.n, bytes.Repeat([]byte{0xff}, f.n))
		case 8: // zero value
			return build(f.n, make([]byte, f.n))
		case 9: // field dropped
			return append(append([]byte{}, pre...), post...)
		case 10: // twice as long
			return build(2*f.n, append(append([]byte{}, val...), val...))
		}
		return build(f.n, val)
	}
	switch op {
	case 0:
		return nil
	case 1:
		return []byte{0}
	case 2:
		return []byte{1}
	case 3:
		return bytes.Repeat([]byte{0xff}, len(b))
	case 4:
		return make([]byte, len(b))
	case 5:
		return append(append([]byte{}, b...), b...)
	case 6:
		if len(b) > 1 {
			return b[1:]
		}
	case 7:
		return append([]byte{0}, b...)
	case 8:
		if len(b) > 1 {
			return b[:len(b)-1]
		}
	case 9:
		return bytes.Repeat([]byte{0xff}, 2*len(b)+1)
	}
	c := append([]byte{}, b...)
	if len(c) > 0 {
		c[len(c)-1] ^= 1
	}
	return c
}

func transform0(honest []byte, in input) ([]byte, bool) {
	switch in.Kind {
	case "op":
		tree, err := refcbor.ParseAll(honest)
		if err != nil {
			return nil, false
		}
		refcbor.ExpandBstr(tree)
		mt, _, ok := refcbor.Apply(tree, refcbor.Mutation{Node: in.Node, Op: in.Op, Arg: in.Arg})
		if !ok {
			return nil, false
		}
		return refcbor.EncodeKeepOrder(mt), true
	case "binleaf":
		tree, err := refcbor.ParseAll(honest)
		if err != nil {
			return nil, false
		}
		refcbor.ExpandBstr(tree)
		var leaves []*refcbor.Node
		for _, r := range refcbor.Refs(tree) {
			if r.Node.Kind == refcbor.Bytes && r.Node.Inner == nil && len(r.Node.Bytes) >= 20 {
				leaves = append(leaves, r.Node)
			}
		}
		if len(leaves) == 0 {
			return nil, false
		}
		l := leaves[in.Node%len(leaves)]
		l.Bytes = binleaf(l.Bytes, in.Arg)
		return refcbor.EncodeKeepOrder(tree), true
	case "manykv":
		// a ServiceInfo message (device: [more, kvs]; owner: [more, done, kvs]) with many entries
		tree, err := refcbor.ParseAll(honest)
		if err != nil || tree.Kind != refcbor.Array || len(tree.Items) < 2 || tree.Items[len(tree.Items)-1].Kind != refcbor.Array {
			return nil, false
		}
		count := []int{200, 1001, 1200, 2500, 6000, 400, 900}[in.Size%7]
		a := in.Arg
		if a < 0 {
			a = -a
		}
		var kvs []*refcbor.Node
		for i := 0; i < count; i++ {
			var key string
			switch a % 4 {
			case 0:
				key = "probe:k"
			case 1:
				key = []string{"probe:a", "probe:b"}[i%2]
			case 2:
				key = fmt.Sprintf("probe:%d", i)
			default:
				key = fmt.Sprintf("m%d:x", i)
			}
			kvs = append(kvs, refcbor.A(refcbor.T(key), refcbor.B([]byte{0xf5})))
		}
		if a/4%2 == 1 { // keep the honest entries in front
			kvs = append(append([]*refcbor.Node{}, tree.Items[len(tree.Items)-1].Items...), kvs...)
		}
		tree.Items[len(tree.Items)-1].Items = kvs
		if len(tree.Items) == 3 && a/8%2 == 1 {
			// owner message: this is also the final one (IsDone), so whatever the device modules
			// answer can only be discarded
			tree.Items[0], tree.Items[1] = refcbor.Bool(false), refcbor.Bool(true)
		}
		return refcbor.EncodeKeepOrder(tree), true
	case "honest":
		return honest, true
	case "mutate", "mutate2":
		tree, err := refcbor.ParseAll(honest)
		if err != nil {
			return nil, false
		}
		refcbor.ExpandBstr(tree)
		mt, _, ok := refcbor.Apply(tree, refcbor.Mutation{Node: in.Node, Op: "auto", Arg: in.Arg})
		if !ok {
			return nil, false
		}
		if in.Kind == "mutate2" {
			if m2, _, ok2 := refcbor.Apply(mt, refcbor.Mutation{Node: in.Node2, Op: "auto", Arg: in.Arg2}); ok2 {
				mt = m2
			}
		}
		return refcbor.EncodeKeepOrder(mt), true
	case "bit":
		if len(honest) == 0 {
			return nil, false
		}
		b := append([]byte{}, honest...)
		k := int(in.Arg) % (len(b) * 8)
		if k < 0 {
			k = -k
		}
		b[k/8] ^= 1 << (k % 8)
		return b, true
	case "trunc":
		if len(honest) < 2 {
			return nil, false
		}
		n := int(in.Arg) % len(honest)
		if n < 0 {
			n = -n
		}
		return honest[:n], true
	case "extend":
		ext := bytes.Repeat([]byte{byte(in.Arg)}, 1+in.Size%64)
		return append(append([]byte{}, honest...), ext...), true
	case "random", "literal":
		b, err := hex.DecodeString(in.Hex)
		return b, err == nil
	case "setkv":
		// DeviceServiceInfo: replace the value of the KV whose key is named by Hex ("key=hexvalue")
		parts := strings.SplitN(in.Hex, "=", 2)
		val, err := hex.DecodeString(parts[1])
		tree, perr := refcbor.ParseAll(honest)
		if err != nil || perr != nil || len(tree.Items) != 2 {
			return nil, false
		}
		found := false
		for _, kv := range tree.Items[1].Items {
			if len(kv.Items) == 2 && string(kv.Items[0].Bytes) == parts[0] {
				kv.Items[1] = refcbor.B(val)
				found = true
			}
		}
		if !found {
			tree.Items[1].Items = append([]*refcbor.Node{refcbor.A(refcbor.T(parts[0]), refcbor.B(val))}, tree.Items[1].Items...)
		}
		return refcbor.EncodeKeepOrder(tree), true
	case "weakkey":
		// replace every FDO PublicKey [type, 1, bstr(SPKI)] by an RSA-1024 key of the same type
		tree, err := refcbor.ParseAll(honest)
		if err != nil {
			return nil, false
		}
		refcbor.ExpandBstr(tree)
		weak, _ := hex.DecodeString(weakRSA1024)
		n := 0
		for _, r := range refcbor.Refs(tree) {
			x := r.Node
			if x.Kind == refcbor.Array && len(x.Items) == 3 && x.Items[0].Kind == refcbor.Uint && x.Items[1].Kind == refcbor.Uint && x.Items[1].Val >= 1 && x.Items[1].Val <= 3 && x.Items[0].Val <= 11 && x.Items[0].Val >= 1 {
				x.Items[0], x.Items[1], x.Items[2] = refcbor.U(uint64(5+in.Arg%2)), refcbor.U(1), refcbor.B(weak)
				n++
			}
		}
		return refcbor.EncodeKeepOrder(tree), n > 0
	case "nest":
		units := [][]byte{{0x81}, {0x9a, 0x00, 0x01, 0x86, 0x9f}, {0xc1}, {0xd8, 0x18}, {0xa1, 0x01}, {0x82, 0x01}, {0xbb, 0x80, 0, 0, 0, 0, 0, 0, 0}, {0x5b, 0xff, 0xff, 0xff, 0xff, 0xff, 0xff, 0xff, 0xff}}
		a := in.Arg
		if a < 0 {
			a = -a
		}
		u := units[int(a)%len(units)]
		size := []int{64, 1024, 8 << 10, 60 << 10}[in.Size%4]
		var b []byte
		for len(b)+len(u) <= size {
			b = append(b, u...)
		}
		return b, true
	}
	return nil, false
}

// ---------------------------------------------------------------------------
// server side
// ---------------------------------------------------------------------------

type srvWorld struct {
	cfg     deploy.Config
	svc     *deploy.Service
	dev     *deploy.Device
	voucher []byte
}

func newSrvWorld(ctx context.Context, cfg deploy.Config) (*srvWorld, error) {
	w := &srvWorld{cfg: cfg, svc: deploy.NewMemService("aio", deploy.KeyOwner1)}
	w.svc.AutoExtendTo = deploy.OwnerPublic(cfg, deploy.KeyOwner1)
	w.svc.Modules.Factory = func(ctx context.Context) []deploy.NamedModule {
		tr, _ := cbor.Marshal(true)
		return []deploy.NamedModule{{Name: "probe", Mod: &deploy.ScriptOwnerModule{ModName: "probe", Steps: []deploy.OwnerStep{{Send: []deploy.KVMsg{{Name: "active", Body: tr}}}, {Done: true}}}}}
	}
	w.dev = deploy.NewDevice(cfg, deploy.KeyDevice)
	if err := w.dev.DI(ctx, deploy.NewLink(w.svc)); err != nil {
		return nil, err
	}
	ov, err := w.svc.State.Voucher(ctx, w.dev.Cred.GUID)
	if err != nil {
		return nil, err
	}
	w.voucher, _ = cbor.Marshal(ov)
	if _, err := deploy.RegisterTO0(ctx, w.svc, deploy.NewLink(w.svc), w.dev.Cred.GUID, deploy.DefaultAddrs(), 3600); err != nil {
		return nil, fmt.Errorf("TO0: %w", err)
	}
	return w, nil
}

type delivery struct {
	typ    int
	token  string
	body   []byte
	status string // "" or why the position could not be reached
}

// reach runs the honest prefix up to pos and returns the honest message for pos
// together with a function that protects a plaintext for that position.
func (w *srvWorld) reach(pos int) (token string, honest []byte, protect func([]byte) ([]byte, error), err error) {
	h := w.svc.Handler
	ident := func(b []byte) ([]byte, error) { return b, nil }
	switch pos {
	case 10:
		return "", peer.AppStartBody(w.cfg, keys.Get(w.cfg.Kind(), deploy.KeyDevice2), "sn-c10", "c10"), ident, nil
	case 12:
		r := peer.Post(h, 10, "", peer.AppStartBody(w.cfg, keys.Get(w.cfg.Kind(), deploy.KeyDevice2), "sn-c10", "c10"))
		if !r.OK(11) {
			return "", nil, nil, fmt.Errorf("AppStart: %d/%d", r.Status, r.Type)
		}
		b, ok := peer.SetHmacBody(make([]byte, 32), r.Body, w.cfg.Kind() == "ec384" || w.cfg.Kind() == "rsa3072")
		if !ok {
			return "", nil, nil, fmt.Errorf("SetCredentials shape")
		}
		return r.Token, b, ident, nil
	case 20:
		return "", []byte{0x80}, ident, nil
	case 22:
		r := peer.Post(h, 20, "", []byte{0x80})
		if !r.OK(21) {
			return "", nil, nil, fmt.Errorf("TO0.Hello: %d/%d", r.Status, r.Type)
		}
		return r.Token, peer.OwnerSignBody(w.cfg, w.voucher, 3600, peer.FirstBytes(r.Body), keys.Get(w.cfg.Kind(), deploy.KeyOwner1)), ident, nil
	case 30:
		return "", peer.HelloRVBody(w.cfg, w.dev.Key, w.dev.Cred.GUID[:]), ident, nil
	case 32:
		r := peer.Post(h, 30, "", peer.HelloRVBody(w.cfg, w.dev.Key, w.dev.Cred.GUID[:]))
		if !r.OK(31) {
			return "", nil, nil, fmt.Errorf("HelloRV: %d/%d", r.Status, r.Type)
		}
		return r.Token, peer.ProveToRVBody(w.cfg, w.dev.Key, w.dev.Cred.GUID[:], peer.FirstBytes(r.Body)), ident, nil
	case 255:
		r := peer.Post(h, 60, "", peer.NewDevice(w.cfg, w.dev.Key, w.dev.Cred.GUID[:], h).HelloBody())
		return r.Token, peer.ErrorBody(61), ident, nil
	}
	m := peer.NewDevice(w.cfg, w.dev.Key, w.dev.Cred.GUID[:], h)
	if pos == 60 {
		return "", m.HelloBody(), ident, nil
	}
	if r, err := m.SendHello(); err != nil {
		return "", nil, nil, fmt.Errorf("HelloDevice: %v (%d/%d)", err, r.Status, r.Type)
	}
	if pos == 62 {
		return m.Token, refcbor.Encode(refcbor.A(refcbor.U(0))), ident, nil
	}
	if r := m.GetEntry(0); !r.OK(63) {
		return "", nil, nil, fmt.Errorf("GetOVNextEntry: %d/%d", r.Status, r.Type)
	}
	if err := m.KeyExchange(); err != nil {
		return "", nil, nil, err
	}
	if pos == 64 {
		return m.Token, m.ProveDeviceBody(peer.Token64{}), ident, nil
	}
	if r := peer.Post(h, 64, m.Token, m.ProveDeviceBody(peer.Token64{})); !r.OK(65) {
		return "", nil, nil, fmt.Errorf("ProveDevice: %d/%d", r.Status, r.Type)
	}
	enc := func(b []byte) ([]byte, error) { return m.Encrypt(b) }
	ready := peer.ReadyBody(5, make([]byte, 32), 1300)
	if pos == 66 {
		return m.Token, ready, enc, nil
	}
	rb, _ := m.Encrypt(ready)
	if r := peer.Post(h, 66, m.Token, rb); !r.OK(67) {
		return "", nil, nil, fmt.Errorf("DeviceServiceInfoReady: %d/%d", r.Status, r.Type)
	}
	si := peer.ServiceInfoBody(false, peer.DevmodKVs("probe", "other")...)
	if pos == 68 {
		return m.Token, si, enc, nil
	}
	for i := 0; i < 4; i++ {
		sb, _ := m.Encrypt(si)
		r := peer.Post(h, 68, m.Token, sb)
		if !r.OK(69) {
			return "", nil, nil, fmt.Errorf("DeviceServiceInfo: %d/%d", r.Status, r.Type)
		}
		pt, err := m.Decrypt(r.Body)
		if err != nil {
			return "", nil, nil, err
		}
		if n, err := refcbor.ParseAll(pt); err == nil && len(n.Items) == 3 && n.Items[1].Val == 21 {
			break
		}
		si = peer.ServiceInfoBody(false)
	}
	return m.Token, peer.DoneBody(m.Prove.CUPHNonce), enc, nil
}

// remac alters the COSE_Encrypt0 inside an encrypt-then-MAC envelope (tag 17) and recomputes the
// COSE_Mac0 tag with the session's verification key: what a hostile but key-holding session peer can
// send. Shapes 0..12 are targeted (empty / one-byte / non-block-multiple / one-block / null ciphertext,
// empty / short / long / null / absent IV, emptied protected header, identity control), larger
// arguments apply one structure-aware mutation to the inner object.
const remacShapes = 13

func remac(prot, svk []byte, in input) ([]byte, string, bool) {
	tree, err := refcbor.ParseAll(prot)
	if err != nil || tree.Kind != refcbor.Tag || tree.Val != 17 || len(tree.Items) != 1 || len(tree.Items[0].Items) != 4 {
		return nil, "", false
	}
	m := tree.Items[0]
	if m.Items[0].Kind != refcbor.Bytes || m.Items[2].Kind != refcbor.Bytes {
		return nil, "", false
	}
	inner, err := refcbor.ParseAll(m.Items[2].Bytes)
	if err != nil || inner.Kind != refcbor.Array || len(inner.Items) != 3 {
		return nil, "", false
	}
	iv := refverify.MapGet(inner.Items[1], 5)
	a := in.Arg
	if a < 0 {
		a = -a
	}
	shape := "mutated"
	setIV := func(b []byte) bool {
		if iv == nil {
			return false
		}
		*iv = *refcbor.B(b)
		return true
	}
	ok := true
	switch {
	case in.Node >= remacShapes:
		mt, _, applied := refcbor.Apply(inner, refcbor.Mutation{Node: in.Node - remacShapes, Op: "auto", Arg: in.Arg})
		if !applied {
			return nil, "", false
		}
		inner = mt
	case in.Node == 0:
		shape, inner.Items[2] = "ct-empty", refcbor.B(nil)
	case in.Node == 1:
		shape, inner.Items[2] = "ct-1byte", refcbor.B([]byte{byte(a)})
	case in.Node == 2:
		shape, inner.Items[2] = "ct-15bytes", refcbor.B(bytes.Repeat([]byte{byte(a)}, 15))
	case in.Node == 3:
		shape, inner.Items[2] = "ct-oneblock", refcbor.B(bytes.Repeat([]byte{byte(a)}, 16))
	case in.Node == 4:
		shape, inner.Items[2] = "ct-17bytes", refcbor.B(bytes.Repeat([]byte{byte(a)}, 17))
	case in.Node == 5:
		shape, inner.Items[2] = "ct-null", refcbor.Null()
	case in.Node == 6:
		shape, ok = "iv-empty", setIV(nil)
	case in.Node == 7:
		shape, ok = "iv-1byte", setIV([]byte{1})
	case in.Node == 8:
		shape, ok = "iv-17bytes", setIV(bytes.Repeat([]byte{2}, 17))
	case in.Node == 9:
		shape = "iv-null"
		if iv == nil {
			return nil, "", false
		}
		*iv = *refcbor.Null()
	case in.Node == 10:
		shape, inner.Items[1] = "iv-absent", refcbor.M()
	case in.Node == 11:
		shape, inner.Items[0] = "prot-empty", refcbor.B(nil)
	default:
		shape = "identity"
	}
	if !ok {
		return nil, "", false
	}
	payload := refcbor.EncodeKeepOrder(inner)
	m.Items[2] = refcbor.B(payload)
	pm, err := refcbor.ParseAll(m.Items[0].Bytes)
	if err != nil {
		return nil, "", false
	}
	alg, _ := refverify.NodeInt(refverify.MapGet(pm, 1))
	tag, hok := refverify.Hmac(alg, svk, refverify.MacStructure(m.Items[0].Bytes, nil, payload))
	if !hok {
		return nil, "", false
	}
	m.Items[3] = refcbor.B(tag)
	return refcbor.EncodeKeepOrder(tree), shape, true
}

func evalServer(d caseDesc) ev.Result {
	ctx, cancel := context.WithTimeout(context.Background(), 60*time.Second)
	defer cancel()
	cfg := cfgs[d.Cfg%len(cfgs)]
	w, err := newSrvWorld(ctx, cfg)
	if err != nil {
		return ev.Failf("setup", "%v", err)
	}
	token, honest, protect, err := w.reach(d.Pos)
	if err != nil {
		return ev.Failf("setup", "reaching position %d (%s): %v", d.Pos, cfg.Key, err)
	}
	var body []byte
	remacShape := ""
	if d.In.Kind == "envelope" {
		// for protected positions: alter the encrypted envelope instead of the plaintext
		prot, err := protect(honest)
		if err != nil {
			return ev.Result{Skip: true}
		}
		b, ok := transform(prot, input{Kind: "mutate", Node: d.In.Node, Arg: d.In.Arg})
		if !ok {
			return ev.Trivial("input-not-applicable")
		}
		body = b
	} else if d.In.Kind == "remac" {
		// encrypt-then-MAC suites: hostile inner COSE_Encrypt0 under a correct MAC
		prot, err := protect(honest)
		sc, have := w.svc.Mem.SessionCrypter(token)
		if err != nil || !have {
			return ev.Result{Skip: true}
		}
		b, shape, ok := remac(prot, sc.SVK, d.In)
		if !ok {
			return ev.Trivial("input-not-applicable")
		}
		body, remacShape = b, shape
	} else {
		plain, ok := transform(honest, d.In)
		if !ok {
			return ev.Trivial("input-not-applicable")
		}
		var err error
		if body, err = protect(plain); err != nil {
			return ev.Trivial("cannot-protect")
		}
	}
	tag := fmt.Sprintf("server pos=%d cfg=%s/%s/%s input=%s(%d,%d) len=%d", d.Pos, cfg.Key, cfg.Kex, cfg.Cipher, d.In.Kind, d.In.Node, d.In.Arg, len(body))
	var r peer.Resp
	before := totalAlloc()
	t0 := time.Now()
	if !ev.WithTimeout(8*time.Second, func() { r = peer.Post(w.svc.Handler, d.Pos, token, body) }) {
		return ev.Failf(fmt.Sprintf("hang:server-%d", d.Pos), "%s: no response within 8 s", tag)
	}
	el := time.Since(t0)
	delta := totalAlloc() - before
	if r.Panic != "" {
		return ev.Failf(peer.PanicKey(r.Panic), "%s: the responder panicked: %s", tag, strings.SplitN(r.Panic, "\n", 2)[0])
	}
	if delta > allocA+allocB*uint64(len(body)) {
		return ev.Failf(fmt.Sprintf("alloc:server-%d", d.Pos), "%s: handling the message allocated %d bytes (> %d + %d·len)", tag, delta, allocA, allocB)
	}
	if el > 10*time.Second {
		return ev.Failf(fmt.Sprintf("slow:server-%d", d.Pos), "%s: took %v", tag, el)
	}
	// response shape: legitimate next message, or an FDO error message
	switch {
	case r.Status == 200 && r.Type == d.Pos+1 && d.Pos != 255:
	case d.Pos == 255 && r.Status == 200:
	case r.Type == 255 && (r.Status == 200 || r.Status == 500):
		n, err := refcbor.ParseAll(r.Body)
		if err != nil || n.Kind != refcbor.Array || len(n.Items) != 5 || n.Items[0].Kind != refcbor.Uint || n.Items[2].Kind != refcbor.Text {
			return ev.Failf("error-shape", "%s: error response body is not an FDO ErrorMessage: %x", tag, r.Body[:min(len(r.Body), 60)])
		}
	default:
		return ev.Failf(fmt.Sprintf("response-shape:%d", d.Pos), "%s: answered status %d Message-Type %d body %x — neither the next message nor an FDO error message", tag, r.Status, r.Type, r.Body[:min(len(r.Body), 40)])
	}
	kindClass := d.In.Kind
	if d.In.Op == "devmod-grammar" {
		kindClass = "devmod-grammar"
	}
	if remacShape != "" {
		kindClass = "remac-" + remacShape
		if remacShape == "identity" && r.Type == 255 {
			return ev.Failf("remac-control", "%s: an unchanged message under a recomputed MAC was refused (harness MAC computation wrong?): %x", tag, r.Body[:min(len(r.Body), 60)])
		}
	}
	res := ev.OK(fmt.Sprintf("server-%d/%s/%d", d.Pos, kindClass, r.Type))
	res.NonTrivial = d.In.Kind != "honest"
	res.ID = fmt.Sprintf("s|%d|%d|%s|%d|%d|%d|%d|%d|%s", d.Pos, d.Cfg%len(cfgs), d.In.Kind, d.In.Node, d.In.Arg, d.In.Node2, d.In.Arg2, d.In.Size, d.In.Hex+d.In.Op+fmt.Sprint(d.In.Resign))
	return res
}

// ---------------------------------------------------------------------------
// client side
// ---------------------------------------------------------------------------

func evalClient(d caseDesc) ev.Result {
	ctx, cancel := context.WithTimeout(context.Background(), 60*time.Second)
	defer cancel()
	cfg := cfgs[d.Cfg%len(cfgs)]
	mfg, owner, rv := deploy.NewMemService("mfg", deploy.KeyMfg), deploy.NewMemService("owner", deploy.KeyOwner1), deploy.NewMemService("rv", deploy.KeyStranger)
	owner.Modules.Factory = func(ctx context.Context) []deploy.NamedModule {
		tr, _ := cbor.Marshal(true)
		return []deploy.NamedModule{{Name: "probe", Mod: &deploy.ScriptOwnerModule{ModName: "probe", Steps: []deploy.OwnerStep{{Send: []deploy.KVMsg{{Name: "active", Body: tr}}}, {Send: []deploy.KVMsg{{Name: "x", Body: tr}}, Done: true}}}}}
	}
	dev := deploy.NewDevice(cfg, deploy.KeyDevice)
	// the device module answers every message it receives with three small service infos
	dev.Modules = map[string]serviceinfo.DeviceModule{"probe": &deploy.RecDeviceModule{OnReceive: func(name string, _ []byte, respond func(string) io.Writer, _ func()) {
		for _, n := range []string{"r0", "r1", "r2"} {
			_, _ = respond(n).Write([]byte{0xf5})
		}
	}}}
	// half of the cases with a P-256 / RSA2048 configuration run a device without an HMAC-SHA384 engine
	if (cfg.Key == "P-256" || cfg.Key == "RSA2048RESTR") && (d.In.Node+int(d.In.Arg&0xffff))%2 == 1 {
		dev.NoHmac384 = true
	}
	tag := fmt.Sprintf("client pos=%d cfg=%s/%s/%s hmac384=%v input=%s(%d,%d)", d.Pos, cfg.Key, cfg.Kex, cfg.Cipher, !dev.NoHmac384, d.In.Kind, d.In.Node, d.In.Arg)
	hit := false
	nth69 := 0
	var delivered int
	hook := func(svc *deploy.Service) *deploy.Link {
		l := deploy.NewLink(svc)
		l.OnResponse = func(ex *deploy.Exchange) *deploy.Action {
			if int(ex.RespType) != d.Pos || hit || ex.RespStatus != 200 {
				return nil
			}
			if d.In.Kind == "manykv" && d.Pos == 69 {
				// service-info floods are delivered at the Node-th OwnerServiceInfo of the run (0..2),
				// so also after devmod and the module's activation
				nth69++
				if nth69-1 != d.In.Node%3 {
					return nil
				}
			}
			hit = true
			if d.In.Kind == "http" {
				delivered = len(ex.RespBody) + 1
				return httpFault(d.In.Hex, ex)
			}
			if d.Pos >= 65 {
				sc, ok := svc.Mem.SessionCrypter(ex.ReqToken)
				if !ok {
					return nil
				}
				if d.In.Kind == "envelope" {
					b, ok := transform(ex.RespBody, input{Kind: "mutate", Node: d.In.Node, Arg: d.In.Arg})
					if !ok {
						return nil
					}
					delivered = len(b)
					return &deploy.Action{Body: b}
				}
				if d.In.Kind == "remac" {
					b, _, ok := remac(ex.RespBody, sc.SVK, d.In)
					if !ok {
						return nil
					}
					delivered = len(b)
					return &deploy.Action{Body: b}
				}
				pt, err := sc.Decrypt(rand.Reader, bytes.NewReader(ex.RespBody))
				if err != nil {
					return nil
				}
				mp, ok := transform(pt, d.In)
				if !ok {
					return nil
				}
				enc, err := sc.Encrypt(rand.Reader, cbor.RawBytes(mp))
				if err != nil {
					return nil
				}
				b, _ := cbor.Marshal(enc)
				delivered = len(b)
				return &deploy.Action{Body: b}
			}
			b, ok := transform(ex.RespBody, d.In)
			if !ok {
				return nil
			}
			delivered = len(b)
			return &deploy.Action{Body: b}
		}
		return l
	}
	var runErr error
	run := func() {
		switch {
		case d.Pos <= 13:
			runErr = dev.DI(ctx, hook(mfg))
		default:
			if err := dev.DI(ctx, deploy.NewLink(mfg)); err != nil {
				runErr = fmt.Errorf("setup DI: %w", err)
				return
			}
			if _, err := deploy.TransferVoucher(ctx, cfg, mfg, deploy.KeyMfg, owner, deploy.KeyOwner1, dev.Cred.GUID); err != nil {
				runErr = fmt.Errorf("setup transfer: %w", err)
				return
			}
			switch {
			case d.Pos <= 23:
				_, runErr = deploy.RegisterTO0(ctx, owner, hook(rv), dev.Cred.GUID, deploy.DefaultAddrs(), 3600)
			case d.Pos <= 33:
				if _, err := deploy.RegisterTO0(ctx, owner, deploy.NewLink(rv), dev.Cred.GUID, deploy.DefaultAddrs(), 3600); err != nil {
					runErr = fmt.Errorf("setup TO0: %w", err)
					return
				}
				_, runErr = dev.TO1(ctx, hook(rv))
			default:
				_, runErr = dev.TO2(ctx, hook(owner), nil)
			}
		}
	}
	before := totalAlloc()
	var pkey, pmsg string
	ok := true
	// A device that keeps exchanging messages because the owner never reports
	// completion is polling, not hanging (the protocol lets the owner decide when
	// it is done, the library bounds it at 1e6 rounds). So: after 4 s the context is
	// cancelled; a role that then does not return within 15 s hangs.
	done := make(chan struct{})
	go func() { defer close(done); pkey, pmsg, ok = ev.Guard(run) }()
	polling := false
	select {
	case <-done:
	case <-time.After(4 * time.Second):
		polling = true
		cancel()
		select {
		case <-done:
		case <-time.After(15 * time.Second):
			return ev.Failf(fmt.Sprintf("hang:client-%d", d.Pos), "%s: the client role did not return within 15 s after its context was cancelled", tag)
		}
	}
	delta := totalAlloc() - before
	if !ok {
		return ev.Failf(pkey, "%s: the client role panicked: %s", tag, pmsg)
	}
	if runErr != nil && strings.HasPrefix(runErr.Error(), "setup ") {
		return ev.Failf("setup", "%s: %v", tag, runErr)
	}
	if !hit || delivered == 0 {
		return ev.Trivial("position-not-reached-or-input-not-applicable")
	}
	if !polling && delta > 24<<20+allocB*uint64(delivered) {
		return ev.Failf(fmt.Sprintf("alloc:client-%d", d.Pos), "%s: the run allocated %d bytes for a %d-byte hostile response", tag, delta, delivered)
	}
	cls := "error"
	if runErr == nil {
		cls = "accepted"
	}
	if os.Getenv("VERIF_DEBUG") != "" {
		fmt.Fprintf(os.Stderr, "DEBUG %s: delivered=%d runErr=%v\n", tag, delivered, runErr)
	}
	if polling {
		cls = "polling-until-cancelled"
	}
	res := ev.OK(fmt.Sprintf("client-%d/%s/%s", d.Pos, d.In.Kind, cls))
	res.ID = fmt.Sprintf("c|%d|%d|%s|%d|%d|%d|%d|%d|%s", d.Pos, d.Cfg%len(cfgs), d.In.Kind, d.In.Node, d.In.Arg, d.In.Node2, d.In.Arg2, d.In.Size, d.In.Hex+d.In.Op+fmt.Sprint(d.In.Resign))
	return res
}

// honestResponses runs the whole honest chain once and returns the plaintext of
// the first response of every type.
func honestResponses(cfg deploy.Config) (map[int][]byte, error) {
	ctx, cancel := context.WithTimeout(context.Background(), 60*time.Second)
	defer cancel()
	mfg, owner, rv := deploy.NewMemService("mfg", deploy.KeyMfg), deploy.NewMemService("owner", deploy.KeyOwner1), deploy.NewMemService("rv", deploy.KeyStranger)
	owner.Modules.Factory = func(ctx context.Context) []deploy.NamedModule {
		tr, _ := cbor.Marshal(true)
		return []deploy.NamedModule{{Name: "probe", Mod: &deploy.ScriptOwnerModule{ModName: "probe", Steps: []deploy.OwnerStep{{Send: []deploy.KVMsg{{Name: "active", Body: tr}}}, {Send: []deploy.KVMsg{{Name: "x", Body: tr}}, Done: true}}}}}
	}
	dev := deploy.NewDevice(cfg, deploy.KeyDevice)
	dev.Modules = map[string]serviceinfo.DeviceModule{"probe": &deploy.RecDeviceModule{}}
	out := map[int][]byte{}
	hook := func(svc *deploy.Service) *deploy.Link {
		l := deploy.NewLink(svc)
		l.OnResponse = func(ex *deploy.Exchange) *deploy.Action {
			t := int(ex.RespType)
			if _, seen := out[t]; seen || ex.RespStatus != 200 {
				return nil
			}
			body := ex.RespBody
			if t >= 65 {
				sc, ok := svc.Mem.SessionCrypter(ex.ReqToken)
				if !ok {
					return nil
				}
				pt, err := sc.Decrypt(rand.Reader, bytes.NewReader(body))
				if err != nil {
					return nil
				}
				body = pt
			}
			out[t] = append([]byte{}, body...)
			return nil
		}
		return l
	}
	if err := dev.DI(ctx, hook(mfg)); err != nil {
		return nil, err
	}
	if _, err := deploy.TransferVoucher(ctx, cfg, mfg, deploy.KeyMfg, owner, deploy.KeyOwner1, dev.Cred.GUID); err != nil {
		return nil, err
	}
	if _, err := deploy.RegisterTO0(ctx, owner, hook(rv), dev.Cred.GUID, deploy.DefaultAddrs(), 3600); err != nil {
		return nil, err
	}
	if _, err := dev.TO1(ctx, hook(rv)); err != nil {
		return nil, err
	}
	if _, err := dev.TO2(ctx, hook(owner), nil); err != nil {
		return nil, err
	}
	return out, nil
}

var httpFaults = []string{"type-missing", "type-text", "type-negative", "type-256", "type-huge", "type-zero", "type-other", "type-error-with-honest-body",
	"status-204", "status-301", "status-404", "status-500", "token-missing", "token-garbage", "token-huge", "ctype-text", "clen-zero", "clen-larger", "clen-huge", "clen-negative", "body-empty", "body-70k"}

// httpFault alters the HTTP envelope of an honest response.
func httpFault(kind string, ex *deploy.Exchange) *deploy.Action {
	a := &deploy.Action{Headers: map[string]string{}}
	i64 := func(v int64) *int64 { return &v }
	switch kind {
	case "type-missing":
		a.Headers["Message-Type"] = ""
	case "type-text":
		a.Headers["Message-Type"] = "abc"
	case "type-negative":
		a.Headers["Message-Type"] = "-1"
	case "type-256":
		a.Headers["Message-Type"] = "256"
	case "type-huge":
		a.Headers["Message-Type"] = "99999999999999999999"
	case "type-zero":
		a.Headers["Message-Type"] = "0"
	case "type-other":
		a.Headers["Message-Type"] = strconv.Itoa(int(ex.RespType) + 2)
	case "type-error-with-honest-body":
		a.Headers["Message-Type"] = "255"
	case "status-204":
		a.Status = 204
	case "status-301":
		a.Status = 301
	case "status-404":
		a.Status = 404
	case "status-500":
		a.Status = 500
	case "token-missing":
		a.Headers["Authorization"] = ""
	case "token-garbage":
		a.Headers["Authorization"] = "Bearer !!!"
	case "token-huge":
		a.Headers["Authorization"] = "Bearer " + strings.Repeat("A", 70000)
	case "ctype-text":
		a.Headers["Content-Type"] = "text/html"
	case "clen-zero":
		a.CLen = i64(0)
	case "clen-larger":
		a.CLen = i64(int64(len(ex.RespBody)) + 10)
	case "clen-huge":
		a.CLen = i64(1 << 40)
	case "clen-negative":
		a.CLen = i64(-1)
	case "body-empty":
		a.Body = []byte{}
	case "body-70k":
		a.Body = bytes.Repeat([]byte{0x81}, 70000)
	}
	return a
}

// ---------------------------------------------------------------------------
// HTTP layer
// ---------------------------------------------------------------------------

type httpDesc struct {
	Method  string `json:"method"`
	Path    string `json:"path"`
	Auth    string `json:"auth"`
	CLen    int64  `json:"content_length"` // declared (-2 = actual)
	BodyHex string `json:"body"`
	Partial bool   `json:"partial"` // handler configured with only the TO2 responder
}

func evalHTTP(d httpDesc) ev.Result {
	svc := deploy.NewMemService("aio", deploy.KeyOwner1)
	var h http.Handler = svc.Handler
	if d.Partial {
		hh := *svc.Handler
		hh.DIResponder, hh.TO0Responder, hh.TO1Responder = nil, nil, nil
		h = &hh
	}
	body, _ := hex.DecodeString(d.BodyHex)
	req, err := http.NewRequest(d.Method, "http://svc.test"+d.Path, io.NopCloser(bytes.NewReader(body)))
	if err != nil {
		return ev.Trivial("unbuildable-request")
	}
	req.ContentLength = int64(len(body))
	if d.CLen != -2 {
		req.ContentLength = d.CLen
	}
	if d.Auth != "" {
		req.Header.Set("Authorization", d.Auth)
	}
	var panicked string
	var status, typ int
	var rb []byte
	before := totalAlloc()
	if !ev.WithTimeout(20*time.Second, func() {
		rec, p := deploy.Serve(h, req)
		panicked = p
		if p == "" {
			resp := rec.Result()
			status = resp.StatusCode
			rb, _ = io.ReadAll(resp.Body)
			fmt.Sscanf(resp.Header.Get("Message-Type"), "%d", &typ)
			if resp.Header.Get("Message-Type") == "" {
				typ = -1
			}
		}
	}) {
		return ev.Failf("hang:http", "no response within 20 s for %s %s", d.Method, d.Path)
	}
	delta := totalAlloc() - before
	tag := fmt.Sprintf("%s %q auth=%q clen=%d body=%d partial=%v", d.Method, d.Path, d.Auth, d.CLen, len(body), d.Partial)
	if panicked != "" {
		return ev.Failf(peer.PanicKey(panicked), "%s: handler panicked: %s", tag, strings.SplitN(panicked, "\n", 2)[0])
	}
	if delta > allocA+allocB*uint64(len(body)+len(d.Path)+len(d.Auth)) {
		return ev.Failf("alloc:http", "%s: allocated %d bytes", tag, delta)
	}
	// anything routed to a responder (POST /fdo/101/msg/<0..255>) must be answered by an FDO message
	var n int
	routed := d.Method == http.MethodPost && strings.HasPrefix(d.Path, "/fdo/101/msg/") && !strings.Contains(strings.TrimPrefix(d.Path, "/fdo/101/msg/"), "/")
	if routed {
		if _, err := fmt.Sscanf(strings.TrimPrefix(d.Path, "/fdo/101/msg/"), "%d", &n); err != nil || n < 0 || n > 255 || fmt.Sprint(n) != strings.TrimPrefix(d.Path, "/fdo/101/msg/") {
			routed = false
		}
	}
	if routed && n != 255 {
		okNext := status == 200 && typ == n+1
		okErr := typ == 255 && (status == 200 || status == 500)
		if !okNext && !okErr {
			return ev.Failf("response-shape:http", "%s: answered status %d Message-Type %d body %x — neither the next message nor an FDO error message", tag, status, typ, rb[:min(len(rb), 30)])
		}
	}
	res := ev.OK(fmt.Sprintf("http/%d", status))
	return res
}

// ---------------------------------------------------------------------------

// genDevmodMsg generates a whole TO2.DeviceServiceInfo body from a devmod grammar: any
// subset/order/multiplicity of the devmod keys, nummodules from small, negative and huge values,
// and several devmod:modules chunks whose [start, len, names...] are consistent on their own
// but need not fit each other or the announced count (multi-step histories inside one body).
func genDevmodMsg(t *rapid.T) []byte {
	enc := func(n *refcbor.Node) *refcbor.Node { return refcbor.B(refcbor.Encode(n)) }
	num := rapid.SampledFrom([]int64{0, 1, 2, 3, 3, 4, 5, 6, 8, -1, 1 << 31, 1 << 40}).Draw(t, "nummodules")
	var kvs []*refcbor.Node
	kv := func(k string, v *refcbor.Node) { kvs = append(kvs, refcbor.A(refcbor.T("devmod:"+k), enc(v))) }
	if rapid.IntRange(0, 4).Draw(t, "lead") > 0 {
		kv("active", refcbor.Bool(true))
	}
	if rapid.IntRange(0, 4).Draw(t, "numfirst") > 0 {
		kv("nummodules", refcbor.I(num))
	}
	n := rapid.IntRange(1, 7).Draw(t, "nkv")
	names := []string{"a", "b", "c", "fdo.download", "devmod", "x"}
	small := num
	if small < 0 || small > 8 {
		small = 3
	}
	next := int64(0) // index an honest device would send next
	for i := 0; i < n; i++ {
		switch rapid.IntRange(0, 11).Draw(t, "what") {
		case 0:
			kv("nummodules", refcbor.I(rapid.SampledFrom([]int64{num, num, small, small + 1, 0}).Draw(t, "num2")))
		case 1, 2, 3, 4, 5, 6, 7:
			// a chunk that is well-formed on its own; start/len relative to what an honest device would send
			rem := small - next
			start := rapid.SampledFrom([]int64{next, next, next, 0, next - 1, next + 1, small - 1, small, -1}).Draw(t, "start")
			l := rapid.SampledFrom([]int64{rem, rem, 1, 2, rem + 1, rem - 1, 0, small, 3}).Draw(t, "len")
			if l < 0 {
				l = 0
			}
			cnt := l + rapid.SampledFrom([]int64{0, 0, 0, 0, 0, 0, -1, 1}).Draw(t, "delta")
			items := []*refcbor.Node{refcbor.I(start), refcbor.I(l)}
			for j := int64(0); j < cnt; j++ {
				items = append(items, refcbor.T(names[(int64(i)+j)%int64(len(names))]))
			}
			kv("modules", refcbor.A(items...))
			if start == next && l <= rem {
				next += l
			}
		case 8:
			k := rapid.SampledFrom([]string{"os", "arch", "version", "device", "sep", "bin", "nl", "tmp", "dir", "progenv", "mudurl", "pathsep"}).Draw(t, "strkey")
			kv(k, refcbor.T(rapid.SampledFrom([]string{"", "x", "linux", "/tmp"}).Draw(t, "sv")))
		case 9:
			kv("sn", refcbor.B([]byte("sn1")))
		case 10:
			kv(rapid.SampledFrom([]string{"nummodules", "modules", "active", "os", "unknown"}).Draw(t, "badkey"), rapid.SampledFrom([]*refcbor.Node{refcbor.Null(), refcbor.T("x"), refcbor.A(), refcbor.I(-5), refcbor.A(refcbor.I(0)), refcbor.A(refcbor.I(0), refcbor.I(1)), refcbor.A(refcbor.T("a"), refcbor.I(1), refcbor.I(2))}).Draw(t, "badval"))
		default:
			kv("active", refcbor.Bool(rapid.Bool().Draw(t, "act")))
		}
	}
	return refcbor.Encode(refcbor.A(refcbor.Bool(rapid.IntRange(0, 3).Draw(t, "more") == 0), refcbor.A(kvs...)))
}

func genInput(t *rapid.T, pos int) input {
	protectedPos := pos >= 65 && pos <= 71
	kinds := []string{"mutate", "mutate", "mutate", "mutate", "mutate2", "bit", "trunc", "extend", "random", "nest", "binleaf"}
	if protectedPos {
		kinds = append(kinds, "envelope", "envelope", "remac")
	}
	if pos == 68 || pos == 69 {
		kinds = append(kinds, "manykv", "manykv")
	}
	if pos == 68 {
		kinds = append(kinds, "devmod", "devmod", "devmod")
	}
	in := input{Kind: rapid.SampledFrom(kinds).Draw(t, "kind"), Node: rapid.IntRange(0, 120).Draw(t, "node"), Arg: int64(rapid.IntRange(-6000, 6000).Draw(t, "arg"))}
	switch in.Kind {
	case "mutate", "mutate2":
		in.Resign = rapid.Bool().Draw(t, "resign")
	case "binleaf":
		in.Resign = true
	case "manykv":
		in.Size = rapid.IntRange(0, 6).Draw(t, "count")
	case "remac":
		in.Node = rapid.IntRange(0, remacShapes+40).Draw(t, "remacnode")
	}
	switch in.Kind {
	case "mutate2":
		in.Node2, in.Arg2 = rapid.IntRange(0, 120).Draw(t, "node2"), int64(rapid.IntRange(-6000, 6000).Draw(t, "arg2"))
	case "extend", "nest":
		in.Size = rapid.IntRange(0, 63).Draw(t, "size")
	case "devmod":
		in.Kind, in.Op = "literal", "devmod-grammar"
		in.Hex = hex.EncodeToString(genDevmodMsg(t))
	case "random":
		n := rapid.SampledFrom([]int{0, 1, 2, 5, 17, 64, 300}).Draw(t, "rlen")
		in.Hex = hex.EncodeToString(rapid.SliceOfN(rapid.Byte(), n, n).Draw(t, "rbytes"))
	}
	return in
}

func TestC10(t *testing.T) {
	r := ev.Start(t, "C10")
	defer r.Finish()

	r.SetRule("controls", "exhaustive: every server position (10,12,20,22,30,32,60,62,64,66,68,70,255) × 5 configurations with the honest message built by the manual peers: must be answered by the next message")
	ev.Enum(r, "controls", true, func(yield func(caseDesc) bool) {
		i := 0
		for c := range cfgs {
			for _, p := range serverPositions {
				i++
				if !r.Mine(i) {
					continue
				}
				if !yield(caseDesc{Side: "server", Pos: p, Cfg: c, In: input{Kind: "honest"}}) {
					return
				}
			}
		}
	}, func(d caseDesc) ev.Result {
		res := evalServer(d)
		if res.Fail == "" {
			res.NonTrivial = true
			if !strings.HasSuffix(res.Class, fmt.Sprintf("/%d", d.Pos+1)) && d.Pos != 255 {
				return ev.Failf("honest-refused", "the honest message at position %d (%s) was not answered by the next message: %s", d.Pos, cfgs[d.Cfg].Key, res.Class)
			}
		}
		return res
	})

	r.SetRule("targets", "hand-picked hostile values at the places where peer-supplied integers are used as sizes, indices or algorithm choices: devmod:nummodules negative / 2^31 / 2^62 / text, devmod:modules chunk beyond the announced count, before nummodules, with negative start/len; GetOVNextEntry index -1 / len / 2^62; RSA-1024 public keys in SetCredentials, ProveOVHdr, OVNextEntry and SetupDevice; a client error message naming a protocol whose responder is not configured; for the encrypt-then-MAC suites every protected position in both directions × 13 hostile inner COSE_Encrypt0 shapes (empty / 1 / 15 / 16 / 17-byte / null ciphertext, empty / short / long / null / absent IV, emptied protected header, identity control) under a MAC recomputed with the session key; same oracle as server/client/http")
	enc := func(n *refcbor.Node) string { return hex.EncodeToString(refcbor.Encode(n)) }
	var targets []caseDesc
	for c := range cfgs {
		for _, v := range []*refcbor.Node{refcbor.I(-1), refcbor.U(1 << 31), refcbor.U(1 << 62), refcbor.U(1<<64 - 1), refcbor.T("3"), refcbor.U(100001), refcbor.U(0)} {
			targets = append(targets, caseDesc{Side: "server", Pos: 68, Cfg: c, In: input{Kind: "setkv", Hex: "devmod:nummodules=" + enc(v)}})
		}
		for _, v := range []*refcbor.Node{refcbor.A(refcbor.U(1), refcbor.U(2), refcbor.T("a"), refcbor.T("b")), refcbor.A(refcbor.U(2), refcbor.U(1), refcbor.T("a")), refcbor.A(refcbor.I(-1), refcbor.U(1), refcbor.T("a")),
			refcbor.A(refcbor.U(0), refcbor.I(-1)), refcbor.A(refcbor.U(0), refcbor.U(1<<62), refcbor.T("a")), refcbor.A(refcbor.U(0)), refcbor.A(refcbor.U(0), refcbor.U(1), refcbor.U(5)), refcbor.A(refcbor.U(1<<62), refcbor.U(1), refcbor.T("a"))} {
			targets = append(targets, caseDesc{Side: "server", Pos: 68, Cfg: c, In: input{Kind: "setkv", Hex: "devmod:modules=" + enc(v)}})
		}
		for _, v := range []*refcbor.Node{refcbor.I(-1), refcbor.U(1), refcbor.U(2), refcbor.U(255), refcbor.U(1 << 62), refcbor.I(-1 << 62)} {
			targets = append(targets, caseDesc{Side: "server", Pos: 62, Cfg: c, In: input{Kind: "literal", Hex: enc(refcbor.A(v))}})
		}
		// service-info lists in which EVERY entry has the empty key (one, two, many), both directions
		for _, n := range []int{1, 2, 5, 300} {
			var kvs []*refcbor.Node
			for i := 0; i < n; i++ {
				kvs = append(kvs, refcbor.A(refcbor.T(""), refcbor.B([]byte{0xf5})))
			}
			for _, more := range []bool{false, true} {
				targets = append(targets, caseDesc{Side: "server", Pos: 68, Cfg: c, In: input{Kind: "literal", Op: "empty-keys", Hex: enc(refcbor.A(refcbor.Bool(more), refcbor.A(kvs...)))}},
					caseDesc{Side: "client", Pos: 69, Cfg: c, In: input{Kind: "literal", Op: "empty-keys", Hex: enc(refcbor.A(refcbor.Bool(more), refcbor.Bool(false), refcbor.A(kvs...)))}})
			}
		}
		// devmod module-list chunks whose declared length disagrees wildly with the names carried
		for _, l := range []*refcbor.Node{refcbor.I(-1), refcbor.I(-1 << 63), refcbor.U(1<<63 - 1), refcbor.U(4194304), refcbor.U(1 << 31)} {
			for _, names := range [][]*refcbor.Node{{}, {refcbor.T("a")}} {
				targets = append(targets, caseDesc{Side: "server", Pos: 68, Cfg: c, In: input{Kind: "setkv", Hex: "devmod:modules=" + enc(refcbor.A(append([]*refcbor.Node{refcbor.U(0), l}, names...)...))}})
			}
		}
		for a := int64(0); a < 33; a++ {
			targets = append(targets, caseDesc{Side: "server", Pos: 64, Cfg: c, In: input{Kind: "binleaf", Node: 0, Arg: a, Resign: true}})
			for n := 0; n < 8; n++ {
				targets = append(targets, caseDesc{Side: "client", Pos: 61, Cfg: c, In: input{Kind: "binleaf", Node: n, Arg: a, Resign: true}})
			}
		}
		for sz := 0; sz < 7; sz++ {
			for a := int64(0); a < 16; a++ {
				if a < 8 {
					targets = append(targets, caseDesc{Side: "server", Pos: 68, Cfg: c, In: input{Kind: "manykv", Size: sz, Arg: a}})
				}
				for nth := 0; nth < 3; nth++ {
					if nth > 0 && a < 8 && a%4 == 0 {
						continue
					}
					targets = append(targets, caseDesc{Side: "client", Pos: 69, Cfg: c, In: input{Kind: "manykv", Node: nth, Size: sz, Arg: a}})
				}
			}
		}
		if strings.HasPrefix(cfgs[c].Cipher, "COSE") { // encrypt-then-MAC suites: hostile inner Encrypt0 under a correct MAC
			for shape := 0; shape < remacShapes; shape++ {
				for _, a := range []int64{0, 16} {
					for _, p := range []int{66, 68, 70} {
						targets = append(targets, caseDesc{Side: "server", Pos: p, Cfg: c, In: input{Kind: "remac", Node: shape, Arg: a}})
					}
					for _, p := range []int{65, 67, 69, 71} {
						targets = append(targets, caseDesc{Side: "client", Pos: p, Cfg: c, In: input{Kind: "remac", Node: shape, Arg: a}})
					}
				}
			}
		}
		for _, p := range []int{11, 61, 63, 65} {
			targets = append(targets, caseDesc{Side: "client", Pos: p, Cfg: c, In: input{Kind: "weakkey"}}, caseDesc{Side: "client", Pos: p, Cfg: c, In: input{Kind: "weakkey", Arg: 1}})
		}
	}
	ev.Enum(r, "targets", true, func(yield func(caseDesc) bool) {
		for i, tc := range targets {
			if !r.Mine(i) {
				continue
			}
			if !yield(tc) {
				return
			}
		}
	}, func(d caseDesc) ev.Result {
		if d.Side == "client" {
			return evalClient(d)
		}
		return evalServer(d)
	})
	ev.Enum(r, "targets-http", true, func(yield func(httpDesc) bool) {
		i := 0
		for _, prev := range []int{10, 12, 20, 30, 60, 70, 99, 255} {
			for _, partial := range []bool{false, true} {
				for _, auth := range []string{"", "Bearer abc"} {
					i++
					if r.Mine(i) && !yield(httpDesc{Method: "POST", Path: "/fdo/101/msg/255", Auth: auth, CLen: -2, BodyHex: hex.EncodeToString(peer.ErrorBody(prev)), Partial: partial}) {
						return
					}
				}
			}
		}
	}, evalHTTP)
	r.SetRule("targets-http", "client error messages naming every protocol, sent to a handler with all or only the TO2 responder configured")

	// ---- sweep: every node × every applicable operator with key arguments ----
	hostileIdx := func(v uint64) int64 {
		for i, h := range refcbor.Hostile {
			if h == v {
				return int64(i)
			}
		}
		panic("hostile value missing")
	}
	lenIdx := func(v uint64) int64 {
		for i, h := range refcbor.HostileLens {
			if h == v {
				return int64(i)
			}
		}
		panic("hostile length missing")
	}
	type opArg struct {
		op  string
		arg int64
	}
	opsFor := func(k refcbor.Kind) []opArg {
		out := []opArg{{"null", 0}, {"del", 0}, {"wrap", 0}, {"retype", 0}, {"addtag", 2}}
		lens := []opArg{{"inflate", lenIdx(65536)}, {"inflate", lenIdx(1 << 31)}, {"inflate", lenIdx(1 << 32)}, {"inflate", lenIdx(1 << 63)}, {"inflate", lenIdx(1<<64 - 1)}, {"deflate", 0}}
		switch k {
		case refcbor.Uint, refcbor.Nint:
			out = append(out, opArg{"intset", 0}, opArg{"intset", 8}, opArg{"intset", 10}, opArg{"intset", 11}, opArg{"intset", 20},
				opArg{"hostile", hostileIdx(1 << 31)}, opArg{"hostile", hostileIdx(1 << 63)}, opArg{"hostile", hostileIdx(1<<64 - 1)}, opArg{"hostile", hostileIdx(100_001)}, opArg{"hostile", hostileIdx(3)}, opArg{"hostile", -3}, opArg{"intadd", 0}, opArg{"intadd", -1})
		case refcbor.Bytes, refcbor.Text:
			out = append(append(out, opArg{"empty", 0}, opArg{"trunc", 0}, opArg{"extend", 0}, opArg{"zero", 0}, opArg{"flipbit", 0}, opArg{"unwrap", 0}), lens...)
		case refcbor.Array, refcbor.Map:
			out = append(append(out, opArg{"empty", 0}, opArg{"trunc", 0}, opArg{"extend", 0}, opArg{"dup", 0}), lens...)
		case refcbor.Tag:
			out = append(out, opArg{"untag", 0}, opArg{"tagnum", 0}, opArg{"tagnum", 8})
		default:
			out = append(out, opArg{"bool", 0}, opArg{"undef", 0})
		}
		return out
	}
	sweepCfgs := []int{0, 1, 3}
	if r.Thorough() {
		sweepCfgs = []int{0, 1, 2, 3, 4}
	}
	r.SetRule("sweep-server", "systematic: for every server position and configuration (quick: 3 of 5, thorough: all), EVERY node of the honest message (descending into bstr-wrapped items) × every operator applicable to its kind with key arguments (null, delete, wrap, retype, tag; integers: 0, 2^31, 2^32-1, 2^63-1, 2^63, 2^64-1, -1, -2^63, unregistered ids; strings/containers: empty, shorter, longer, declared length 65536 / 2^31 / 2^32 / 2^63 / 2^64-1 / too small), each once as is and, where the message carries signatures made with a deployment key, once re-signed; same oracle as server")
	ev.Enum(r, "sweep-server", true, func(yield func(caseDesc) bool) {
		i := 0
		for _, c := range sweepCfgs {
			w, err := newSrvWorld(context.Background(), cfgs[c])
			if err != nil {
				panic(err)
			}
			for _, p := range serverPositions {
				_, honest, _, err := w.reach(p)
				if err != nil {
					panic(fmt.Sprintf("sweep: reach %d: %v", p, err))
				}
				tree, err := refcbor.ParseAll(honest)
				if err != nil {
					continue
				}
				refcbor.ExpandBstr(tree)
				signed := p == 22 || p == 32 || p == 64
				for n, ref := range refcbor.Refs(tree) {
					for _, oa := range opsFor(ref.Node.Kind) {
						for _, rs := range []bool{false, true} {
							if rs && !signed {
								continue
							}
							i++
							if !r.Mine(i) {
								continue
							}
							if !yield(caseDesc{Side: "server", Pos: p, Cfg: c, In: input{Kind: "op", Op: oa.op, Node: n, Arg: oa.arg, Resign: rs}}) {
								return
							}
						}
					}
				}
			}
		}
	}, evalServer)

	r.SetRule("sweep-client", "systematic: for every response position (11..71) and configuration (quick: 2 of 5, thorough: all), EVERY node of the honest response × every applicable operator with key arguments (as sweep-server), as is and, where the response carries a signature made with a deployment key (31, 33, 61, 63, 65), re-signed; delivered to the real client role by the man in the middle; same oracle as client")
	ev.Enum(r, "sweep-client", true, func(yield func(caseDesc) bool) {
		i := 0
		cc := []int{0, 3}
		if r.Thorough() {
			cc = []int{0, 1, 2, 3, 4}
		}
		for _, c := range cc {
			honest, err := honestResponses(cfgs[c])
			if err != nil {
				panic(fmt.Sprintf("sweep-client: honest run: %v", err))
			}
			for _, p := range clientPositions {
				body, ok := honest[p]
				if !ok {
					panic(fmt.Sprintf("sweep-client: no honest response %d", p))
				}
				tree, err := refcbor.ParseAll(body)
				if err != nil {
					continue
				}
				refcbor.ExpandBstr(tree)
				signed := p == 31 || p == 33 || p == 61 || p == 63 || p == 65
				for n, ref := range refcbor.Refs(tree) {
					for _, oa := range opsFor(ref.Node.Kind) {
						for _, rs := range []bool{false, true} {
							if rs && !signed {
								continue
							}
							i++
							if !r.Mine(i) {
								continue
							}
							if !yield(caseDesc{Side: "client", Pos: p, Cfg: c, In: input{Kind: "op", Op: oa.op, Node: n, Arg: oa.arg, Resign: rs}}) {
								return
							}
						}
					}
				}
			}
		}
	}, evalClient)

	r.SetRule("client-http", "exhaustive: every response position × 2 configurations × 22 alterations of the HTTP envelope of the honest response (Message-Type header missing / text / negative / 256 / huge / 0 / another type / 255 with the honest body; status 204 / 301 / 404 / 500; Authorization missing / garbage / 70 kB; Content-Type; declared Content-Length 0 / larger / 2^40 / -1; empty and 70 kB bodies) delivered to the real client roles; same oracle as client")
	ev.Enum(r, "client-http", true, func(yield func(caseDesc) bool) {
		i := 0
		for _, c := range []int{0, 3} {
			for _, p := range clientPositions {
				for _, flt := range httpFaults {
					i++
					if !r.Mine(i) {
						continue
					}
					if !yield(caseDesc{Side: "client", Pos: p, Cfg: c, In: input{Kind: "http", Hex: flt}}) {
						return
					}
				}
			}
		}
	}, evalClient)

	r.SetRule("server", "for every server position, after the honest preceding steps (manual peers against the real responders behind the real HTTP handler, 5 configurations covering EC/RSA keys, all key-exchange families, AEAD and encrypt-then-MAC ciphers) the message is replaced by: one or two structure-aware mutations of the honest message (all operators: out-of-range enum/algorithm ids, null/absent optionals, negative and huge integers, length inflation, type changes, wrap/unwrap, duplicated/deleted items), bit flip, truncation, extension, random bytes, nested length-inflated containers up to 60 KiB, at 68 also whole DeviceServiceInfo bodies from a devmod grammar (any order/multiplicity of devmod keys, nummodules small/negative/huge, several modules chunks that are consistent alone but need not fit each other or the announced count); at protected positions (66,68,70) the plaintext is mutated and correctly re-encrypted, or the envelope is mutated. Oracle: no panic, response within 20 s, allocation ≤ 3 MiB + 1 KiB·len, and the response is the legitimate next message or a well-formed FDO ErrorMessage. Non-trivial: every delivered hostile message; distinct by (position, config, input).")
	ev.Rapid(r, "server", ev.N{Quick: 9000, Thorough: 400000}, func(t *rapid.T) caseDesc {
		p := rapid.SampledFrom(serverPositions).Draw(t, "pos")
		return caseDesc{Side: "server", Pos: p, Cfg: rapid.IntRange(0, len(cfgs)-1).Draw(t, "cfg"), In: genInput(t, p)}
	}, evalServer)

	r.SetRule("devmod", "whole TO2.DeviceServiceInfo (68) bodies from the devmod grammar delivered, correctly encrypted, to a session that completed 60..66: nummodules N (0..8, negative, 2^31, 2^40), then 1..7 entries: modules chunks [start, len, names...] that are well-formed on their own with start ∈ {the index an honest device would send next, 0, next±1, N-1, N, -1} and len ∈ {remaining, remaining±1, 0, 1, 2, 3, N} (several chunks per body are concatenated into one stream by the library, so this is a multi-step devmod history), repeated/changed nummodules, other devmod keys, wrongly typed values; same oracle as server")
	ev.Rapid(r, "devmod", ev.N{Quick: 1600, Thorough: 100000}, func(t *rapid.T) caseDesc {
		return caseDesc{Side: "server", Pos: 68, Cfg: rapid.IntRange(0, len(cfgs)-1).Draw(t, "cfg"), In: input{Kind: "literal", Op: "devmod-grammar", Hex: hex.EncodeToString(genDevmodMsg(t))}}
	}, evalServer)

	r.SetRule("client", "for every response position (11,13,21,23,31,33,61,63,65,67,69,71) the real client role (fdo.DI, TO0Client.RegisterBlob, fdo.TO1, fdo.TO2 with a device module) runs against the honest service while a man-in-the-middle replaces that response by a hostile variant (same operators; for 65..71 the plaintext is mutated and re-encrypted under the session keys, or the envelope is mutated). Oracle: the role returns (value or error) within 30 s, no panic, bounded allocation. Non-trivial: every delivered hostile response.")
	ev.Rapid(r, "client", ev.N{Quick: 4000, Thorough: 200000}, func(t *rapid.T) caseDesc {
		p := rapid.SampledFrom(clientPositions).Draw(t, "pos")
		return caseDesc{Side: "client", Pos: p, Cfg: rapid.IntRange(0, len(cfgs)-1).Draw(t, "cfg"), In: genInput(t, p)}
	}, evalClient)

	r.SetRule("http", "requests at the HTTP boundary: method ∈ {POST, GET, PUT, DELETE}, path ∈ {/fdo/101/msg/<every type 0..255>, wrong version, extra segments, non-numeric, huge number, empty}, Authorization ∈ {none, Bearer + empty/short/huge/non-base64, other scheme}, declared Content-Length ∈ {actual, 0, -1, larger, 1 MiB}, bodies {empty, null, small array, 70 KiB}, with all responders configured or only TO2. Oracle: no panic, bounded allocation, and every POST to /fdo/101/msg/<n> is answered by the next message or an FDO error message (never 200 with Message-Type 0).")
	ev.Enum(r, "http-types", true, func(yield func(httpDesc) bool) {
		i := 0
		for n := 0; n <= 256; n++ {
			for _, partial := range []bool{false, true} {
				for _, body := range []string{"", "f6", "80", "8100"} {
					i++
					if !r.Mine(i) {
						continue
					}
					if !yield(httpDesc{Method: "POST", Path: fmt.Sprintf("/fdo/101/msg/%d", n), CLen: -2, BodyHex: body, Partial: partial}) {
						return
					}
				}
			}
		}
	}, evalHTTP)
	r.SetRule("http-types", "exhaustive: POST /fdo/101/msg/<0..256> × {all responders, only TO2} × 4 small bodies")
	ev.Rapid(r, "http", ev.N{Quick: 6000, Thorough: 200000}, func(t *rapid.T) httpDesc {
		d := httpDesc{Method: rapid.SampledFrom([]string{"POST", "POST", "POST", "GET", "PUT", "DELETE"}).Draw(t, "method"), CLen: -2, Partial: rapid.Bool().Draw(t, "partial")}
		switch rapid.IntRange(0, 6).Draw(t, "pathkind") {
		case 0, 1, 2:
			d.Path = fmt.Sprintf("/fdo/101/msg/%d", rapid.IntRange(0, 260).Draw(t, "type"))
		case 3:
			d.Path = rapid.SampledFrom([]string{"/fdo/100/msg/60", "/fdo/101/msg/60/extra", "/fdo/101/msg/", "/fdo/101/msg/abc", "/fdo/101/msg/99999999999999999999", "/", "", "/fdo/101/msg/-1", "/fdo/101/msg/060", "/fdo/101/msg/6%30", "//fdo/101/msg/60"}).Draw(t, "oddpath")
		default:
			d.Path = fmt.Sprintf("/fdo/101/msg/%d", rapid.SampledFrom([]int{10, 12, 20, 22, 30, 32, 60, 62, 64, 66, 68, 70, 255}).Draw(t, "ctype"))
		}
		switch rapid.IntRange(0, 7).Draw(t, "authkind") {
		case 0:
			d.Auth = "Bearer "
		case 1:
			d.Auth = "Bearer " + rapid.StringOfN(rapid.RuneFrom([]rune("ABCabc012-_")), 1, 40, -1).Draw(t, "tok")
		case 2:
			d.Auth = "Bearer " + strings.Repeat("A", rapid.SampledFrom([]int{1000, 70000}).Draw(t, "hugetok"))
		case 3:
			d.Auth = rapid.SampledFrom([]string{"Basic abc", "bearer x", "Bearer", "Bearer !!!", "Bearer AA", "Bearer AAAAAAAAAAAAAAAAAAAAA", "Bearer AAAAAAAAAAAAAAAAAAAAAA"}).Draw(t, "oddauth")
		}
		switch rapid.IntRange(0, 5).Draw(t, "clen") {
		case 0:
			d.CLen = 0
		case 1:
			d.CLen = -1
		case 2:
			d.CLen = 1 << 20
		case 3:
			d.CLen = 7
		}
		switch rapid.IntRange(0, 4).Draw(t, "bodykind") {
		case 0:
			d.BodyHex = ""
		case 1:
			d.BodyHex = hex.EncodeToString(rapid.SliceOfN(rapid.Byte(), 1, 40).Draw(t, "body"))
		case 2:
			d.BodyHex = strings.Repeat("81", 70000)
		default:
			d.BodyHex = rapid.SampledFrom([]string{"f6", "80", "8100", "a0", "40", "9a0001869f", "d1"}).Draw(t, "cbody")
		}
		return d
	}, evalHTTP)
	ev.CheckWitness(r, "server", evalServer)
	ev.CheckWitness(r, "client", evalClient)
	ev.CheckWitness(r, "http", evalHTTP)
	_ = fdo.ErrNotFound
	_ = protocol.GUID{}
}
