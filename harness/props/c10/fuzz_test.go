//go:build verif

package c10

import (
	"encoding/hex"
	"testing"
)

// FuzzServer: coverage-guided search at the server positions with the oracle of
// evalServer (no panic, answer within the watchdog, bounded allocation, response is
// the next message or an FDO error message). pos selects the position, cfg the
// configuration, mode how the bytes are used: 0 raw body, 1 mutation descriptor
// (node, arg from the first bytes) applied to the honest message and re-signed.
func FuzzServer(f *testing.F) {
	for i := range serverPositions {
		f.Add(byte(i), byte(0), byte(1), []byte{byte(i), 3, 0, 0})
		f.Add(byte(i), byte(1), byte(0), []byte{0x80})
		f.Add(byte(i), byte(3), byte(1), []byte{7, 0xff, 0xff, 1})
	}
	f.Add(byte(8), byte(0), byte(0), []byte{0xd2, 0x84, 0x40, 0xa0, 0xf6, 0x40})
	f.Add(byte(3), byte(0), byte(0), []byte{0x82, 0x5b, 0x80, 0, 0, 0, 0, 0, 0, 0, 0x40})
	f.Fuzz(func(t *testing.T, pos, cfg, mode byte, in []byte) {
		if len(in) > 4096 {
			t.Skip()
		}
		d := caseDesc{Side: "server", Pos: serverPositions[int(pos)%len(serverPositions)], Cfg: int(cfg) % len(cfgs)}
		if mode%2 == 0 || len(in) < 4 {
			d.In = input{Kind: "random", Hex: hex.EncodeToString(in)}
		} else {
			arg := int64(in[1])<<8 | int64(in[2])
			if in[3]&1 == 1 {
				arg = -arg
			}
			d.In = input{Kind: "mutate", Node: int(in[0]), Arg: arg, Resign: in[3]&2 == 2}
			if len(in) >= 8 {
				d.In.Kind, d.In.Node2, d.In.Arg2 = "mutate2", int(in[4]), int64(in[5])<<8|int64(in[6])
			}
		}
		res := evalServer(d)
		if res.Fail != "" && res.Key != "setup" {
			t.Fatalf("VIOLATION C10/fuzz key=%s: %s", res.Key, res.Fail)
		}
	})
}

// FuzzClient: the same search at the client positions (responses 11..71 delivered to the
// real DI/TO0/TO1/TO2 client roles by the man-in-the-middle link) with the oracle of
// evalClient (no panic, the role returns within the watchdog, bounded allocation).
func FuzzClient(f *testing.F) {
	for i := range clientPositions {
		f.Add(byte(i), byte(0), byte(1), []byte{byte(i), 3, 0, 0})
		f.Add(byte(i), byte(1), byte(0), []byte{0x80})
		f.Add(byte(i), byte(2), byte(1), []byte{5, 0xff, 0xff, 3, 2, 0, 1, 0})
	}
	f.Add(byte(6), byte(0), byte(0), []byte{0xd2, 0x84, 0x40, 0xa0, 0xf6, 0x40})
	f.Add(byte(7), byte(0), byte(0), []byte{0x82, 0x00, 0xd2, 0x84, 0x43, 0xa1, 0x01, 0x27, 0xa0, 0xf6, 0x40})
	f.Fuzz(func(t *testing.T, pos, cfg, mode byte, in []byte) {
		if len(in) > 4096 {
			t.Skip()
		}
		d := caseDesc{Side: "client", Pos: clientPositions[int(pos)%len(clientPositions)], Cfg: int(cfg) % len(cfgs)}
		if mode%2 == 0 || len(in) < 4 {
			d.In = input{Kind: "random", Hex: hex.EncodeToString(in)}
		} else {
			arg := int64(in[1])<<8 | int64(in[2])
			if in[3]&1 == 1 {
				arg = -arg
			}
			d.In = input{Kind: "mutate", Node: int(in[0]), Arg: arg, Resign: in[3]&2 == 2}
			if len(in) >= 8 {
				d.In.Kind, d.In.Node2, d.In.Arg2 = "mutate2", int(in[4]), int64(in[5])<<8|int64(in[6])
			}
		}
		res := evalClient(d)
		if res.Fail != "" && res.Key != "setup" {
			t.Fatalf("VIOLATION C10/fuzz key=%s: %s", res.Key, res.Fail)
		}
	})
}
