//go:build verif

// C09 — every supported crypto configuration onboards; forbidden ones are refused.
package c09

import (
	"bytes"
	"context"
	"crypto"
	"fmt"
	"io"
	"strings"
	"testing"
	"time"

	fdo "github.com/fido-device-onboard/go-fdo"
	"github.com/fido-device-onboard/go-fdo/cbor"
	"github.com/fido-device-onboard/go-fdo/cose"
	"github.com/fido-device-onboard/go-fdo/kex"
	"github.com/fido-device-onboard/go-fdo/protocol"
	"github.com/fido-device-onboard/go-fdo/serviceinfo"

	"verif/harness/deploy"
	"verif/harness/ev"
	"verif/harness/keys"
	"verif/harness/wire"
)

type tuple struct {
	Cfg   deploy.Config `json:"config"`
	Reuse bool          `json:"reuse"`
	TO1   bool          `json:"via_to1"`
	// LZ: manufacturer and owner keys whose public X or Y coordinate starts with a zero byte (EC only)
	LZ bool `json:"leading_zero_keys,omitempty"`
}

// validKex is the independent validity table (FDO 1.1 §3.6.5 as the library
// applies it): EC device/owner keys fix the ECDH suite; for RSA keys every
// suite is accepted.
func validKex(key, kx string) bool {
	switch key {
	case "P-256":
		return kx == "ECDH256"
	case "P-384":
		return kx == "ECDH384"
	}
	return true
}

// refSuiteValid is the table for arbitrary (device, owner) key kinds.
func refSuiteValid(devKind, ownKind, kx string) bool {
	if keys.IsRSA(devKind) {
		return true
	}
	switch ownKind {
	case "rsa2048":
		return kx == "DHKEXid14" || kx == "ASYMKEX2048"
	case "rsa3072":
		return kx == "DHKEXid15" || kx == "ASYMKEX3072"
	case "ec256":
		return kx == "ECDH256"
	case "ec384":
		return kx == "ECDH384"
	}
	return false
}

func allTuples() []tuple {
	var out []tuple
	for _, k := range deploy.KeyNames {
		for _, e := range deploy.EncNames {
			if e == "cose" && strings.HasPrefix(k, "RSA") {
				continue
			}
			for _, kx := range deploy.KexNames {
				for _, c := range deploy.CipherNames {
					for _, reuse := range []bool{false, true} {
						for _, to1 := range []bool{false, true} {
							out = append(out, tuple{Cfg: deploy.Config{Key: k, Enc: e, Kex: kx, Cipher: c}, Reuse: reuse, TO1: to1})
							if !strings.HasPrefix(k, "RSA") && c == "A128GCM" && validKex(k, kx) {
								out = append(out, tuple{Cfg: deploy.Config{Key: k, Enc: e, Kex: kx, Cipher: c}, Reuse: reuse, TO1: to1, LZ: true})
							}
						}
					}
				}
			}
		}
	}
	return out
}

var marker = []byte("\x7fC09-MARKER-PAYLOAD-\x7f")

// sweepModule sends payloads of 16 consecutive sizes so that every plaintext
// length class modulo the cipher block size occurs in an encrypted message.
func sweepFactory(j *deploy.Journal) deploy.ModuleFactory {
	return func(ctx context.Context) []deploy.NamedModule {
		tr, _ := cbor.Marshal(true)
		steps := []deploy.OwnerStep{{Send: []deploy.KVMsg{{Name: "active", Body: tr}}}}
		for i := 0; i < 16; i++ {
			body, _ := cbor.Marshal(append(append([]byte{}, marker...), bytes.Repeat([]byte{byte(i)}, 20+i)...))
			steps = append(steps, deploy.OwnerStep{Send: []deploy.KVMsg{{Name: "blob", Body: body}}})
		}
		steps[len(steps)-1].Done = true
		return []deploy.NamedModule{{Name: "sweep", Mod: &deploy.ScriptOwnerModule{ModName: "sweep", J: j, Steps: steps}}}
	}
}

func checkTunnel(l *deploy.Link, cipher string) string {
	ref := wire.TunnelTable[cipher]
	ivs := map[string]bool{}
	n := 0
	for _, ex := range l.Exchanges() {
		var bodies [][]byte
		if ex.ReqType > 64 && ex.ReqType < 255 {
			bodies = append(bodies, ex.ReqBody)
		}
		if ex.RespType > 64 && ex.RespType < 255 && ex.RespStatus == 200 {
			bodies = append(bodies, ex.RespBody)
		}
		for _, b := range bodies {
			n++
			iv, why := wire.CheckTunnelShape(b, ref)
			if why != "" {
				return fmt.Sprintf("message %d/%d is not protected under %s: %s", ex.ReqType, ex.RespType, cipher, why)
			}
			if ivs[string(iv)] {
				return fmt.Sprintf("IV %x reused", iv)
			}
			ivs[string(iv)] = true
			if bytes.Contains(b, marker) {
				return fmt.Sprintf("message %d/%d carries plaintext", ex.ReqType, ex.RespType)
			}
		}
	}
	if n < 8 {
		return fmt.Sprintf("only %d protected messages seen", n)
	}
	return ""
}

func requestedSuite(l *deploy.Link) (string, int64) {
	for _, ex := range l.Exchanges() {
		if ex.ReqType == 60 {
			if h, err := wire.ParseHelloDevice(ex.ReqBody); err == nil {
				return h.Kex, 0
			}
		}
	}
	return "", 0
}

func evalTuple(t tuple) ev.Result {
	ctx, cancel := context.WithTimeout(context.Background(), 60*time.Second)
	defer cancel()
	cfg := t.Cfg
	tag := fmt.Sprintf("%s/%s/%s/%s reuse=%v to1=%v", cfg.Key, cfg.Enc, cfg.Kex, cfg.Cipher, t.Reuse, t.TO1)
	valid := validKex(cfg.Key, cfg.Kex)
	kMfg, kO1, kO2 := deploy.KeyMfg, deploy.KeyOwner1, deploy.KeyOwner2
	if t.LZ {
		kMfg, kO1, kO2 = keys.LeadingZero, keys.LeadingZero+1, keys.LeadingZero+2
		tag += " leading-zero-keys"
	}
	mfg, o1, o2, rv := deploy.NewMemService("mfg", kMfg), deploy.NewMemService("owner1", kO1), deploy.NewMemService("owner2", kO2), deploy.NewMemService("rv", deploy.KeyStranger)
	for _, o := range []*deploy.Service{o1, o2} {
		o.Reuse = t.Reuse
		o.Modules.Factory = sweepFactory(o.J)
	}
	// rendezvous info differs at every stage: set by the manufacturer, emptied by
	// the first owner, set to something else by the second
	dns1, _ := cbor.Marshal("rv-one.test")
	dns2, _ := cbor.Marshal("rv-two.test")
	port, _ := cbor.Marshal(uint16(8041))
	mfg.RvInfo = [][]protocol.RvInstruction{{{Variable: protocol.RVDns, Value: dns1}, {Variable: protocol.RVDevPort, Value: port}}, {{Variable: protocol.RVBypass}}}
	o1.RvInfo = [][]protocol.RvInstruction{}
	o2.RvInfo = [][]protocol.RvInstruction{{{Variable: protocol.RVDns, Value: dns2}}}
	dev := deploy.NewDevice(cfg, deploy.KeyDevice)
	dev.Reuse = t.Reuse
	rec := &deploy.RecDeviceModule{}
	rec.OnReceive = func(name string, body []byte, respond func(string) io.Writer, yield func()) {}
	dev.Modules = map[string]serviceinfo.DeviceModule{"sweep": rec}
	if err := dev.DI(ctx, deploy.NewLink(mfg)); err != nil {
		return ev.Failf("di", "%s: DI failed: %v", tag, err)
	}
	if why := deploy.Agreement(ctx, mfg.State, mfg.Mem, dev); why != "" {
		return ev.Failf("agreement-after-di", "%s: %s", tag, why)
	}
	if err := dev.BlobRoundTrip(); err != nil {
		return ev.Failf("blob", "%s: %v", tag, err)
	}
	if _, err := deploy.TransferVoucher(ctx, cfg, mfg, kMfg, o1, kO1, dev.Cred.GUID); err != nil {
		return ev.Failf("extend", "%s: extending the DI voucher to the first owner: %v", tag, err)
	}

	round := func(owner *deploy.Service, n int) *ev.Result {
		fail := func(key, format string, a ...any) *ev.Result {
			r := ev.Failf(key, "%s round %d: %s", tag, n, fmt.Sprintf(format, a...))
			return &r
		}
		var to1d *cose.Sign1[protocol.To1d, []byte]
		if t.TO1 {
			ttl, err := deploy.RegisterTO0(ctx, owner, deploy.NewLink(rv), dev.Cred.GUID, deploy.DefaultAddrs(), 3600)
			if err != nil || ttl != 3600 {
				return fail("to0", "TO0 failed: ttl=%d err=%v", ttl, err)
			}
			if to1d, err = dev.TO1(ctx, deploy.NewLink(rv)); err != nil {
				return fail("to1", "TO1 failed: %v", err)
			}
		}
		before, _ := cbor.Marshal(dev.Cred)
		oldGUID := dev.Cred.GUID
		storedBefore, _ := owner.Mem.VoucherBytes(oldGUID)
		j0 := owner.J.Len()
		link := deploy.NewLink(owner)
		cred, err := dev.TO2(ctx, link, to1d)
		if !valid {
			if err == nil {
				return fail("forbidden-suite-onboarded", "the forbidden key exchange %s for %s keys was negotiated and TO2 succeeded", cfg.Kex, cfg.Key)
			}
			if owner.J.Count(j0, "ReplaceVoucher", "NextModule", "Module") > 0 {
				return fail("forbidden-suite-effects", "owner effects for a forbidden suite: %+v", owner.J.Since(j0))
			}
			for _, ex := range link.Exchanges() {
				if ex.RespType == 61 && ex.RespStatus == 200 {
					return fail("forbidden-suite-served", "the owner answered HelloDevice with ProveOVHdr for the forbidden suite %s", cfg.Kex)
				}
			}
			return nil
		}
		if err != nil {
			return fail("to2", "TO2 failed: %v (messages %v)", err, link.SentTypes())
		}
		if kx, _ := requestedSuite(link); kx != cfg.Kex {
			return fail("suite-requested", "HelloDevice requested %q instead of %q", kx, cfg.Kex)
		}
		if why := checkTunnel(link, cfg.Cipher); why != "" {
			return fail("tunnel", "%s", why)
		}
		got := 0
		for _, c := range rec.Snapshot() {
			if c.Kind == "Receive" && c.Name == "blob" {
				got++
			}
		}
		if got != 16*n {
			return fail("service-info", "device module received %d of %d payloads", got, 16*n)
		}
		if t.Reuse {
			if cred != nil {
				return fail("reuse-returned-credential", "credential reuse returned a credential")
			}
			after, _ := cbor.Marshal(dev.Cred)
			storedAfter, _ := owner.Mem.VoucherBytes(oldGUID)
			if !bytes.Equal(before, after) || !bytes.Equal(storedBefore, storedAfter) {
				return fail("reuse-changed-state", "credential or stored voucher changed under credential reuse")
			}
			if owner.J.Count(j0, "ReplaceVoucher") != 0 {
				return fail("reuse-replaced-voucher", "ReplaceVoucher was called under credential reuse")
			}
		} else {
			if cred == nil {
				return fail("no-credential", "TO2 returned no replacement credential")
			}
			if dev.Cred.GUID == oldGUID {
				return fail("guid-not-replaced", "the replacement credential keeps the old GUID")
			}
			if _, ok := owner.Mem.VoucherBytes(oldGUID); ok {
				return fail("old-voucher-kept", "the old voucher is still stored after replacement")
			}
			if owner.J.Count(j0, "ReplaceVoucher") != 1 {
				return fail("replace-count", "ReplaceVoucher was called %d times", owner.J.Count(j0, "ReplaceVoucher"))
			}
		}
		if why := deploy.Agreement(ctx, owner.State, owner.Mem, dev); why != "" {
			return fail("agreement", "%s", why)
		}
		if err := dev.BlobRoundTrip(); err != nil {
			return fail("blob", "%v", err)
		}
		return nil
	}
	if r := round(o1, 1); r != nil {
		return *r
	}
	if !valid {
		res := ev.OK("forbidden-refused")
		res.ID = tag
		return res
	}
	rounds := 1
	if t.Reuse {
		// the first owner extends the voucher to its own key once more (a legal, if unusual, resale) and
		// onboards the device again through the SAME server objects: the voucher now has one entry more
		self, err := o1.TO2.Resell(ctx, dev.Cred.GUID, deploy.OwnerPublic(cfg, kO1), nil)
		if err != nil {
			return ev.Failf("resell", "%s: the first owner extending the voucher to itself failed: %v", tag, err)
		}
		if err := o1.State.AddVoucher(ctx, self); err != nil {
			return ev.Failf("resell", "%s: %v", tag, err)
		}
		rounds++
		if r := round(o1, rounds); r != nil {
			return *r
		}
	}
	// resale to the second owner, then a second onboarding
	var next crypto.PublicKey = deploy.OwnerPublic(cfg, kO2)
	x, err := o1.TO2.Resell(ctx, dev.Cred.GUID, next, nil)
	if err != nil {
		return ev.Failf("resell", "%s: Resell to the second owner failed: %v", tag, err)
	}
	if err := o2.State.AddVoucher(ctx, x); err != nil {
		return ev.Failf("resell", "%s: %v", tag, err)
	}
	if _, ok := o1.Mem.VoucherBytes(dev.Cred.GUID); ok {
		return ev.Failf("resell-kept-voucher", "%s: the first owner still holds the voucher after resale", tag)
	}
	if r := round(o2, rounds+1); r != nil {
		return *r
	}
	res := ev.OK("onboarded")
	res.ID = tag
	return res
}

// ---- table comparison of Suite.Valid / kex.Available ------------------------------

type validDesc struct {
	Dev, Own, Kex string
	Cipher        string
	DevAsAlg      bool // pass the device side as a COSE signature algorithm (as the owner service does)
}

func evalValid(d validDesc) ev.Result {
	var dev any = keys.Get(d.Dev, deploy.KeyDevice).Public()
	if d.DevAsAlg {
		dev = cose.SignatureAlgorithm(wire.AlgFor(keys.Get(d.Dev, deploy.KeyDevice).Public(), false))
	}
	own := keys.Get(d.Own, deploy.KeyOwner1).Public()
	got := kex.Suite(d.Kex).Valid(dev, own)
	want := refSuiteValid(d.Dev, d.Own, d.Kex)
	if got != want {
		return ev.Failf("suite-valid-table", "Suite(%s).Valid(device %s, owner %s) = %v, table says %v", d.Kex, d.Dev, d.Own, got, want)
	}
	id, ok := kex.CipherSuiteByName(d.Cipher)
	if !ok || !kex.Available(kex.Suite(d.Kex), id) {
		return ev.Failf("available", "kex.Available(%s, %s) is false / unknown name", d.Kex, d.Cipher)
	}
	if kex.Available(kex.Suite(d.Kex+"x"), id) || kex.Available(kex.Suite(d.Kex), kex.CipherSuiteID(4711)) {
		return ev.Failf("available", "kex.Available accepts an unregistered suite or cipher")
	}
	return ev.OK("table")
}

func TestC09(t *testing.T) {
	r := ev.Start(t, "C09")
	defer r.Finish()
	tuples := allTuples()
	exhaustive := r.Thorough() || true // the full product is cheap enough for the quick tier as well
	r.SetRule("product", fmt.Sprintf("exhaustive: the full product {6 key types} × {X509, X5Chain, COSE (EC only)} × {6 key exchanges} × {7 ciphers} × {reuse, replace} × {via TO0/TO1, RV bypass} = %d tuples over the real HTTP transport and handler (in-memory state). Valid tuple (independent table): DI, blob round trip, extension, [TO0, TO1,] TO2, resale, [TO0, TO1,] second TO2 all succeed; every body ≥65 is the COSE object of the negotiated cipher, IVs distinct, no plaintext; a 16-size payload sweep covers every block-alignment class; credential/voucher agreement (library and reference verifier) after DI and after each TO2; reuse leaves credential and voucher bytes unchanged. Forbidden tuple: fdo.TO2 errors, the owner answers HelloDevice with an error and shows no effects. All tuples non-trivial and distinct.", len(tuples)))
	ev.Enum(r, "product", exhaustive, func(yield func(tuple) bool) {
		for i, tp := range tuples {
			if !r.Mine(i) {
				continue
			}
			if !yield(tp) {
				return
			}
		}
	}, evalTuple)

	r.SetRule("validity-table", "exhaustive: Suite.Valid for every (device key kind, owner key kind, suite), with the device side given as key and as COSE algorithm, compared with the independent table; kex.Available for every registered and some unregistered names")
	ev.Enum(r, "validity-table", true, func(yield func(validDesc) bool) {
		i := 0
		for _, dk := range keys.Kinds {
			for _, ok := range keys.Kinds {
				for _, kx := range deploy.KexNames {
					for _, asAlg := range []bool{false, true} {
						i++
						if !r.Mine(i) {
							continue
						}
						if !yield(validDesc{dk, ok, kx, deploy.CipherNames[i%7], asAlg}) {
							return
						}
					}
				}
			}
		}
	}, evalValid)
	_ = fdo.ErrNotFound
}
