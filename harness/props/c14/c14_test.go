//go:build verif

// C14 — key exchange yields equal, fresh, correctly derived keys; survives persistence.
package c14

import (
	"bytes"
	"crypto"
	"crypto/ecdh"
	"crypto/rand"
	"crypto/rsa"
	"crypto/sha256"
	"encoding"
	"encoding/hex"
	"fmt"
	"math/big"
	"sync"
	"testing"

	"github.com/fido-device-onboard/go-fdo/cbor"
	"github.com/fido-device-onboard/go-fdo/kex"
	"pgregory.net/rapid"

	"verif/harness/ev"
	"verif/harness/keys"
	"verif/harness/refverify"
)

var suites = []kex.Suite{kex.ECDH256Suite, kex.ECDH384Suite, kex.DHKEXid14Suite, kex.DHKEXid15Suite, kex.ASYMKEX2048Suite, kex.ASYMKEX3072Suite}
var ciphers = []kex.CipherSuiteID{kex.A128GcmCipher, kex.A192GcmCipher, kex.A256GcmCipher, kex.CoseAes128CbcCipher, kex.CoseAes128CtrCipher, kex.CoseAes256CbcCipher, kex.CoseAes256CtrCipher}

// independent table of key sizes (bytes) and PRF per cipher suite (FDO 1.1 §3.6.4 as registered by the library)
type cipherRef struct {
	sek, svk int
	sha384   bool
}

var cipherTable = map[kex.CipherSuiteID]cipherRef{
	kex.A128GcmCipher:       {16, 0, false},
	kex.A192GcmCipher:       {24, 0, false},
	kex.A256GcmCipher:       {32, 0, false},
	kex.CoseAes128CbcCipher: {16, 16, false},
	kex.CoseAes128CtrCipher: {16, 16, false},
	kex.CoseAes256CbcCipher: {32, 32, true},
	kex.CoseAes256CtrCipher: {32, 32, true},
}

type kexDesc struct {
	Suite   string `json:"suite"`
	Cipher  int64  `json:"cipher"`
	Mode    string `json:"mode"`    // lib-lib | ref-device | ref-owner
	Restore int    `json:"restore"` // bitmask: 1 owner after Parameter, 2 owner after SetParameter, 4 device after Parameter
	Blank   string `json:"blank"`   // cipher of the blank session restored into: same | a128gcm (as sqlite.DB.XSession does)
	LeadZ   string `json:"leadz"`   // "" | pub (reference peer's public value has a leading zero byte, sent stripped) | pub2 (ECDH: both coordinates have one, both sent stripped) | pubfull (sent full width) | secret (shared secret has a leading zero byte)
	Invalid string `json:"invalid"` // "" or the kind of invalid peer parameter
	Side    string `json:"side"`    // which library side receives the invalid parameter: owner | device
}

func keysOf(s kex.Session) (sek, svk []byte) {
	switch x := s.(type) {
	case *kex.ECDHSession:
		return x.SEK, x.SVK
	case *kex.DHSession:
		return x.SEK, x.SVK
	case *kex.OAEPSession:
		return x.SEK, x.SVK
	}
	panic(fmt.Sprintf("unknown session type %T", s))
}

func rsaKeyFor(suite kex.Suite) *rsa.PrivateKey {
	switch suite {
	case kex.ASYMKEX2048Suite:
		return keys.Get("rsa2048", 1).(*rsa.PrivateKey)
	case kex.ASYMKEX3072Suite:
		return keys.Get("rsa3072", 1).(*rsa.PrivateKey)
	}
	return nil
}

func restore(s kex.Session, suite kex.Suite, cipher kex.CipherSuiteID, blank string) (kex.Session, error) {
	blob, err := s.(encoding.BinaryMarshaler).MarshalBinary()
	if err != nil {
		return nil, fmt.Errorf("MarshalBinary: %w", err)
	}
	bc := cipher
	if blank == "a128gcm" {
		bc = kex.A128GcmCipher
	}
	fresh := suite.New(nil, bc)
	if err := fresh.(encoding.BinaryUnmarshaler).UnmarshalBinary(blob); err != nil {
		return nil, fmt.Errorf("UnmarshalBinary: %w", err)
	}
	return fresh, nil
}

// ---- reference peer ---------------------------------------------------------

type refPeer struct {
	suite  kex.Suite
	ec     *ecdh.PrivateKey
	ecRand []byte
	dhX    *big.Int
	oaep   []byte
}

// private keys whose public point has a leading zero byte in BOTH coordinates
var bothZero = map[string][]string{
	string(kex.ECDH256Suite): {"ebd5c90c5a9070d2a26b8eedd0c0804b1e0103439feaf798fdf37ce2e6832ddc", "a7df124aecee66d53d557026cabfcde62371244d1f54a98743a47b81ca6f9c66"},
	string(kex.ECDH384Suite): {"b08109308da77280f22786e5836ebd6c9c19fbf58cdc6977f6755ece5c55b48233b4a312e73feaf7313d219725d5a9cf", "8850231b9aa1a7dade7b3e03a55d4ee921141c8e9f0961739ff1733c128213118633860441977b32d906aef6ba6f20f0"},
}

func curveOf(suite kex.Suite) (ecdh.Curve, int) {
	if suite == kex.ECDH256Suite {
		return ecdh.P256(), 16
	}
	return ecdh.P384(), 48
}

func dhOf(suite kex.Suite) (*big.Int, int) {
	if suite == kex.DHKEXid14Suite {
		return refverify.ModpPrime(14), 32
	}
	return refverify.ModpPrime(15), 96
}

var lzCache sync.Map

// param produces the reference peer's public parameter. leadz: "" | pub | pubfull.
func (p *refPeer) param(leadz string, ownerPub *rsa.PublicKey, asDevice bool) []byte {
	switch p.suite {
	case kex.ECDH256Suite, kex.ECDH384Suite:
		curve, rl := curveOf(p.suite)
		for n := 0; ; n++ {
			k, err := curve.GenerateKey(rand.Reader)
			if err != nil {
				panic(err)
			}
			if leadz == "pub2" {
				// both coordinates start with a zero byte (found by search, 1 in 65536 keys)
				ks := bothZero[string(p.suite)]
				kb, _ := hex.DecodeString(ks[n%len(ks)])
				if k, err = curve.NewPrivateKey(kb); err != nil {
					panic(err)
				}
			}
			pub := k.PublicKey().Bytes()
			size := (len(pub) - 1) / 2
			x, y := pub[1:1+size], pub[1+size:]
			if leadz != "" && leadz != "pub2" && (x[0] == 0) == (y[0] == 0) {
				continue // exactly one coordinate with a leading zero byte (both: variant pub2)
			}
			p.ec = k
			p.ecRand = make([]byte, rl)
			rand.Read(p.ecRand)
			if leadz == "pub" || leadz == "pub2" { // minimal-length integers
				x, y = new(big.Int).SetBytes(x).Bytes(), new(big.Int).SetBytes(y).Bytes()
			}
			return refverify.ECDHParam{X: x, Y: y, Rand: p.ecRand}.Encode()
		}
	case kex.DHKEXid14Suite, kex.DHKEXid15Suite:
		prime, xl := dhOf(p.suite)
		if leadz != "" {
			if v, ok := lzCache.Load(string(p.suite)); ok {
				p.dhX = v.(*big.Int)
			} else {
				for {
					b := make([]byte, xl)
					rand.Read(b)
					x := new(big.Int).SetBytes(b)
					pub := new(big.Int).Exp(big.NewInt(2), x, prime)
					if pub.BitLen() <= prime.BitLen()-8 {
						p.dhX = x
						lzCache.Store(string(p.suite), x)
						break
					}
				}
			}
		} else {
			b := make([]byte, xl)
			rand.Read(b)
			p.dhX = new(big.Int).SetBytes(b)
		}
		pub := new(big.Int).Exp(big.NewInt(2), p.dhX, prime)
		if leadz == "pubfull" {
			out := make([]byte, (prime.BitLen()+7)/8)
			pub.FillBytes(out)
			return out
		}
		return pub.Bytes()
	default:
		n := 32
		if p.suite == kex.ASYMKEX3072Suite {
			n = 96
		}
		p.oaep = make([]byte, n)
		rand.Read(p.oaep)
		if asDevice {
			ct, err := rsa.EncryptOAEP(sha256.New(), rand.Reader, ownerPub, p.oaep, nil)
			if err != nil {
				panic(err)
			}
			return ct
		}
		return p.oaep
	}
}

// derive computes the reference SEK||SVK from the peer's parameter.
func (p *refPeer) derive(peerParam []byte, asDevice bool, ownerPriv *rsa.PrivateKey, c cipherRef) ([]byte, error) {
	l := (c.sek + c.svk) * 8
	switch p.suite {
	case kex.ECDH256Suite, kex.ECDH384Suite:
		pp, err := refverify.DecodeECDHParam(peerParam)
		if err != nil {
			return nil, err
		}
		devRand, ownRand := p.ecRand, pp.Rand
		if !asDevice {
			devRand, ownRand = pp.Rand, p.ecRand
		}
		sh, err := refverify.ECDHShared(p.ec, pp, devRand, ownRand)
		if err != nil {
			return nil, err
		}
		return refverify.KDF(c.sha384, sh, nil, l), nil
	case kex.DHKEXid14Suite, kex.DHKEXid15Suite:
		prime, _ := dhOf(p.suite)
		other := new(big.Int).SetBytes(peerParam)
		sh := make([]byte, (prime.BitLen()+7)/8)
		new(big.Int).Exp(other, p.dhX, prime).FillBytes(sh)
		return refverify.KDF(c.sha384, sh, nil, l), nil
	default:
		if asDevice {
			// ShSe = device random, ContextRand = owner random (the peer's xA)
			return refverify.KDF(c.sha384, p.oaep, peerParam, l), nil
		}
		devRandom, err := rsa.DecryptOAEP(sha256.New(), nil, ownerPriv, peerParam, nil)
		if err != nil {
			return nil, err
		}
		return refverify.KDF(c.sha384, devRandom, p.oaep, l), nil
	}
}

func sharedSecretLeadingZero(p *refPeer, peerParam []byte) bool {
	if p.suite != kex.DHKEXid14Suite && p.suite != kex.DHKEXid15Suite {
		return false
	}
	prime, _ := dhOf(p.suite)
	return new(big.Int).Exp(new(big.Int).SetBytes(peerParam), p.dhX, prime).BitLen() <= prime.BitLen()-8
}

// ---- evaluation ---------------------------------------------------------------

func evalKex(d kexDesc) ev.Result {
	suite := kex.Suite(d.Suite)
	cipher := kex.CipherSuiteID(d.Cipher)
	cref, ok := cipherTable[cipher]
	if !ok {
		return ev.Result{Skip: true}
	}
	if !kex.Available(suite, cipher) {
		return ev.Failf("not-available", "%s/%s is not registered", suite, cipher)
	}
	if d.Invalid != "" {
		return evalInvalid(d, suite, cipher, cref)
	}
	ownerKey := rsaKeyFor(suite)
	var ownerPub *rsa.PublicKey
	if ownerKey != nil {
		ownerPub = &ownerKey.PublicKey
	}
	tag := fmt.Sprintf("%s/%s", d.Suite, cipher)
	cls := d.Mode
	if d.Restore != 0 {
		cls += "+restore"
	}
	if d.LeadZ != "" {
		cls += "+leadzero-" + d.LeadZ
	}
	check := func(who string, s kex.Session, want []byte) *ev.Result {
		sek, svk := keysOf(s)
		if len(sek) != cref.sek || len(svk) != cref.svk {
			r := ev.Failf("key-length", "%s %s: SEK/SVK lengths %d/%d, cipher requires %d/%d", tag, who, len(sek), len(svk), cref.sek, cref.svk)
			return &r
		}
		if want != nil {
			got := append(append([]byte{}, sek...), svk...)
			alt := append(append([]byte{}, svk...), sek...)
			if !bytes.Equal(got, want) && !bytes.Equal(alt, want) {
				r := ev.Failf("kdf-mismatch", "%s %s: SEK||SVK = %x but the reference KDF over the independently computed shared secret gives %x (%s)", tag, who, got, want, cls)
				return &r
			}
		}
		return nil
	}

	var owner, device kex.Session
	var xA, xB []byte
	var err error
	var want []byte

	switch d.Mode {
	case "lib-lib":
		owner = suite.New(nil, cipher)
		if xA, err = owner.Parameter(rand.Reader, ownerPub); err != nil {
			return ev.Failf("owner-parameter", "%s owner.Parameter: %v", tag, err)
		}
		if d.Restore&1 != 0 {
			if owner, err = restore(owner, suite, cipher, d.Blank); err != nil {
				return ev.Failf("restore", "%s restoring the owner session after Parameter: %v", tag, err)
			}
		}
		device = suite.New(bytes.Clone(xA), cipher)
		if xB, err = device.Parameter(rand.Reader, ownerPub); err != nil {
			return ev.Failf("device-parameter", "%s device.Parameter: %v", tag, err)
		}
		if d.Restore&4 != 0 {
			if device, err = restore(device, suite, cipher, d.Blank); err != nil {
				return ev.Failf("restore", "%s restoring the device session: %v", tag, err)
			}
		}
		if err = owner.SetParameter(bytes.Clone(xB), ownerKey); err != nil {
			return ev.Failf("owner-setparameter", "%s owner.SetParameter after %s: %v", tag, cls, err)
		}
		if d.Restore&2 != 0 {
			if owner, err = restore(owner, suite, cipher, d.Blank); err != nil {
				return ev.Failf("restore", "%s restoring the owner session after SetParameter: %v", tag, err)
			}
		}
	case "ref-device":
		owner = suite.New(nil, cipher)
		if xA, err = owner.Parameter(rand.Reader, ownerPub); err != nil {
			return ev.Failf("owner-parameter", "%s owner.Parameter: %v", tag, err)
		}
		if d.Restore&1 != 0 {
			if owner, err = restore(owner, suite, cipher, d.Blank); err != nil {
				return ev.Failf("restore", "%s restoring the owner session after Parameter: %v", tag, err)
			}
		}
		peer := &refPeer{suite: suite}
		for tries := 0; ; tries++ {
			xB = peer.param(leadPub(d.LeadZ), ownerPub, true)
			if d.LeadZ != "secret" || sharedSecretLeadingZero(peer, xA) || tries > 4000 {
				break
			}
		}
		if want, err = peer.derive(xA, true, nil, cref); err != nil {
			return ev.Failf("ref-derive", "%s reference device cannot use the library's xA: %v", tag, err)
		}
		if err = owner.SetParameter(bytes.Clone(xB), ownerKey); err != nil {
			return ev.Failf("owner-setparameter", "%s owner.SetParameter(reference device parameter, %s): %v", tag, cls, err)
		}
		if d.Restore&2 != 0 {
			if owner, err = restore(owner, suite, cipher, d.Blank); err != nil {
				return ev.Failf("restore", "%s restoring the owner session after SetParameter: %v", tag, err)
			}
		}
	case "ref-owner":
		peer := &refPeer{suite: suite}
		xA = peer.param(leadPub(d.LeadZ), ownerPub, false)
		device = suite.New(bytes.Clone(xA), cipher)
		if xB, err = device.Parameter(rand.Reader, ownerPub); err != nil {
			return ev.Failf("device-parameter", "%s device.Parameter(reference owner parameter, %s): %v", tag, cls, err)
		}
		if d.Restore&4 != 0 {
			if device, err = restore(device, suite, cipher, d.Blank); err != nil {
				return ev.Failf("restore", "%s restoring the device session: %v", tag, err)
			}
		}
		if want, err = peer.derive(xB, false, ownerKey, cref); err != nil {
			return ev.Failf("ref-derive", "%s reference owner cannot use the library's xB: %v", tag, err)
		}
	default:
		return ev.Result{Skip: true}
	}
	if owner != nil {
		if r := check("owner", owner, want); r != nil {
			return *r
		}
	}
	if device != nil {
		if r := check("device", device, want); r != nil {
			return *r
		}
	}
	if owner != nil && device != nil {
		os, ov := keysOf(owner)
		ds, dv := keysOf(device)
		if !bytes.Equal(os, ds) || !bytes.Equal(ov, dv) {
			return ev.Failf("keys-differ", "%s (%s): owner SEK/SVK %x/%x, device %x/%x", tag, cls, os, ov, ds, dv)
		}
		// traffic in both directions
		for dir, pair := range [][2]kex.Session{{owner, device}, {device, owner}} {
			msg := []any{int64(dir), []byte("payload-" + d.Suite), "text"}
			enc, err := pair[0].Encrypt(rand.Reader, msg)
			if err != nil {
				return ev.Failf("encrypt", "%s (%s) Encrypt dir %d: %v", tag, cls, dir, err)
			}
			wire, err := cbor.Marshal(enc)
			if err != nil {
				return ev.Failf("encrypt", "%s Marshal: %v", tag, err)
			}
			pt, err := pair[1].Decrypt(rand.Reader, bytes.NewReader(wire))
			if err != nil {
				return ev.Failf("decrypt", "%s (%s) Decrypt dir %d: %v", tag, cls, dir, err)
			}
			wantPT, _ := cbor.Marshal(msg)
			if !bytes.Equal(pt, wantPT) {
				return ev.Failf("decrypt-content", "%s (%s) dir %d: decrypted %x, sent %x", tag, cls, dir, pt, wantPT)
			}
		}
	} else if want != nil {
		// the reference side encrypts nothing itself; but the library side must
		// interoperate with a second library session holding the reference keys
		lib := owner
		if lib == nil {
			lib = device
		}
		sek, svk := keysOf(lib)
		other := kex.SessionCrypter{ID: cipher, Cipher: cipher.Suite(), SEK: want[:cref.sek], SVK: want[cref.sek:]}
		_ = svk
		msg := []any{"hello", sek[:0]}
		enc, err := other.Encrypt(rand.Reader, msg)
		if err != nil {
			return ev.Failf("encrypt", "%s encrypt under reference keys: %v", tag, err)
		}
		wire, _ := cbor.Marshal(enc)
		if _, err := lib.Decrypt(rand.Reader, bytes.NewReader(wire)); err != nil {
			return ev.Failf("decrypt", "%s (%s): library side cannot decrypt a message protected under the reference-derived keys: %v", tag, cls, err)
		}
	}
	r := ev.OK(cls)
	r.NonTrivial = d.Mode != "lib-lib" || d.Restore != 0
	r.ID = fmt.Sprintf("%s|%d|%s|%d|%s|%s", d.Suite, d.Cipher, d.Mode, d.Restore, d.Blank, d.LeadZ)
	if sharedLZ := d.LeadZ == "secret"; sharedLZ {
		r.Class = cls
	}
	return r
}

func leadPub(l string) string {
	if l == "secret" {
		return ""
	}
	return l
}

// fresh: two independent sessions never share a key
type freshDesc struct {
	Suite  string `json:"suite"`
	Cipher int64  `json:"cipher"`
}

func evalFresh(d freshDesc) ev.Result {
	suite, cipher := kex.Suite(d.Suite), kex.CipherSuiteID(d.Cipher)
	ownerKey := rsaKeyFor(suite)
	var ownerPub *rsa.PublicKey
	if ownerKey != nil {
		ownerPub = &ownerKey.PublicKey
	}
	seen := map[string]bool{}
	type live struct {
		owner, device kex.Session
		sek, svk      string
	}
	var alive []live
	for i := 0; i < 3; i++ {
		owner := suite.New(nil, cipher)
		xA, err := owner.Parameter(rand.Reader, ownerPub)
		if err != nil {
			return ev.Failf("owner-parameter", "%v", err)
		}
		device := suite.New(bytes.Clone(xA), cipher)
		xB, err := device.Parameter(rand.Reader, ownerPub)
		if err != nil {
			return ev.Failf("device-parameter", "%v", err)
		}
		xAcopy, xBcopy := bytes.Clone(xA), bytes.Clone(xB) // the library zeroes the buffers it is handed
		if err := owner.SetParameter(xB, ownerKey); err != nil {
			return ev.Failf("owner-setparameter", "%v", err)
		}
		xA, xB = xAcopy, xBcopy
		sek, svk := keysOf(owner)
		for _, k := range [][]byte{sek, svk, xA, xB} {
			if len(k) == 0 {
				continue
			}
			if seen[string(k)] {
				return ev.Failf("key-reuse", "%s/%s: a key or parameter repeated across independent sessions: %x", suite, cipher, k)
			}
			seen[string(k)] = true
		}
		if len(svk) > 0 && bytes.Equal(sek, svk[:min(len(svk), len(sek))]) {
			return ev.Failf("sek-equals-svk", "%s/%s: SEK and SVK overlap: %x %x", suite, cipher, sek, svk)
		}
		alive = append(alive, live{owner, device, string(sek), string(svk)})
	}
	// the sessions live side by side in one process (as concurrent onboardings do): completing
	// later exchanges must not have touched the keys of earlier sessions, and each pair still talks
	for i, l := range alive {
		sek, svk := keysOf(l.owner)
		if string(sek) != l.sek || string(svk) != l.svk {
			return ev.Failf("keys-changed-by-later-session", "%s/%s: the keys of session #%d changed after sessions created later completed their exchange", suite, cipher, i)
		}
		dsek, _ := keysOf(l.device)
		if string(dsek) != l.sek {
			return ev.Failf("keys-changed-by-later-session", "%s/%s: the device-side key of session #%d no longer equals the owner-side key", suite, cipher, i)
		}
		enc, err := l.owner.Encrypt(rand.Reader, []byte("still-alive"))
		if err != nil {
			return ev.Failf("encrypt", "%s/%s: session #%d cannot encrypt any more: %v", suite, cipher, i, err)
		}
		wireb, _ := cbor.Marshal(enc)
		if _, err := l.device.Decrypt(rand.Reader, bytes.NewReader(wireb)); err != nil {
			return ev.Failf("decrypt", "%s/%s: session #%d: the device side cannot open the owner side's message after later sessions completed: %v", suite, cipher, i, err)
		}
	}
	return ev.OK("fresh")
}

// ---- invalid parameters --------------------------------------------------------

var invalidKinds = map[string][]string{
	"dh":   {"zero", "one", "p-1", "p", "p+1", "p+5", "2p", "empty", "huge"},
	"ecdh": {"empty", "truncated", "x-too-long", "off-curve", "infinity", "swapped", "other-curve", "len-overrun", "x-only"},
	"oaep": {"empty", "short", "long", "other-key", "bitflip", "zeros"},
}

func familyOf(s kex.Suite) string {
	switch s {
	case kex.ECDH256Suite, kex.ECDH384Suite:
		return "ecdh"
	case kex.DHKEXid14Suite, kex.DHKEXid15Suite:
		return "dh"
	}
	return "oaep"
}

func invalidParam(suite kex.Suite, kind string, ownerPub *rsa.PublicKey) []byte {
	switch familyOf(suite) {
	case "dh":
		p, _ := dhOf(suite)
		switch kind {
		case "zero":
			return []byte{0}
		case "one":
			return []byte{1}
		case "p-1":
			return new(big.Int).Sub(p, big.NewInt(1)).Bytes()
		case "p":
			return p.Bytes()
		case "p+1":
			return new(big.Int).Add(p, big.NewInt(1)).Bytes()
		case "p+5":
			return new(big.Int).Add(p, big.NewInt(5)).Bytes()
		case "2p":
			return new(big.Int).Lsh(p, 1).Bytes()
		case "empty":
			return []byte{}
		default:
			return bytes.Repeat([]byte{0xff}, 1024)
		}
	case "ecdh":
		curve, rl := curveOf(suite)
		k, _ := curve.GenerateKey(rand.Reader)
		pub := k.PublicKey().Bytes()
		size := (len(pub) - 1) / 2
		x, y := pub[1:1+size], pub[1+size:]
		rnd := make([]byte, rl)
		rand.Read(rnd)
		good := refverify.ECDHParam{X: x, Y: y, Rand: rnd}
		switch kind {
		case "empty":
			return []byte{}
		case "truncated":
			e := good.Encode()
			return e[:len(e)/2]
		case "x-too-long":
			return refverify.ECDHParam{X: append([]byte{1}, x...), Y: y, Rand: rnd}.Encode()
		case "off-curve":
			y2 := append([]byte{}, y...)
			y2[len(y2)-1] ^= 1
			return refverify.ECDHParam{X: x, Y: y2, Rand: rnd}.Encode()
		case "infinity":
			return refverify.ECDHParam{X: make([]byte, size), Y: make([]byte, size), Rand: rnd}.Encode()
		case "swapped":
			return refverify.ECDHParam{X: y, Y: x, Rand: rnd}.Encode()
		case "other-curve":
			oc := ecdh.P384()
			if curve == ecdh.P384() {
				oc = ecdh.P256()
			}
			k2, _ := oc.GenerateKey(rand.Reader)
			p2 := k2.PublicKey().Bytes()
			s2 := (len(p2) - 1) / 2
			return refverify.ECDHParam{X: p2[1 : 1+s2], Y: p2[1+s2:], Rand: rnd}.Encode()
		case "len-overrun":
			e := good.Encode()
			e[0], e[1] = 0xff, 0xff
			return e
		default: // x-only
			return refverify.ECDHParam{X: x}.Encode()[:2+size]
		}
	default:
		n := 32
		if suite == kex.ASYMKEX3072Suite {
			n = 96
		}
		x := make([]byte, n)
		rand.Read(x)
		ct, _ := rsa.EncryptOAEP(sha256.New(), rand.Reader, ownerPub, x, nil)
		switch kind {
		case "empty":
			return []byte{}
		case "short":
			return ct[:len(ct)-1]
		case "long":
			return append(ct, 0)
		case "other-key":
			other := keys.Get("rsa2048", 2).(*rsa.PrivateKey)
			if suite == kex.ASYMKEX3072Suite {
				other = keys.Get("rsa3072", 2).(*rsa.PrivateKey)
			}
			c2, _ := rsa.EncryptOAEP(sha256.New(), rand.Reader, &other.PublicKey, x, nil)
			return c2
		case "bitflip":
			ct[len(ct)/2] ^= 4
			return ct
		default:
			return make([]byte, len(ct))
		}
	}
}

func evalInvalid(d kexDesc, suite kex.Suite, cipher kex.CipherSuiteID, cref cipherRef) ev.Result {
	ownerKey := rsaKeyFor(suite)
	var ownerPub *rsa.PublicKey
	if ownerKey != nil {
		ownerPub = &ownerKey.PublicKey
	}
	bad := invalidParam(suite, d.Invalid, ownerPub)
	tag := fmt.Sprintf("%s/%s invalid=%s side=%s", d.Suite, cipher, d.Invalid, d.Side)
	var s kex.Session
	var err error
	if d.Side == "owner" {
		s = suite.New(nil, cipher)
		if _, err = s.Parameter(rand.Reader, ownerPub); err != nil {
			return ev.Failf("owner-parameter", "%s: %v", tag, err)
		}
		if d.Restore&1 != 0 {
			if s, err = restore(s, suite, cipher, d.Blank); err != nil {
				return ev.Failf("restore", "%s: %v", tag, err)
			}
		}
		err = s.SetParameter(bad, ownerKey)
	} else {
		if familyOf(suite) == "oaep" {
			return ev.Result{Skip: true} // the owner's OAEP parameter is a plain random: nothing to validate
		}
		s = suite.New(bad, cipher)
		_, err = s.Parameter(rand.Reader, ownerPub)
	}
	sek, svk := keysOf(s)
	if err == nil {
		return ev.Failf("invalid-accepted:"+familyOf(suite)+":"+d.Invalid, "%s: peer parameter %x… accepted; keys %x/%x", tag, bad[:min(len(bad), 24)], sek, svk)
	}
	if len(sek) != 0 || len(svk) != 0 {
		return ev.Failf("invalid-left-key", "%s: rejected (%v) but a key was left in the session: %x/%x", tag, err, sek, svk)
	}
	r := ev.OK("invalid-" + familyOf(suite) + "-" + d.Invalid)
	return r
}

func genKex(t *rapid.T) kexDesc {
	d := kexDesc{
		Suite:  string(rapid.SampledFrom(suites).Draw(t, "suite")),
		Cipher: int64(rapid.SampledFrom(ciphers).Draw(t, "cipher")),
		Mode:   rapid.SampledFrom([]string{"lib-lib", "ref-device", "ref-owner"}).Draw(t, "mode"),
		Blank:  rapid.SampledFrom([]string{"same", "a128gcm"}).Draw(t, "blank"),
	}
	if rapid.Bool().Draw(t, "dorestore") {
		d.Restore = rapid.IntRange(1, 7).Draw(t, "restore")
	}
	fam := familyOf(kex.Suite(d.Suite))
	if d.Mode != "lib-lib" && fam != "oaep" && rapid.IntRange(0, 2).Draw(t, "lz") == 0 {
		opts := []string{"pub", "pubfull"}
		if fam == "ecdh" {
			opts = append(opts, "pub2", "pub2")
		}
		if fam == "dh" && d.Mode == "ref-device" && d.Suite == string(kex.DHKEXid14Suite) {
			opts = append(opts, "secret")
		}
		d.LeadZ = rapid.SampledFrom(opts).Draw(t, "leadz")
	}
	if rapid.IntRange(0, 3).Draw(t, "inv") == 0 {
		d.Invalid = rapid.SampledFrom(invalidKinds[fam]).Draw(t, "invalid")
		d.Side = rapid.SampledFrom([]string{"owner", "device"}).Draw(t, "side")
		d.Mode, d.LeadZ = "lib-lib", ""
		d.Restore &= 1
	}
	return d
}

func TestC14(t *testing.T) {
	r := ev.Start(t, "C14")
	defer r.Finish()

	// KDF against the independent implementation: every output length and context
	r.SetRule("kdf", "exhaustive: PRF ∈ {HMAC-SHA256, HMAC-SHA384} × every output length L = 8..2048 bits (step 8) and 4096, 8160 × 4 key/context shapes (empty context, 32/96-byte context, 256/384-byte shared secret); oracle: the library's internal KDF (exported through the verif-tagged hook kex.VerifKDF) equals the independent SP 800-108 counter-mode implementation byte for byte. Non-trivial: L longer than one PRF block; distinct by (prf,L,shape).")
	type kdfDesc struct {
		Sha384 bool `json:"sha384"`
		L      int  `json:"l"`
		Shape  int  `json:"shape"`
	}
	ev.Enum(r, "kdf", true, func(yield func(kdfDesc) bool) {
		i := 0
		ls := []int{4096, 8160}
		for l := 8; l <= 2048; l += 8 {
			ls = append(ls, l)
		}
		for _, s := range []bool{false, true} {
			for _, l := range ls {
				for sh := 0; sh < 4; sh++ {
					i++
					if !r.Mine(i) {
						continue
					}
					if !yield(kdfDesc{s, l, sh}) {
						return
					}
				}
			}
		}
	}, func(d kdfDesc) ev.Result {
		kin := bytes.Repeat([]byte{byte(d.Shape + 1), byte(d.L)}, []int{16, 24, 128, 192}[d.Shape])
		ctx := bytes.Repeat([]byte{0xa5, byte(d.L >> 3)}, []int{0, 16, 48, 0}[d.Shape])
		h := crypto.SHA256
		hb := 256
		if d.Sha384 {
			h, hb = crypto.SHA384, 384
		}
		got := kex.VerifKDF(h, kin, ctx, uint16(d.L))
		want := refverify.KDF(d.Sha384, kin, ctx, d.L)
		if !bytes.Equal(got, want) {
			return ev.Failf("kdf-mismatch", "KDF(sha384=%v, L=%d, shape %d) = %x, reference %x", d.Sha384, d.L, d.Shape, got, want)
		}
		res := ev.OK("kdf-multi-block")
		if d.L <= hb {
			res = ev.Trivial("kdf-one-block")
		}
		return res
	})

	r.SetRule("exchange", "rapid-generated cases over 6 suites × 7 ciphers × mode {library↔library, reference device, reference owner} × serialise/restore after any subset of the three steps × blank session cipher {same, A128GCM as sqlite.DB.XSession uses} × reference public values with leading zero bytes (stripped and full width) and DH shared secrets with a leading zero byte × (1/4) one invalid peer parameter (DH 0,1,p-1,p,p+1,p+5,2p,empty,huge; ECDH empty/truncated/over-long/off-curve/infinity/swapped/other-curve/length-overrun/x-only; OAEP empty/short/long/other key/bit flip/zeros) on either side. Oracle: both sides' SEK/SVK equal and of the cipher's lengths; equal to the independent SP 800-108 KDF over the independently computed shared secret (RFC 3526 primes derived from π, crypto/ecdh, RSA-OAEP); traffic decrypts in both directions; invalid parameters ⇒ error and no key. Non-trivial: reference peer, restore, leading zero or invalid parameter; distinct by (suite,cipher,mode,restore,blank,leadz,invalid,side).")
	n := ev.N{Quick: 4000, Thorough: 400000}
	ev.Rapid(r, "exchange", n, genKex, func(d kexDesc) ev.Result {
		res := evalKex(d)
		if d.Invalid != "" {
			res.ID = fmt.Sprintf("%s|%d|inv|%s|%s|%d", d.Suite, d.Cipher, d.Invalid, d.Side, d.Restore)
		}
		return res
	})

	r.SetRule("matrix", "exhaustive: all 6×7 suite/cipher pairs × {library↔library, reference device, reference owner} × restore mask {0, 7} into an A128GCM blank session; same oracle")
	ev.Enum(r, "matrix", true, func(yield func(kexDesc) bool) {
		i := 0
		for _, s := range suites {
			for _, c := range ciphers {
				for _, m := range []string{"lib-lib", "ref-device", "ref-owner"} {
					for _, rs := range []int{0, 7} {
						i++
						if !r.Mine(i) {
							continue
						}
						if !yield(kexDesc{Suite: string(s), Cipher: int64(c), Mode: m, Restore: rs, Blank: "a128gcm"}) {
							return
						}
					}
				}
			}
		}
	}, evalKex)

	r.SetRule("invalid-matrix", "exhaustive: every suite × every invalid parameter kind × side × {no restore, restore before SetParameter} with cipher A256GCM and COSEAES256CBC")
	ev.Enum(r, "invalid-matrix", true, func(yield func(kexDesc) bool) {
		i := 0
		for _, s := range suites {
			for _, kind := range invalidKinds[familyOf(s)] {
				for _, side := range []string{"owner", "device"} {
					for _, rs := range []int{0, 1} {
						for _, c := range []kex.CipherSuiteID{kex.A256GcmCipher, kex.CoseAes256CbcCipher} {
							i++
							if !r.Mine(i) {
								continue
							}
							if !yield(kexDesc{Suite: string(s), Cipher: int64(c), Mode: "lib-lib", Invalid: kind, Side: side, Restore: rs, Blank: "a128gcm"}) {
								return
							}
						}
					}
				}
			}
		}
	}, evalKex)

	r.SetRule("second-setparameter", "exhaustive: every suite × {in memory, restored}: a second SetParameter with the same (replayed) parameter after the exchange completed; oracle: no panic, and either an error or unchanged keys")
	ev.Enum(r, "second-setparameter", true, func(yield func(kexDesc) bool) {
		i := 0
		for _, s := range suites {
			for _, rs := range []int{0, 2} {
				i++
				if !r.Mine(i) {
					continue
				}
				if !yield(kexDesc{Suite: string(s), Cipher: int64(kex.A256GcmCipher), Mode: "replay", Restore: rs, Blank: "a128gcm"}) {
					return
				}
			}
		}
	}, func(d kexDesc) ev.Result {
		suite, cipher := kex.Suite(d.Suite), kex.CipherSuiteID(d.Cipher)
		ownerKey := rsaKeyFor(suite)
		var ownerPub *rsa.PublicKey
		if ownerKey != nil {
			ownerPub = &ownerKey.PublicKey
		}
		owner := suite.New(nil, cipher)
		xA, err := owner.Parameter(rand.Reader, ownerPub)
		if err != nil {
			return ev.Failf("owner-parameter", "%v", err)
		}
		device := suite.New(bytes.Clone(xA), cipher)
		xB, err := device.Parameter(rand.Reader, ownerPub)
		if err != nil {
			return ev.Failf("device-parameter", "%v", err)
		}
		keep := bytes.Clone(xB)
		if err := owner.SetParameter(xB, ownerKey); err != nil {
			return ev.Failf("owner-setparameter", "%v", err)
		}
		if d.Restore != 0 {
			if owner, err = restore(owner, suite, cipher, d.Blank); err != nil {
				return ev.Failf("restore", "%v", err)
			}
		}
		sek1, _ := keysOf(owner)
		sek1 = bytes.Clone(sek1)
		err = owner.SetParameter(bytes.Clone(keep), ownerKey)
		sek2, _ := keysOf(owner)
		if err == nil && !bytes.Equal(sek1, sek2) {
			return ev.Failf("second-setparameter-rekeyed", "%s: a replayed SetParameter silently changed the session key", suite)
		}
		return ev.OK("second-setparameter")
	})

	r.SetRule("fresh", "exhaustive over 6×7 pairs: three independent exchanges kept alive side by side; no SEK, SVK or public parameter repeats, SEK and SVK do not overlap, and after the last exchange every earlier session still has the keys it derived and still talks to its peer")
	ev.Enum(r, "fresh", true, func(yield func(freshDesc) bool) {
		i := 0
		for _, s := range suites {
			for _, c := range ciphers {
				i++
				if !r.Mine(i) {
					continue
				}
				if !yield(freshDesc{string(s), int64(c)}) {
					return
				}
			}
		}
	}, evalFresh)
	ev.CheckWitness(r, "exchange", evalKex)
	_ = hex.EncodeToString
}
