//go:build verif

// C03 — ownership handover leaves device credential and stored voucher in agreement.
package c03

import (
	"bytes"
	"context"
	"fmt"
	"os"
	"path/filepath"
	"strings"
	"testing"
	"time"

	"github.com/fido-device-onboard/go-fdo/cbor"
	"github.com/fido-device-onboard/go-fdo/protocol"
	"pgregory.net/rapid"

	"verif/harness/deploy"
	"verif/harness/ev"
)

type cut struct {
	Proto   string `json:"proto"`   // "" (none) | di | to2
	Round   int    `json:"round"`   // TO2 round (1-based) the cut applies to
	Ordinal int    `json:"ordinal"` // index of the request within that protocol run
	Mode    string `json:"mode"`    // req-lost | resp-lost | error255
}

type histDesc struct {
	Cfg    deploy.Config `json:"config"`
	Reuse  bool          `json:"reuse"`
	Rounds int           `json:"rounds"` // number of (resell, TO2) rounds, 1..3
	RvMfg  int           `json:"rv_mfg"` // rendezvous-info variant set by the manufacturer
	RvOwn  int           `json:"rv_own"` // variant set by owners as replacement
	Cut    cut           `json:"cut"`
	// NoChain: the owners' key stores hold their keys WITHOUT certificate chains (for an X5CHAIN
	// voucher the owner then has to fall back to X509 consistently in every TO2 message and at Done)
	NoChain bool `json:"nochain,omitempty"`
}

func rvVariant(n int) [][]protocol.RvInstruction {
	dns, _ := cbor.Marshal(fmt.Sprintf("rv-%d.test", n))
	port, _ := cbor.Marshal(uint16(8000 + n))
	switch n % 4 {
	case 0:
		return [][]protocol.RvInstruction{}
	case 1:
		return [][]protocol.RvInstruction{{{Variable: protocol.RVDns, Value: dns}}}
	case 2:
		return [][]protocol.RvInstruction{{{Variable: protocol.RVDns, Value: dns}, {Variable: protocol.RVDevPort, Value: port}}, {{Variable: protocol.RVBypass}}}
	}
	return [][]protocol.RvInstruction{{{Variable: protocol.RVBypass}}, {}}
}

func install(l *deploy.Link, c cut, counter *int, fired *bool) {
	l.OnRequest = func(ex *deploy.Exchange) *deploy.Action {
		idx := *counter
		*counter++
		if idx != c.Ordinal {
			return nil
		}
		switch c.Mode {
		case "req-lost":
			*fired = true
			return &deploy.Action{DropErr: deploy.ErrDropped}
		case "error255":
			*fired = true
			em, _ := cbor.Marshal(protocol.ErrorMessage{Code: 500, PrevMsgType: ex.ReqType, ErrString: "injected failure"})
			t := uint8(255)
			return &deploy.Action{Synth: true, Body: em, MsgType: &t, Status: 500}
		}
		return nil
	}
	l.OnResponse = func(ex *deploy.Exchange) *deploy.Action {
		// OnRequest already advanced the counter for this exchange
		if *counter-1 == c.Ordinal && c.Mode == "resp-lost" {
			*fired = true
			return &deploy.Action{DropErr: deploy.ErrDropped}
		}
		return nil
	}
}

func evalHist(d histDesc) ev.Result {
	ctx, cancel := context.WithTimeout(context.Background(), 60*time.Second)
	defer cancel()
	cfg := d.Cfg
	tag := fmt.Sprintf("%s/%s/%s/%s reuse=%v rounds=%d rv=%d/%d nochain=%v cut=%+v", cfg.Key, cfg.Enc, cfg.Kex, cfg.Cipher, d.Reuse, d.Rounds, d.RvMfg, d.RvOwn, d.NoChain, d.Cut)
	mfg := deploy.NewMemService("mfg", deploy.KeyMfg)
	mfg.RvInfo = rvVariant(d.RvMfg)
	owners := []*deploy.Service{deploy.NewMemService("owner1", deploy.KeyOwner1), deploy.NewMemService("owner2", deploy.KeyOwner2), deploy.NewMemService("owner3", deploy.KeyStranger)}
	ownerKey := []int{deploy.KeyOwner1, deploy.KeyOwner2, deploy.KeyStranger}
	for i, o := range owners {
		o.Reuse = d.Reuse
		o.RvInfo = rvVariant(d.RvOwn + i)
		o.Mem.NoOwnerChain = d.NoChain
	}
	dev := deploy.NewDevice(cfg, deploy.KeyDevice)
	dev.Reuse = d.Reuse
	cls := "history"
	cutFired := false

	// ---- DI (possibly cut) --------------------------------------------------
	if d.Cut.Proto == "di" {
		l := deploy.NewLink(mfg)
		n, fired := 0, false
		install(l, d.Cut, &n, &fired)
		j0 := mfg.J.Len()
		err := dev.DI(ctx, l)
		if fired {
			cutFired = true
			cls = fmt.Sprintf("cut-di-%d-%s", d.Cut.Ordinal, d.Cut.Mode)
			if err == nil {
				return ev.Failf("di-succeeded-despite-cut", "%s: DI returned a credential although message %d was cut", tag, d.Cut.Ordinal)
			}
			serverDone := d.Cut.Ordinal == 1 && d.Cut.Mode == "resp-lost"
			if !serverDone && mfg.J.Count(j0, "AddVoucher") > 0 {
				return ev.Failf("di-voucher-stored-despite-cut", "%s: a voucher was stored although DI was cut before SetHMAC reached the manufacturer", tag)
			}
			dev.Cred = nil
		} else if err != nil {
			return ev.Failf("di", "%s: DI failed: %v", tag, err)
		}
	}
	if dev.Cred == nil {
		if err := dev.DI(ctx, deploy.NewLink(mfg)); err != nil {
			return ev.Failf("di", "%s: DI (retry) failed: %v", tag, err)
		}
	}
	if why := deploy.Agreement(ctx, mfg.State, mfg.Mem, dev); why != "" {
		return ev.Failf("agreement-after-di", "%s: %s", tag, why)
	}
	if err := dev.BlobRoundTrip(); err != nil {
		return ev.Failf("blob", "%s: %v", tag, err)
	}

	// ---- rounds of (extend/resell, TO2) ---------------------------------------
	var holder *deploy.Service = mfg
	holderKey := deploy.KeyMfg
	for round := 1; round <= d.Rounds; round++ {
		owner := owners[(round-1)%len(owners)]
		okey := ownerKey[(round-1)%len(owners)]
		if holder == mfg {
			if _, err := deploy.TransferVoucher(ctx, cfg, mfg, holderKey, owner, okey, dev.Cred.GUID); err != nil {
				return ev.Failf("extend", "%s round %d: %v", tag, round, err)
			}
		} else {
			x, err := holder.TO2.Resell(ctx, dev.Cred.GUID, deploy.OwnerPublic(cfg, okey), nil)
			if err != nil {
				return ev.Failf("resell", "%s round %d: Resell failed: %v", tag, round, err)
			}
			if err := owner.State.AddVoucher(ctx, x); err != nil {
				return ev.Failf("resell", "%s round %d: %v", tag, round, err)
			}
		}
		holder, holderKey = owner, okey

		if d.Cut.Proto == "to2" && d.Cut.Round == round {
			l := deploy.NewLink(owner)
			n, fired := 0, false
			install(l, d.Cut, &n, &fired)
			credBefore, _ := cbor.Marshal(dev.Cred)
			guid := dev.Cred.GUID
			storedBefore, _ := owner.Mem.VoucherBytes(guid)
			j0 := owner.J.Len()
			held := *dev.Cred
			cred, err := dev.TO2(ctx, l, nil)
			if fired {
				cutFired = true
				types := l.SentTypes()
				cutType := types[min(d.Cut.Ordinal, len(types)-1)]
				cls = fmt.Sprintf("cut-to2-type%d-%s", cutType, d.Cut.Mode)
				if err == nil || cred != nil {
					return ev.Failf("to2-succeeded-despite-cut", "%s: TO2 returned (cred=%v, err=%v) although request #%d (type %d) was cut (%s)", tag, cred != nil, err, d.Cut.Ordinal, cutType, d.Cut.Mode)
				}
				dev.Cred = &held
				after, _ := cbor.Marshal(dev.Cred)
				if !bytes.Equal(credBefore, after) {
					return ev.Failf("credential-changed-by-failed-to2", "%s: the device credential changed although TO2 failed", tag)
				}
				ownerAcceptedDone := cutType == 70 && d.Cut.Mode == "resp-lost"
				if !ownerAcceptedDone {
					if owner.J.Count(j0, "ReplaceVoucher", "AddVoucher", "RemoveVoucher") > 0 {
						return ev.Failf("store-touched-by-failed-to2", "%s: the owner's voucher store changed although TO2 was cut before Done was accepted: %+v", tag, owner.J.Since(j0))
					}
					storedAfter, _ := owner.Mem.VoucherBytes(guid)
					if !bytes.Equal(storedBefore, storedAfter) {
						return ev.Failf("store-touched-by-failed-to2", "%s: the stored voucher bytes changed", tag)
					}
				} else {
					// Done was accepted but the device never learned: the history ends here
					// (the property is conditional on the owner not having accepted Done)
					r := ev.OK(cls)
					r.ID = tag
					return r
				}
			} else if err != nil {
				return ev.Failf("to2", "%s round %d: TO2 failed: %v", tag, round, err)
			} else {
				if why := afterTO2(ctx, d, owner, dev, credBefore, storedBefore, guid, j0, cred != nil); why != "" {
					return ev.Failf("agreement", "%s round %d: %s", tag, round, why)
				}
				continue
			}
		}
		// honest (or retried) TO2
		credBefore, _ := cbor.Marshal(dev.Cred)
		guid := dev.Cred.GUID
		storedBefore, _ := owner.Mem.VoucherBytes(guid)
		j0 := owner.J.Len()
		cred, err := dev.TO2(ctx, deploy.NewLink(owner), nil)
		if err != nil {
			return ev.Failf("to2", "%s round %d: TO2 failed (after cut: %v): %v", tag, round, cutFired, err)
		}
		if why := afterTO2(ctx, d, owner, dev, credBefore, storedBefore, guid, j0, cred != nil); why != "" {
			return ev.Failf("agreement", "%s round %d: %s", tag, round, why)
		}
		if err := dev.BlobRoundTrip(); err != nil {
			return ev.Failf("blob", "%s: %v", tag, err)
		}
	}
	if d.Cut.Proto != "" && !cutFired {
		return ev.Trivial("cut-not-reached")
	}
	r := ev.OK(cls)
	r.NonTrivial = cutFired || (d.Rounds >= 2 && !d.Reuse)
	r.ID = tag
	return r
}

func afterTO2(ctx context.Context, d histDesc, owner *deploy.Service, dev *deploy.Device, credBefore, storedBefore []byte, oldGUID protocol.GUID, j0 int, gotCred bool) string {
	if d.Reuse {
		if gotCred {
			return "credential reuse returned a credential"
		}
		after, _ := cbor.Marshal(dev.Cred)
		storedAfter, _ := owner.Mem.VoucherBytes(oldGUID)
		if !bytes.Equal(credBefore, after) || !bytes.Equal(storedBefore, storedAfter) {
			return "credential or stored voucher changed under credential reuse"
		}
		if owner.J.Count(j0, "ReplaceVoucher") != 0 {
			return "ReplaceVoucher called under credential reuse"
		}
	} else {
		if !gotCred {
			return "TO2 returned no replacement credential"
		}
		if _, ok := owner.Mem.VoucherBytes(oldGUID); ok && dev.Cred.GUID != oldGUID {
			return "the old voucher is still stored after replacement"
		}
		if dev.Cred.GUID == oldGUID {
			return "the replacement credential keeps the old GUID"
		}
	}
	return deploy.Agreement(ctx, owner.State, owner.Mem, dev)
}

func reps() []deploy.Config {
	return []deploy.Config{
		{Key: "P-256", Enc: "x509", Kex: "ECDH256", Cipher: "A128GCM"},
		{Key: "P-384", Enc: "cose", Kex: "ECDH384", Cipher: "COSEAES256CBC"},
		{Key: "RSA2048RESTR", Enc: "x5chain", Kex: "DHKEXid14", Cipher: "COSEAES128CTR"},
		{Key: "RSAPSS-3072", Enc: "x509", Kex: "ASYMKEX3072", Cipher: "A256GCM"},
	}
}

func allConfigs() []deploy.Config {
	var out []deploy.Config
	for _, k := range deploy.KeyNames {
		for _, e := range deploy.EncNames {
			if e == "cose" && strings.HasPrefix(k, "RSA") {
				continue
			}
			out = append(out, deploy.Config{Key: k, Enc: e, Kex: deploy.DefaultKex(k), Cipher: deploy.CipherNames[(len(out)*3)%7]})
		}
	}
	return out
}

// ---- storage faults while the owner handles Done (SQLite backend) --------------------------

type storeFault struct {
	Cfg   deploy.Config `json:"config"`
	Fault string        `json:"fault"`           // insert-fails | delete-fails | update-fails | none
	Phase string        `json:"phase,omitempty"` // "" = while the owner handles TO2.Done; "di" = while the manufacturer stores the DI voucher
}

// evalStoreFaultDI: the manufacturer's store is the real SQLite backend and refuses to insert
// the voucher at the end of DI: DI must fail, the device must not keep a credential for a
// voucher nobody holds, nothing is stored, and a retry without the fault succeeds with
// credential and stored voucher in agreement.
func evalStoreFaultDI(d storeFault) ev.Result {
	ctx, cancel := context.WithTimeout(context.Background(), 90*time.Second)
	defer cancel()
	scratch := deploy.ScratchDir()
	defer os.RemoveAll(scratch)
	mfg, db, err := deploy.NewSQLiteService("mfg", filepath.Join(scratch, "mfg.db"), deploy.KeyMfg, true)
	if err != nil {
		return ev.Failf("setup", "sqlite: %v", err)
	}
	defer db.Close()
	tag := fmt.Sprintf("%s/%s DI fault=%s", d.Cfg.Key, d.Cfg.Enc, d.Fault)
	if _, err := db.DB().ExecContext(ctx, "CREATE TRIGGER verif_fault BEFORE INSERT ON vouchers BEGIN SELECT RAISE(FAIL, 'disk full (injected)'); END"); err != nil {
		return ev.Failf("setup", "%s: installing the fault: %v", tag, err)
	}
	dev := deploy.NewDevice(d.Cfg, deploy.KeyDevice)
	derr := dev.DI(ctx, deploy.NewLink(mfg))
	var n int
	if err := db.DB().QueryRowContext(ctx, "SELECT COUNT(*) FROM vouchers").Scan(&n); err != nil {
		return ev.Failf("setup", "%s: counting vouchers: %v", tag, err)
	}
	if derr == nil {
		return ev.Failf("di-succeeded-despite-storage-fault", "%s: DI returned a credential although the manufacturer could not store the voucher (%d vouchers stored)", tag, n)
	}
	if n != 0 {
		return ev.Failf("voucher-stored-despite-storage-fault", "%s: %d vouchers stored although the insert failed", tag, n)
	}
	if _, err := db.DB().ExecContext(ctx, "DROP TRIGGER IF EXISTS verif_fault"); err != nil {
		return ev.Failf("setup", "%s: removing the fault: %v", tag, err)
	}
	dev = deploy.NewDevice(d.Cfg, deploy.KeyDevice)
	if err := dev.DI(ctx, deploy.NewLink(mfg)); err != nil {
		return ev.Failf("retry-failed-after-storage-fault", "%s: DI after the fault was removed: %v", tag, err)
	}
	if why := deploy.Agreement(ctx, mfg.State, nil, dev); why != "" {
		return ev.Failf("agreement-after-di", "%s: %s", tag, why)
	}
	res := ev.OK("storefault/di-insert-fails")
	res.ID = tag
	return res
}

// evalStoreFault: the owner's voucher store is the real SQLite backend; while the owner
// handles TO2.Done the store refuses one kind of statement on the vouchers table (a trigger
// raising an error, as a full disk or a constraint would). TO2 then fails before the owner
// accepted Done, so the device gets no credential and the owner's store must still hold
// exactly the voucher that matches the device's current credential; once the fault is gone a
// retry succeeds and credential and store agree.
func evalStoreFault(d storeFault) ev.Result {
	if d.Phase == "di" {
		return evalStoreFaultDI(d)
	}
	ctx, cancel := context.WithTimeout(context.Background(), 90*time.Second)
	defer cancel()
	scratch := deploy.ScratchDir()
	defer os.RemoveAll(scratch)
	mfg := deploy.NewMemService("mfg", deploy.KeyMfg)
	owner, db, err := deploy.NewSQLiteService("owner", filepath.Join(scratch, "owner.db"), deploy.KeyOwner1, true)
	if err != nil {
		return ev.Failf("setup", "sqlite: %v", err)
	}
	defer db.Close()
	dev := deploy.NewDevice(d.Cfg, deploy.KeyDevice)
	tag := fmt.Sprintf("%s/%s fault=%s", d.Cfg.Key, d.Cfg.Enc, d.Fault)
	if err := dev.DI(ctx, deploy.NewLink(mfg)); err != nil {
		return ev.Failf("setup", "%s: DI: %v", tag, err)
	}
	if _, err := deploy.TransferVoucher(ctx, d.Cfg, mfg, deploy.KeyMfg, owner, deploy.KeyOwner1, dev.Cred.GUID); err != nil {
		return ev.Failf("setup", "%s: transfer: %v", tag, err)
	}
	oldGUID := dev.Cred.GUID
	before, err := owner.State.Voucher(ctx, oldGUID)
	if err != nil {
		return ev.Failf("setup", "%s: stored voucher: %v", tag, err)
	}
	beforeBytes, _ := cbor.Marshal(before)
	credBefore, _ := cbor.Marshal(dev.Cred)
	trig := map[string]string{
		"insert-fails": "CREATE TRIGGER verif_fault BEFORE INSERT ON vouchers BEGIN SELECT RAISE(FAIL, 'disk full (injected)'); END",
		"delete-fails": "CREATE TRIGGER verif_fault BEFORE DELETE ON vouchers BEGIN SELECT RAISE(FAIL, 'disk full (injected)'); END",
		"update-fails": "CREATE TRIGGER verif_fault BEFORE UPDATE ON vouchers BEGIN SELECT RAISE(FAIL, 'disk full (injected)'); END",
	}[d.Fault]
	if trig != "" {
		if _, err := db.DB().ExecContext(ctx, trig); err != nil {
			return ev.Failf("setup", "%s: installing the fault: %v", tag, err)
		}
	}
	cred, terr := dev.TO2(ctx, deploy.NewLink(owner), nil)
	listGUIDs := func() ([]string, error) {
		rows, err := db.DB().QueryContext(ctx, "SELECT guid FROM vouchers")
		if err != nil {
			return nil, err
		}
		defer rows.Close()
		var out []string
		for rows.Next() {
			var g []byte
			if err := rows.Scan(&g); err != nil {
				return nil, err
			}
			out = append(out, fmt.Sprintf("%x", g))
		}
		return out, rows.Err()
	}
	if d.Fault == "none" {
		if terr != nil {
			return ev.Failf("storefault-control", "%s: TO2 without a fault failed on the SQLite backend: %v", tag, terr)
		}
		if why := deploy.Agreement(ctx, owner.State, nil, dev); why != "" {
			return ev.Failf("agreement", "%s: after TO2 on the SQLite backend: %s", tag, why)
		}
		return ev.Trivial("storefault/control")
	}
	guids, lerr := listGUIDs()
	if lerr != nil {
		return ev.Failf("setup", "%s: listing vouchers: %v", tag, lerr)
	}
	if terr == nil {
		// the fault did not bite (the statement kind is not used): then the handover simply completed
		_, _ = db.DB().ExecContext(ctx, "DROP TRIGGER IF EXISTS verif_fault")
		if why := deploy.Agreement(ctx, owner.State, nil, dev); why != "" {
			return ev.Failf("agreement", "%s: TO2 succeeded despite the injected storage fault, but: %s", tag, why)
		}
		return ev.Trivial("storefault/fault-not-hit/" + d.Fault)
	}
	if cred != nil {
		return ev.Failf("credential-despite-failure", "%s: TO2 failed (%v) but returned a credential", tag, terr)
	}
	if now, _ := cbor.Marshal(dev.Cred); !bytes.Equal(now, credBefore) {
		return ev.Failf("credential-changed", "%s: the device credential changed although TO2 failed", tag)
	}
	after, verr := owner.State.Voucher(ctx, oldGUID)
	if verr != nil {
		return ev.Failf("voucher-lost-on-storage-fault", "%s: TO2 failed at Done (%v) and the owner no longer holds the voucher of the device's current credential (vouchers now: %v): %v", tag, terr, guids, verr)
	}
	if ab, _ := cbor.Marshal(after); !bytes.Equal(ab, beforeBytes) {
		return ev.Failf("voucher-changed-on-storage-fault", "%s: the stored voucher changed although Done failed", tag)
	}
	if _, err := db.DB().ExecContext(ctx, "DROP TRIGGER IF EXISTS verif_fault"); err != nil {
		return ev.Failf("setup", "%s: removing the fault: %v", tag, err)
	}
	if _, err := dev.TO2(ctx, deploy.NewLink(owner), nil); err != nil {
		return ev.Failf("retry-failed-after-storage-fault", "%s: after the fault was removed TO2 still fails: %v (vouchers after the failed run: %v)", tag, err, guids)
	}
	if why := deploy.Agreement(ctx, owner.State, nil, dev); why != "" {
		return ev.Failf("agreement", "%s: after the retry: %s", tag, why)
	}
	res := ev.OK("storefault/" + d.Fault)
	res.ID = tag
	return res
}

func TestC03(t *testing.T) {
	r := ev.Start(t, "C03")
	defer r.Finish()
	cfgs := reps()
	if r.Thorough() {
		cfgs = allConfigs()
	}
	r.SetRule("cuts", fmt.Sprintf("fault enumeration (exhaustive for %d configurations × {reuse, replace}): every request ordinal of DI (2) and of the TO2 of round 1 and round 2 (60, 62, 64, 66, 68, 68, 70) × {request lost, response lost, peer answers error 255}. Oracle: the cut protocol returns an error and no credential; unless the owner had already accepted Done (response to 70 lost) the journal shows no AddVoucher/ReplaceVoucher/RemoveVoucher and the stored voucher bytes are unchanged; the device's credential is unchanged and a retry succeeds; after every successful DI/TO2 the stored voucher agrees with the credential (header HMAC under the device secret, manufacturer-key hash, GUID, RvInfo, DeviceInfo, certificate hash; library functions and independent reference on the stored bytes), also after a blob round trip. All fired cuts non-trivial.", len(cfgs)))
	ev.Enum(r, "cuts", true, func(yield func(histDesc) bool) {
		i := 0
		for _, c := range cfgs {
			for _, reuse := range []bool{false, true} {
				for _, proto := range []string{"di", "to2"} {
					nOrd, rounds := 2, []int{0}
					if proto == "to2" {
						nOrd, rounds = 8, []int{1, 2}
					}
					for _, round := range rounds {
						for ord := 0; ord < nOrd; ord++ {
							for _, mode := range []string{"req-lost", "resp-lost", "error255"} {
								i++
								if !r.Mine(i) {
									continue
								}
								if !yield(histDesc{Cfg: c, Reuse: reuse, Rounds: 2, RvMfg: 2, RvOwn: 0, Cut: cut{proto, round, ord, mode}}) {
									return
								}
							}
						}
					}
				}
			}
		}
	}, evalHist)

	r.SetRule("storage-faults", "the owner's store is the real SQLite backend; while the owner handles TO2.Done one kind of statement on the vouchers table fails (trigger raising an error: INSERT, DELETE or UPDATE), for 4 configurations, plus a fault-free control, and the same INSERT failure while the manufacturer stores the voucher at the end of DI (DI must fail, nothing stored, retry succeeds). Oracle: TO2 fails without a credential, the device credential is unchanged, the owner still holds byte-for-byte the voucher of the device's current credential, and after the fault is removed a retry succeeds with credential and store in agreement. Exhaustive over faults × configurations.")
	ev.Enum(r, "storage-faults", true, func(yield func(storeFault) bool) {
		i := 0
		for _, c := range reps() {
			for _, f := range []string{"none", "insert-fails", "delete-fails", "update-fails"} {
				i++
				if !r.Mine(i) {
					continue
				}
				if !yield(storeFault{Cfg: c, Fault: f}) {
					return
				}
			}
			i++
			if r.Mine(i) && !yield(storeFault{Cfg: c, Fault: "insert-fails", Phase: "di"}) {
				return
			}
		}
	}, evalStoreFault)

	r.SetRule("histories", "rapid: configuration (all key types/encodings × valid key exchange × cipher) × reuse × 1..3 rounds of (extend/resell to the next of three owners, TO2) × rendezvous-info variants set by manufacturer and owners (empty, one directive, two directives, bypass) × owner key stores with or without certificate chains × optionally one cut; same oracle. Non-trivial: a fired cut, or ≥2 replace rounds; distinct by descriptor.")
	ev.Rapid(r, "histories", ev.N{Quick: 1500, Thorough: 60000}, func(t *rapid.T) histDesc {
		key := rapid.SampledFrom(deploy.KeyNames).Draw(t, "key")
		encs := deploy.EncNames
		if strings.HasPrefix(key, "RSA") {
			encs = encs[:2]
		}
		kx := deploy.DefaultKex(key)
		if strings.HasPrefix(key, "RSA") && rapid.Bool().Draw(t, "otherkex") {
			kx = rapid.SampledFrom(deploy.KexNames).Draw(t, "kex")
		}
		d := histDesc{Cfg: deploy.Config{Key: key, Enc: rapid.SampledFrom(encs).Draw(t, "enc"), Kex: kx, Cipher: rapid.SampledFrom(deploy.CipherNames).Draw(t, "cipher")},
			Reuse: rapid.IntRange(0, 3).Draw(t, "reuse") == 0, Rounds: rapid.IntRange(1, 3).Draw(t, "rounds"), RvMfg: rapid.IntRange(0, 7).Draw(t, "rvmfg"), RvOwn: rapid.IntRange(0, 7).Draw(t, "rvown")}
		d.NoChain = rapid.IntRange(0, 3).Draw(t, "nochain") == 0
		if rapid.Bool().Draw(t, "cut") {
			d.Cut = cut{Proto: rapid.SampledFrom([]string{"di", "to2", "to2", "to2"}).Draw(t, "proto"), Round: rapid.IntRange(1, d.Rounds).Draw(t, "round"), Ordinal: rapid.IntRange(0, 8).Draw(t, "ord"),
				Mode: rapid.SampledFrom([]string{"req-lost", "resp-lost", "error255"}).Draw(t, "mode")}
		}
		return d
	}, evalHist)
	ev.CheckWitness(r, "histories", evalHist)
}
