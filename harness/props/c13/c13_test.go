//go:build verif

// C13 — COSE signatures and MACs verify exactly what was signed, with the right key.
package c13

import (
	"bytes"
	"crypto"
	"crypto/ecdsa"
	"crypto/hmac"
	"crypto/rsa"
	"encoding/hex"
	"fmt"
	"testing"

	"github.com/fido-device-onboard/go-fdo/cbor"
	"github.com/fido-device-onboard/go-fdo/cose"
	"pgregory.net/rapid"

	"verif/harness/ev"
	"verif/harness/keys"
	"verif/harness/refcbor"
	"verif/harness/refverify"
)

type inner struct {
	X int64
	Y string
	Z []byte
}

type algInfo struct {
	name string
	id   int64
	kind string
	opts func() crypto.SignerOpts
}

var algs = []algInfo{
	{"ES256", refverify.ES256, "ec256", func() crypto.SignerOpts { return nil }},
	{"ES384", refverify.ES384, "ec384", func() crypto.SignerOpts { return nil }},
	{"RS256", refverify.RS256, "rsa2048", func() crypto.SignerOpts { return crypto.SHA256 }},
	{"RS384", refverify.RS384, "rsa3072", func() crypto.SignerOpts { return crypto.SHA384 }},
	{"PS256", refverify.PS256, "rsa2048", func() crypto.SignerOpts {
		return &rsa.PSSOptions{SaltLength: rsa.PSSSaltLengthEqualsHash, Hash: crypto.SHA256}
	}},
	{"PS384", refverify.PS384, "rsa3072", func() crypto.SignerOpts {
		return &rsa.PSSOptions{SaltLength: rsa.PSSSaltLengthEqualsHash, Hash: crypto.SHA384}
	}},
}

func algByName(n string) *algInfo {
	for i := range algs {
		if algs[i].name == n {
			return &algs[i]
		}
	}
	return nil
}

type tamper struct {
	Kind string `json:"kind"` // none | sig-bit | prot-bit | payload-bit | aad-bit | key-same-type | key-other-type | siglen | alg-hdr | unprot-extra | detached-other
	Arg  int    `json:"arg"`
}

type signDesc struct {
	Alg      string `json:"alg"`
	Key      int    `json:"key"`
	Shape    string `json:"shape"`   // bytes | struct | raw
	Payload  string `json:"payload"` // hex: content (bytes), or fields seed (struct), or an encoded CBOR item (raw)
	Detached bool   `json:"detached"`
	AAD      string `json:"aad"` // hex, may be empty
	RefSigns bool   `json:"ref_signs"`
	Extra    bool   `json:"extra_prot"` // additional protected header besides alg
	Tamper   tamper `json:"tamper"`
	// OtherSize: RSA algorithms with the key of the OTHER modulus size (RS256/PS256 with 3072 bits,
	// RS384/PS384 with 2048 bits): legal COSE, and what Sign produces Verify has to accept
	OtherSize bool `json:"other_size,omitempty"`
}

var tamperKinds = []string{"none", "sig-bit", "prot-bit", "payload-bit", "aad-bit", "key-same-type", "key-other-type", "siglen", "alg-hdr", "detached-other"}

func genSign(t *rapid.T) signDesc {
	d := signDesc{
		Alg:      rapid.SampledFrom([]string{"ES256", "ES256", "ES384", "ES384", "RS256", "RS384", "PS256", "PS384"}).Draw(t, "alg"),
		Key:      rapid.IntRange(0, 5).Draw(t, "key"),
		Shape:    rapid.SampledFrom([]string{"bytes", "struct", "raw"}).Draw(t, "shape"),
		Detached: rapid.IntRange(0, 3).Draw(t, "det") == 0,
		RefSigns: rapid.IntRange(0, 3).Draw(t, "refsigns") == 0,
		Extra:    rapid.Bool().Draw(t, "extra"),
	}
	n := rapid.SampledFrom([]int{0, 1, 2, 16, 23, 24, 64, 255, 256, 1000, 5000}).Draw(t, "plen")
	pl := rapid.SliceOfN(rapid.Byte(), n, n).Draw(t, "payload")
	if d.Shape == "raw" {
		pl = refcbor.Encode(refcbor.A(refcbor.B(pl), refcbor.I(int64(n)-7), refcbor.M(refcbor.I(1), refcbor.T("x"))))
	}
	d.Payload = hex.EncodeToString(pl)
	if rapid.Bool().Draw(t, "hasaad") {
		d.AAD = hex.EncodeToString(rapid.SliceOfN(rapid.Byte(), 1, 40).Draw(t, "aad"))
	}
	if (d.Alg[0] == 'R' || d.Alg[0] == 'P') && rapid.IntRange(0, 3).Draw(t, "othersize") == 0 {
		d.OtherSize = true
	}
	if rapid.IntRange(0, 2).Draw(t, "neg") > 0 {
		d.Tamper = tamper{Kind: rapid.SampledFrom(tamperKinds[1:]).Draw(t, "tk"), Arg: rapid.IntRange(0, 1<<16).Draw(t, "targ")}
	} else {
		d.Tamper.Kind = "none"
	}
	return d
}

func evalSign(d signDesc) ev.Result {
	switch d.Shape {
	case "bytes":
		pl, _ := hex.DecodeString(d.Payload)
		return runSign(d, pl, func(p []byte, bit int) []byte {
			q := append([]byte{}, p...)
			if len(q) == 0 {
				return []byte{1}
			}
			q[(bit/8)%len(q)] ^= 1 << (bit % 8)
			return q
		})
	case "struct":
		pl, _ := hex.DecodeString(d.Payload)
		v := inner{X: int64(len(pl)) - 3, Y: hex.EncodeToString(pl[:min(len(pl), 8)]), Z: pl}
		return runSign(d, v, func(p inner, bit int) inner {
			q := p
			switch bit % 3 {
			case 0:
				q.X ^= 1 << (bit % 60)
			case 1:
				q.Y += "!"
			default:
				q.Z = append(append([]byte{}, p.Z...), 0)
			}
			return q
		})
	default:
		pl, _ := hex.DecodeString(d.Payload)
		return runSign(d, cbor.RawBytes(pl), func(p cbor.RawBytes, bit int) cbor.RawBytes {
			return cbor.RawBytes(refcbor.Encode(refcbor.A(rawNode(p), refcbor.U(uint64(bit)))))
		})
	}
}

func rawNode(b []byte) *refcbor.Node {
	n, err := refcbor.ParseAll(b)
	if err != nil {
		return refcbor.B(b)
	}
	return n
}

func runSign[P any](d signDesc, payload P, alter func(P, int) P) ev.Result {
	ai := algByName(d.Alg)
	if ai == nil {
		return ev.Result{Skip: true}
	}
	kind := ai.kind
	if d.OtherSize && keys.IsRSA(kind) {
		kind = map[string]string{"rsa2048": "rsa3072", "rsa3072": "rsa2048"}[kind]
	}
	key := keys.Get(kind, d.Key)
	var aad []byte
	if d.AAD != "" {
		aad, _ = hex.DecodeString(d.AAD)
	}
	payloadEnc, err := cbor.Marshal(payload)
	if err != nil {
		return ev.Result{Skip: true}
	}
	payloadContent := payloadEnc // content of the payload bstr: the encoded value ...
	if b, ok := any(payload).([]byte); ok {
		payloadContent = b // ... except for raw byte payloads, which are the content itself
	}

	// --- produce the signed object (library, or reference implementation) ---
	var wire []byte
	if !d.RefSigns {
		s1 := cose.Sign1[P, []byte]{}
		if d.Extra {
			s1.Protected = cose.HeaderMap{cose.Label{Int64: 300}: []byte{1, 2, 3}}
			s1.Unprotected = cose.HeaderMap{cose.Label{Int64: 4}: []byte("kid")}
		}
		var detached *P
		if d.Detached {
			detached = &payload
		} else {
			s1.Payload = cbor.NewByteWrap(payload)
		}
		if err := s1.Sign(key, detached, aad, ai.opts()); err != nil {
			return ev.Failf("sign-error", "Sign failed for %s: %v", d.Alg, err)
		}
		wire, err = cbor.Marshal(s1.Tag())
		if err != nil {
			return ev.Failf("marshal-error", "Marshal(Sign1Tag) failed: %v", err)
		}
	} else {
		prot := refcbor.M(refcbor.I(1), refcbor.I(ai.id))
		unprot := refcbor.M()
		if d.Extra {
			// a conforming foreign signer may protect parameters of any value kind, including null
			n := 0
			if pb, err := hex.DecodeString(d.Payload); err == nil {
				n = len(pb) + len(d.AAD)
			}
			xv := []*refcbor.Node{refcbor.B([]byte{1, 2, 3}), refcbor.Null(), refcbor.U(7), refcbor.T("x"), refcbor.B(nil), refcbor.Bool(true)}[n%6]
			prot.Items = append(prot.Items, refcbor.I(300), xv)
			unprot.Items = append(unprot.Items, refcbor.I(4), refcbor.B([]byte("kid")))
		}
		protBytes := refcbor.Encode(prot)
		sig, err := refverify.SignRaw(key, ai.id, refverify.SigStructure(protBytes, aad, payloadContent))
		if err != nil {
			panic(err)
		}
		pl := refcbor.B(payloadContent)
		if d.Detached {
			pl = refcbor.Null()
		}
		wire = refcbor.Encode(refcbor.Tg(18, refcbor.A(refcbor.B(protBytes), unprot, pl, refcbor.B(sig))))
	}

	// --- reference view of the wire object ---
	ref, err := refverify.ParseSign1(wire)
	if err != nil {
		return ev.Failf("wire-shape", "signed object is not a COSE_Sign1 on the wire: %v (%x)", err, wire)
	}
	var detachedContent []byte
	if d.Detached {
		detachedContent = payloadContent
	}
	if ok, why := refverify.VerifySign1(ref, key.Public(), detachedContent, aad); !ok {
		return ev.Failf("ref-rejects-genuine", "library-signed %s object does not verify under the reference: %s (wire %x)", d.Alg, why, clip(wire))
	}
	cls := "positive"
	if _, isEC := key.Public().(*ecdsa.PublicKey); isEC {
		n := len(ref.Signature) / 2
		if n > 0 && (ref.Signature[0] == 0 || ref.Signature[n] == 0) {
			cls = "positive-leading-zero-r-or-s"
		}
	}

	// --- tamper -------------------------------------------------------------
	verifyKey := key.Public()
	verifyAAD := aad
	verifyDetached := payload
	tk := d.Tamper.Kind
	wireT := wire
	mutateWire := func(f func(arr *refcbor.Node) bool) bool {
		n, err := refcbor.ParseAll(wire)
		if err != nil {
			return false
		}
		if !f(n.Items[0]) {
			return false
		}
		wireT = refcbor.EncodeKeepOrder(n)
		return true
	}
	flip := func(b []byte, bit int) []byte {
		q := append([]byte{}, b...)
		q[(bit/8)%len(q)] ^= 1 << (bit % 8)
		return q
	}
	applicable := true
	switch tk {
	case "none":
	case "sig-bit":
		applicable = mutateWire(func(a *refcbor.Node) bool {
			a.Items[3].Bytes = flip(a.Items[3].Bytes, d.Tamper.Arg)
			return true
		})
	case "prot-bit":
		applicable = mutateWire(func(a *refcbor.Node) bool {
			// alter the protected map semantically: change the extra header or add one
			pm, err := refcbor.ParseAll(a.Items[0].Bytes)
			if err != nil {
				return false
			}
			// the added parameter's value runs through every CBOR kind (a null or empty value still changes the bytes that were signed)
			vals := []*refcbor.Node{refcbor.U(uint64(d.Tamper.Arg)), refcbor.Null(), refcbor.B(nil), refcbor.Bool(false), refcbor.T(""), refcbor.A(), refcbor.M(), refcbor.I(-1), refcbor.Tg(1, refcbor.U(0)), refcbor.U(0)}
			switch (d.Tamper.Arg / 64) % 3 {
			case 0, 1:
				pm.Items = append(pm.Items, refcbor.I(int64(1000+d.Tamper.Arg%50)), vals[d.Tamper.Arg%len(vals)])
			default:
				// replace the value of an existing non-alg parameter, or add when there is none
				done := false
				for i := 0; i+1 < len(pm.Items); i += 2 {
					if k, ok := refverify.NodeInt(pm.Items[i]); ok && k != 1 {
						pm.Items[i+1], done = vals[d.Tamper.Arg%len(vals)], true
					}
				}
				if !done {
					pm.Items = append(pm.Items, refcbor.I(7), vals[d.Tamper.Arg%len(vals)])
				}
			}
			nb := refcbor.Encode(pm)
			if bytes.Equal(nb, a.Items[0].Bytes) {
				return false
			}
			a.Items[0].Bytes = nb
			return true
		})
	case "payload-bit":
		if d.Detached {
			verifyDetached = alter(payload, d.Tamper.Arg)
		} else {
			applicable = mutateWire(func(a *refcbor.Node) bool {
				if len(a.Items[2].Bytes) == 0 {
					a.Items[2].Bytes = []byte{0}
					return true
				}
				a.Items[2].Bytes = flip(a.Items[2].Bytes, d.Tamper.Arg)
				return true
			})
		}
	case "detached-other":
		if !d.Detached {
			// a detached payload argument overrides the attached one
			verifyDetached = alter(payload, d.Tamper.Arg)
			tk = "detached-override"
		} else {
			verifyDetached = alter(payload, d.Tamper.Arg)
		}
	case "aad-bit":
		if len(aad) == 0 {
			verifyAAD = []byte{byte(d.Tamper.Arg)}
		} else if d.Tamper.Arg%5 == 0 {
			verifyAAD = nil
		} else {
			verifyAAD = flip(aad, d.Tamper.Arg)
		}
	case "key-same-type":
		verifyKey = keys.Get(kind, d.Key+1+d.Tamper.Arg%3).Public()
	case "key-other-type":
		others := []string{}
		for _, k := range keys.Kinds {
			if k != kind {
				others = append(others, k)
			}
		}
		verifyKey = keys.Get(others[d.Tamper.Arg%len(others)], d.Tamper.Arg).Public()
	case "siglen":
		applicable = mutateWire(func(a *refcbor.Node) bool {
			sig := a.Items[3].Bytes
			n := len(sig) / 2
			switch d.Tamper.Arg % 12 {
			case 9, 10, 11: // 0^k || r || 0^k || s : both halves padded symmetrically
				k := []int{1, 2, 16}[d.Tamper.Arg%12-9]
				pad := make([]byte, k)
				sig = append(append(append(append([]byte{}, pad...), sig[:n]...), pad...), sig[n:]...)
			case 0:
				sig = nil
			case 1:
				sig = sig[:1]
			case 2:
				sig = sig[:len(sig)-1]
			case 3:
				sig = sig[:len(sig)-2]
			case 4:
				sig = append(append([]byte{}, sig...), 0, 0)
			case 5: // r || 00 00 || s : numerically the same (r,s) with an impossible length
				sig = append(append(append([]byte{}, sig[:n]...), 0, 0), sig[n:]...)
			case 6: // 00 00 || r || s
				sig = append([]byte{0, 0}, sig...)
			case 7:
				sig = sig[:n]
			default:
				sig = append(append([]byte{}, sig...), sig...)
			}
			a.Items[3].Bytes = sig
			return true
		})
	case "alg-hdr":
		applicable = mutateWire(func(a *refcbor.Node) bool {
			pm, err := refcbor.ParseAll(a.Items[0].Bytes)
			if err != nil {
				return false
			}
			v := refverify.MapGet(pm, 1)
			if v == nil {
				return false
			}
			repl := []*refcbor.Node{refcbor.I(-8), refcbor.I(-36), refcbor.I(-39), refcbor.I(0), refcbor.I(-65535), refcbor.I(1 << 40), refcbor.T("ES256"), refcbor.B([]byte{1}), refcbor.Null(),
				refcbor.I(refverify.ES256), refcbor.I(refverify.ES384), refcbor.I(refverify.RS256), refcbor.I(refverify.PS256), refcbor.I(refverify.RS384), refcbor.I(refverify.PS384)}
			nv := repl[d.Tamper.Arg%(len(repl)+1)%len(repl)]
			if d.Tamper.Arg%(len(repl)+1) == len(repl) {
				// remove the alg header entirely
				pm.Items = pm.Items[2:]
				if len(pm.Items) == 0 {
					a.Items[0].Bytes = []byte{}
					return true
				}
			} else {
				if refcbor.Equal(nv, v) {
					return false
				}
				*v = *nv
			}
			a.Items[0].Bytes = refcbor.Encode(pm)
			return true
		})
	default:
		return ev.Result{Skip: true}
	}
	if !applicable {
		return ev.Trivial("tamper-not-applicable")
	}

	// --- library verifies what was received ------------------------------------
	var recv cose.Sign1Tag[P, []byte]
	if err := cbor.Unmarshal(wireT, &recv); err != nil {
		if tk == "none" {
			return ev.Failf("unmarshal-genuine", "genuine %s object does not decode: %v (%x)", d.Alg, err, clip(wire))
		}
		return ev.OK("neg-rejected-at-decode/" + tk)
	}
	var detachedArg *P
	if d.Detached || tk == "detached-override" {
		detachedArg = &verifyDetached
	}
	ok, verr := recv.Verify(verifyKey, detachedArg, verifyAAD)
	if tk == "none" {
		if verr != nil || !ok {
			who := "library"
			if d.RefSigns {
				who = "reference"
			}
			return ev.Failf("genuine-rejected", "%s-signed %s object (shape %s, detached %v, aad %d bytes) does not verify after transmission: ok=%v err=%v", who, d.Alg, d.Shape, d.Detached, len(aad), ok, verr)
		}
		// re-encoding the received object reproduces the bytes (stable hashes)
		re, err := cbor.Marshal(&recv)
		if err != nil || !bytes.Equal(re, wire) {
			return ev.Failf("reencode", "Sign1Tag re-encodes differently after transmission: %x vs %x (err %v)", clip(re), clip(wire), err)
		}
		r := ev.OK(cls)
		r.NonTrivial = cls != "positive" || d.RefSigns
		return r
	}
	if ok && verr == nil {
		// Does the reference agree that what was presented is a valid signature?
		refT, perr := refverify.ParseSign1(wireT)
		why := "wire object no longer parses"
		refOK := false
		if perr == nil {
			var det []byte
			if d.Detached || tk == "detached-override" {
				enc, _ := cbor.Marshal(verifyDetached)
				det = enc
				if b, isB := any(verifyDetached).([]byte); isB {
					det = b
				}
				if tk == "detached-override" {
					refT.PayloadNil = true
				}
			}
			refOK, why = refverify.VerifySign1(refT, verifyKey, det, verifyAAD)
		}
		if !refOK && tk == "payload-bit" && recv.Payload != nil {
			// The library authenticates the decoded payload value (it re-encodes it
			// canonically). A bit change that only switches to an equivalent,
			// leniently accepted encoding (bstr for tstr, ...) leaves that value
			// unchanged and is not a forgery.
			if enc, err := cbor.Marshal(recv.Payload.Val); err == nil && bytes.Equal(enc, payloadEnc) {
				return ev.Trivial("neg-equivalent-encoding")
			}
		}
		if !refOK {
			return ev.Failf("forgery-accepted:"+tk, "Verify returned true for a %s object tampered by %s (arg %d): reference says: %s", d.Alg, tk, d.Tamper.Arg, why)
		}
		return ev.Trivial("neg-still-valid/" + tk) // e.g. detached-override with identical payload
	}
	return ev.OK("neg-rejected/" + tk)
}

func clip(b []byte) []byte {
	if len(b) > 200 {
		return b[:200]
	}
	return b
}

// ---------------------------------------------------------------------------
// Mac0
// ---------------------------------------------------------------------------

type macDesc struct {
	Alg      int    `json:"alg"` // 5 or 6
	Key      string `json:"key"`
	Payload  string `json:"payload"`
	AAD      string `json:"aad"`
	Detached bool   `json:"detached"`
	Tamper   tamper `json:"tamper"` // none | payload-bit | aad-bit | key-bit | prot-bit
}

func genMac(t *rapid.T) macDesc {
	alg := rapid.SampledFrom([]int{5, 6}).Draw(t, "alg")
	kl := 16 // the package requires 128-bit keys for HMAC-256 and 256-bit keys for HMAC-384
	if alg == 6 {
		kl = 32
	}
	d := macDesc{Alg: alg, Key: hex.EncodeToString(rapid.SliceOfN(rapid.Byte(), kl, kl).Draw(t, "key")),
		Payload:  hex.EncodeToString(rapid.SliceOfN(rapid.Byte(), 0, 300).Draw(t, "pl")),
		Detached: rapid.Bool().Draw(t, "det")}
	if rapid.Bool().Draw(t, "hasaad") {
		d.AAD = hex.EncodeToString(rapid.SliceOfN(rapid.Byte(), 1, 40).Draw(t, "aad"))
	}
	d.Tamper = tamper{Kind: rapid.SampledFrom([]string{"none", "payload-bit", "aad-bit", "key-bit", "prot-bit"}).Draw(t, "tk"), Arg: rapid.IntRange(0, 1<<12).Draw(t, "arg")}
	return d
}

func evalMac(d macDesc) ev.Result {
	key, _ := hex.DecodeString(d.Key)
	pl, _ := hex.DecodeString(d.Payload)
	var aad []byte
	if d.AAD != "" {
		aad, _ = hex.DecodeString(d.AAD)
	}
	v := inner{X: int64(len(pl)), Y: "mac", Z: pl}
	mk := func(key []byte, v inner, aad []byte, extra bool) (*cose.Mac0[inner, []byte], error) {
		m := &cose.Mac0[inner, []byte]{}
		if extra {
			m.Protected = cose.HeaderMap{cose.Label{Int64: 300}: int64(d.Tamper.Arg)}
		}
		var det *inner
		if d.Detached {
			det = &v
		} else {
			m.Payload = cbor.NewByteWrap(v)
		}
		return m, m.Digest(cose.MacAlgorithm(d.Alg), key, det, aad)
	}
	m, err := mk(key, v, aad, false)
	if err != nil {
		return ev.Failf("mac-error", "Digest failed: %v", err)
	}
	wire, err := cbor.Marshal(m.Tag())
	if err != nil {
		return ev.Failf("mac-marshal", "Marshal(Mac0Tag): %v", err)
	}
	ref, err := refverify.ParseSign1(wire)
	if err != nil {
		return ev.Failf("mac-wire-shape", "Mac0 is not a 4-array on the wire: %v", err)
	}
	content, _ := cbor.Marshal(v)
	want, _ := refverify.Hmac(int64(d.Alg), key, refverify.MacStructure(ref.Protected, aad, content))
	if !bytes.Equal(ref.Signature, want) {
		return ev.Failf("mac-value", "Mac0 tag %x differs from reference HMAC over MAC_structure %x", ref.Signature, want)
	}
	if a, ok := ref.Alg(); !ok || a != int64(d.Alg) {
		return ev.Failf("mac-alg-header", "Mac0 protected header does not carry alg %d", d.Alg)
	}
	// transmission
	var recv cose.Mac0Tag[inner, []byte]
	if err := cbor.Unmarshal(wire, &recv); err != nil {
		return ev.Failf("mac-unmarshal", "Mac0Tag does not decode: %v", err)
	}
	// a receiver recomputes the tag (as kex.SessionCrypter does) and compares
	recompute := func(key []byte, v inner, aad []byte, extra bool) []byte {
		m2 := &cose.Mac0[inner, []byte]{Header: cose.Header{Protected: recv.Protected, Unprotected: recv.Unprotected}, Payload: recv.Payload}
		if extra {
			m2.Protected = cose.HeaderMap{cose.Label{Int64: 300}: int64(d.Tamper.Arg)}
			for k, val := range recv.Protected {
				m2.Protected[k] = val
			}
		}
		var det *inner
		if d.Detached {
			det = &v
		}
		if err := m2.Digest(cose.MacAlgorithm(d.Alg), key, det, aad); err != nil {
			return nil
		}
		return m2.Value
	}
	// The library's own callers (kex.SessionCrypter.Decrypt) keep the received
	// tag, call Digest on the received object itself and compare: do exactly that.
	inPlace := func(key []byte, v inner, aad []byte) (equal bool, err error) {
		var obj cose.Mac0Tag[inner, []byte]
		if err := cbor.Unmarshal(wire, &obj); err != nil {
			return false, err
		}
		expected := obj.Value
		snapshot := append([]byte{}, expected...)
		var det *inner
		if d.Detached {
			det = &v
		} else if d.Tamper.Kind == "payload-bit" {
			obj.Payload = cbor.NewByteWrap(v)
		}
		if err := obj.Digest(cose.MacAlgorithm(d.Alg), key, det, aad); err != nil {
			return false, err
		}
		if !bytes.Equal(expected, snapshot) {
			return false, fmt.Errorf("Digest overwrote the received tag in place (caller's saved slice changed from %x to %x)", snapshot, expected)
		}
		return hmac.Equal(expected, obj.Value), nil
	}
	{
		k2, v2, aad2 := key, v, aad
		switch d.Tamper.Kind {
		case "payload-bit":
			v2.Z = append(append([]byte{}, v.Z...), byte(d.Tamper.Arg))
		case "aad-bit":
			aad2 = append(append([]byte{}, aad...), byte(d.Tamper.Arg))
		case "key-bit":
			k2 = append([]byte{}, key...)
			k2[d.Tamper.Arg%len(k2)] ^= 1 << (d.Tamper.Arg % 8)
		}
		if d.Tamper.Kind != "prot-bit" {
			eq, err := inPlace(k2, v2, aad2)
			if err != nil {
				return ev.Failf("mac-inplace", "save-tag / Digest / compare on the received Mac0: %v", err)
			}
			if eq != (d.Tamper.Kind == "none") {
				return ev.Failf("mac-inplace-compare:"+d.Tamper.Kind, "save-tag / Digest / compare on the received Mac0 says equal=%v for tamper %q", eq, d.Tamper.Kind)
			}
		}
	}
	switch d.Tamper.Kind {
	case "none":
		if got := recompute(key, v, aad, false); !bytes.Equal(got, recv.Value) {
			return ev.Failf("mac-recompute", "recomputed tag %x differs from transmitted %x", got, recv.Value)
		}
		return ev.OK("mac-positive")
	case "payload-bit":
		v2 := v
		v2.Z = append(append([]byte{}, v.Z...), byte(d.Tamper.Arg))
		if d.Detached {
			if got := recompute(key, v2, aad, false); bytes.Equal(got, recv.Value) {
				return ev.Failf("mac-collision:payload", "tag unchanged after altering the detached payload")
			}
		} else {
			recv.Payload = cbor.NewByteWrap(v2)
			if got := recompute(key, v2, aad, false); bytes.Equal(got, want) {
				return ev.Failf("mac-collision:payload", "tag unchanged after altering the payload")
			}
		}
	case "aad-bit":
		aad2 := append(append([]byte{}, aad...), byte(d.Tamper.Arg))
		if got := recompute(key, v, aad2, false); bytes.Equal(got, recv.Value) {
			return ev.Failf("mac-collision:aad", "tag unchanged after altering the external data")
		}
	case "key-bit":
		k2 := append([]byte{}, key...)
		k2[d.Tamper.Arg%len(k2)] ^= 1 << (d.Tamper.Arg % 8)
		if got := recompute(k2, v, aad, false); bytes.Equal(got, recv.Value) {
			return ev.Failf("mac-collision:key", "tag unchanged under a different key")
		}
	case "prot-bit":
		if got := recompute(key, v, aad, true); bytes.Equal(got, recv.Value) {
			return ev.Failf("mac-collision:protected", "tag unchanged after adding a protected header")
		}
	}
	return ev.OK("mac-neg/" + d.Tamper.Kind)
}

func TestC13(t *testing.T) {
	r := ev.Start(t, "C13")
	defer r.Finish()
	r.SetRule("sign1", "alg ∈ {ES256,ES384,RS256,RS384,PS256,PS384} × 6 static keys (RSA algorithms also with the key of the other modulus size) × payload shape {[]byte, struct, RawBytes} × size class (0..5000) × attached/detached × AAD × extra protected header × signer {library, independent reference}; 2/3 of cases carry one tamper (bit of signature / protected map change: a parameter added or an existing one replaced with a value of every CBOR kind incl. null and empty / payload bit / AAD / foreign key of same or other type / impossible signature lengths incl. r‖0000‖s / alg header replaced by unregistered, mismatched, mistyped or missing id / detached override). Oracle: genuine objects verify under the library AND the reference and re-encode identically; tampered objects yield (false,nil) or an error, never true (unless the reference also accepts), never a panic. Non-trivial: every negative case, reference-signed positives and positives whose r or s has a leading zero byte; distinct by descriptor.")
	ev.Rapid(r, "sign1", ev.N{Quick: 12000, Thorough: 400000}, genSign, evalSign)
	r.SetRule("siglen-sweep", "exhaustive: every alg × every impossible-length construction (12, incl. r‖0000‖s and 0^k‖r‖0^k‖s) × attached/detached")
	ev.Enum(r, "siglen-sweep", true, func(yield func(signDesc) bool) {
		i := 0
		for _, a := range algs {
			for arg := 0; arg < 12; arg++ {
				for _, det := range []bool{false, true} {
					for _, hdr := range []string{"siglen", "alg-hdr"} {
						for k := 0; k < 2; k++ {
							i++
							if !r.Mine(i) {
								continue
							}
							targ := arg
							if hdr == "alg-hdr" {
								targ = arg + 12*k
							}
							if !yield(signDesc{Alg: a.name, Key: k, Shape: "bytes", Payload: "68656c6c6f", Detached: det, Tamper: tamper{Kind: hdr, Arg: targ}}) {
								return
							}
						}
					}
				}
			}
		}
	}, evalSign)
	r.SetRule("leading-zeros", "exhaustive: ES256/ES384 × r with 0/1/≥2 leading zero bytes (nonces searched once) × s with 0/1/2/3/5/size-2 leading zero bytes × attached/detached × payload sizes {0, 1, 24, 300}: signatures constructed to be valid (private key solved from the chosen r, s and the Sig_structure digest; the independent reference must accept them) must verify, and with one bit of s flipped must not. Random signatures reach two leading zero bytes once in 65 536 cases.")
	ev.Enum(r, "leading-zeros", true, func(yield func(lzDesc) bool) {
		i := 0
		for _, a := range []string{"ES256", "ES384"} {
			for rz := 0; rz <= 2; rz++ {
				for _, sz := range []int{0, 1, 2, 3, 5, 30} {
					for _, det := range []bool{false, true} {
						for _, size := range []int{0, 1, 24, 300} {
							for _, flip := range []bool{false, true} {
								if flip && size != 24 {
									continue
								}
								i++
								if !r.Mine(i) {
									continue
								}
								if !yield(lzDesc{Alg: a, RZeros: rz, SZeros: sz, Size: size, Detached: det, Flip: flip}) {
									return
								}
							}
						}
					}
				}
			}
		}
	}, evalLeadZero)
	r.SetRule("mac0", "HMAC-256/384 × random key × payload × AAD × attached/detached × tamper {none, payload, AAD, key bit, protected header}; oracle: tag equals the reference HMAC over the reference MAC_structure, alg header present, recomputation after any alteration yields a different tag. All non-trivial; distinct by descriptor.")
	ev.Rapid(r, "mac0", ev.N{Quick: 6000, Thorough: 200000}, genMac, evalMac)
	ev.CheckWitness(r, "sign1", evalSign)
	_ = fmt.Sprint
}
