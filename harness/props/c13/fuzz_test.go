//go:build verif

package c13

import (
	"testing"

	"verif/harness/ev"
)

// FuzzSign1 / FuzzMac0 drive the sign1 / mac0 generators from fuzz bytes (coverage-guided
// search over the same descriptor domain and oracle as the rapid sub-checks).
func FuzzSign1(f *testing.F) {
	f.Add([]byte{0})
	f.Add([]byte{1, 2, 3, 4, 5, 6, 7, 8, 9, 10, 11, 12, 13, 14, 15, 16})
	f.Fuzz(ev.Fuzz("C13", "sign1", genSign, evalSign))
}

func FuzzMac0(f *testing.F) {
	f.Add([]byte{0})
	f.Add([]byte{1, 2, 3, 4, 5, 6, 7, 8, 9, 10, 11, 12, 13, 14, 15, 16})
	f.Fuzz(ev.Fuzz("C13", "mac0", genMac, evalMac))
}
