//go:build verif

package c13

import (
	"bytes"
	"crypto/ecdsa"
	"crypto/elliptic"
	"crypto/sha256"
	"crypto/sha512"
	"fmt"
	"math/big"

	"github.com/fido-device-onboard/go-fdo/cbor"
	"github.com/fido-device-onboard/go-fdo/cose"

	"verif/harness/ev"
	"verif/harness/refcbor"
	"verif/harness/refverify"
)

// Valid ECDSA signatures with as many leading zero bytes in r and s as wanted.
// Random signatures have two leading zero bytes in a component once in 65 536 cases, so they
// are constructed: s is chosen freely, r comes from a nonce k that was searched once
// (offline) for an x-coordinate with leading zero bytes, and the private key is solved from
// s = k^-1 (z + r d) mod n for the digest z of the Sig_structure: d = (s k - z) r^-1 mod n.
// The key pair is therefore made for the message — all a verifier sees is a public key, a
// message and a signature that is valid for them.

type lzDesc struct {
	Alg      string `json:"alg"`    // ES256 | ES384
	RZeros   int    `json:"rzeros"` // 0, 1, 2: leading zero bytes of r (from the searched nonces)
	SZeros   int    `json:"szeros"` // leading zero bytes of s
	Size     int    `json:"size"`   // payload size
	Detached bool   `json:"detached"`
	Flip     bool   `json:"flip"` // negative control: one bit of s flipped afterwards
}

// nonces whose k·G has an x-coordinate with ≥1 / ≥2 leading zero bytes (found by search)
var groundNonces = map[string][3]int64{
	"ES256": {0x5eed1234, 6604446, 447304715},
	"ES384": {0x5eed1234, 3745687, 497360714},
}

func evalLeadZero(d lzDesc) ev.Result {
	curve, hashf, algID := elliptic.P256(), func(b []byte) []byte { h := sha256.Sum256(b); return h[:] }, refverify.ES256
	if d.Alg == "ES384" {
		curve, hashf, algID = elliptic.P384(), func(b []byte) []byte { h := sha512.Sum384(b); return h[:] }, refverify.ES384
	}
	n := curve.Params().N
	size := (curve.Params().BitSize + 7) / 8
	payload := bytes.Repeat([]byte{byte(0x40 + d.Size%50)}, d.Size)
	prot := refcbor.Encode(refcbor.M(refcbor.I(1), refcbor.I(int64(algID))))
	z := new(big.Int).SetBytes(hashf(refverify.SigStructure(prot, nil, payload)))
	k := big.NewInt(groundNonces[d.Alg][min(max(d.RZeros, 0), 2)])
	rx, _ := curve.ScalarBaseMult(k.Bytes())
	r := new(big.Int).Mod(rx, n)
	rb := r.FillBytes(make([]byte, size))
	rz := 0
	for rz < size && rb[rz] == 0 {
		rz++
	}
	if rz < d.RZeros || r.Sign() == 0 {
		return ev.Failf("setup", "searched nonce for %s gives r with %d leading zero bytes, wanted %d", d.Alg, rz, d.RZeros)
	}
	sz := min(max(d.SZeros, 0), size-2)
	sb := make([]byte, size)
	for i := sz; i < size; i++ {
		sb[i] = byte(0x91 + 7*i + d.Size)
	}
	if sb[sz] == 0 {
		sb[sz] = 0x80
	}
	s := new(big.Int).SetBytes(sb)
	if s.Cmp(n) >= 0 {
		sb[sz] = 0x01
		s.SetBytes(sb)
	}
	// d = (s*k - z) * r^-1 mod n
	priv := new(big.Int).Mul(s, k)
	priv.Sub(priv, z)
	priv.Mul(priv, new(big.Int).ModInverse(r, n))
	priv.Mod(priv, n)
	if priv.Sign() == 0 {
		return ev.Result{Skip: true}
	}
	qx, qy := curve.ScalarBaseMult(priv.Bytes())
	pub := &ecdsa.PublicKey{Curve: curve, X: qx, Y: qy}
	sig := append(append([]byte{}, rb...), sb...)
	if d.Flip {
		sig[len(sig)-1] ^= 1
	}
	pl := refcbor.B(payload)
	if d.Detached {
		pl = refcbor.Null()
	}
	wire := refcbor.Encode(refcbor.Tg(18, refcbor.A(refcbor.B(prot), refcbor.M(), pl, refcbor.B(sig))))
	tag := fmt.Sprintf("%s r has %d leading zero bytes, s has %d, payload %d bytes, detached=%v", d.Alg, rz, sz, d.Size, d.Detached)
	// the construction itself: the independent reference accepts it (and rejects the flipped one)
	ref, err := refverify.ParseSign1(wire)
	if err != nil {
		return ev.Failf("setup", "%s: %v", tag, err)
	}
	var det []byte
	if d.Detached {
		det = payload
	}
	refOK, why := refverify.VerifySign1(ref, pub, det, nil)
	if refOK == d.Flip {
		return ev.Failf("setup", "%s: reference verifier says %v (%s) for flip=%v", tag, refOK, why, d.Flip)
	}
	var s1 cose.Sign1Tag[[]byte, []byte]
	if err := cbor.Unmarshal(wire, &s1); err != nil {
		return ev.Failf("leadzero-decode", "%s: the signed object does not decode: %v", tag, err)
	}
	var detP *[]byte
	if d.Detached {
		detP = &payload
	}
	var ok bool
	var verr error
	if pk, pm, fine := ev.Guard(func() { ok, verr = s1.Untag().Verify(pub, detP, nil) }); !fine {
		return ev.Failf(pk, "%s: Verify panicked: %s", tag, pm)
	}
	if d.Flip {
		if ok {
			return ev.Failf("forgery-accepted:leadzero-flip", "%s: signature with one bit of s flipped verified", tag)
		}
		return ev.OK("leadzero/negative")
	}
	if !ok || verr != nil {
		return ev.Failf("genuine-rejected:leading-zeros", "%s: a valid signature (accepted by the reference) did not verify: ok=%v err=%v", tag, ok, verr)
	}
	res := ev.OK(fmt.Sprintf("leadzero/%s/r%d/s%d", d.Alg, min(rz, 2), min(sz, 3)))
	res.NonTrivial = rz > 0 || sz > 0
	return res
}
