//go:build verif

// C01 — a device completes TO2 only with the owner its voucher chain designates.
package c01

import (
	"bytes"
	"context"
	"crypto"
	"crypto/x509"
	"fmt"
	"os"
	"strings"
	"testing"
	"time"

	fdo "github.com/fido-device-onboard/go-fdo"
	"github.com/fido-device-onboard/go-fdo/cbor"
	"github.com/fido-device-onboard/go-fdo/cose"
	"github.com/fido-device-onboard/go-fdo/protocol"
	"github.com/fido-device-onboard/go-fdo/serviceinfo"
	"pgregory.net/rapid"

	"verif/harness/deploy"
	"verif/harness/ev"
	"verif/harness/keys"
	"verif/harness/refcbor"
	"verif/harness/refverify"
	"verif/harness/wire"
)

type attack struct {
	Kind      string           `json:"kind"` // none mutate resign61 resign-entry foreign-device foreign-mfg entries to1d stale transport
	Msg       int              `json:"msg,omitempty"`
	Entry     int              `json:"entry,omitempty"`
	Mut       refcbor.Mutation `json:"mut,omitempty"`
	Signer    string           `json:"signer,omitempty"` // stranger mfg earlier device otherkind owner
	Swap      bool             `json:"swap,omitempty"`   // advertise the signer's key as CUPHOwnerPubKey
	Tail      int              `json:"tail,omitempty"`   // takeover: entries appended by the attacker
	EntriesOp string           `json:"entries_op,omitempty"`
	To1dOp    string           `json:"to1d_op,omitempty"`
	Transport string           `json:"transport,omitempty"`
	Resigned  bool             `json:"resigned,omitempty"` // foreign material re-signed by the genuine owner
}

type caseDesc struct {
	Cfg    deploy.Config `json:"config"`
	Chain  int           `json:"chain"` // number of voucher entries (1..3)
	To1d   bool          `json:"to1d"`
	Reuse  bool          `json:"reuse"`
	Attack attack        `json:"attack"`
}

func ownersFor(n int) []int {
	switch n {
	case 1:
		return []int{deploy.KeyOwner1}
	case 2:
		return []int{deploy.KeyOwner2, deploy.KeyOwner1}
	}
	return []int{deploy.KeyOwner2, deploy.KeyMfg, deploy.KeyOwner1}
}

type world struct {
	cfg            deploy.Config
	mfg, owner, rv *deploy.Service
	dev            *deploy.Device
	probe          *deploy.RecDeviceModule
	to1d           *cose.Sign1[protocol.To1d, []byte]
	voucher        *fdo.Voucher
}

// extendChain extends ov from the manufacturer key through the given owners.
func extendChain(cfg deploy.Config, ov *fdo.Voucher, owners []int) (*fdo.Voucher, error) {
	signer := deploy.KeyMfg
	cur := ov
	for _, o := range owners {
		next, err := deploy.Extend(cur, keys.Get(cfg.Kind(), signer), deploy.OwnerPublic(cfg, o), nil)
		if err != nil {
			return nil, err
		}
		cur, signer = next, o
	}
	return cur, nil
}

func ownerModules(j *deploy.Journal) deploy.ModuleFactory {
	return func(ctx context.Context) []deploy.NamedModule {
		tr, _ := cbor.Marshal(true)
		msg, _ := cbor.Marshal("secret-service-info")
		return []deploy.NamedModule{{Name: "probe", Mod: &deploy.ScriptOwnerModule{ModName: "probe", J: j, Steps: []deploy.OwnerStep{
			{Send: []deploy.KVMsg{{Name: "active", Body: tr}}},
			{Send: []deploy.KVMsg{{Name: "hello", Body: msg}}, Done: true},
		}}}}
	}
}

func newWorld(ctx context.Context, d caseDesc, devIdx int) (*world, error) {
	w := &world{cfg: d.Cfg}
	w.mfg, w.owner, w.rv = deploy.NewMemService("mfg", deploy.KeyMfg), deploy.NewMemService("owner", deploy.KeyOwner1), deploy.NewMemService("rv", deploy.KeyStranger)
	w.owner.Reuse = d.Reuse
	w.owner.Modules.Factory = ownerModules(w.owner.J)
	w.dev = deploy.NewDevice(d.Cfg, devIdx)
	w.dev.Reuse = d.Reuse
	w.probe = &deploy.RecDeviceModule{}
	w.dev.Modules = map[string]serviceinfo.DeviceModule{"probe": w.probe}
	if err := w.dev.DI(ctx, deploy.NewLink(w.mfg)); err != nil {
		return nil, fmt.Errorf("DI: %w", err)
	}
	base, err := w.mfg.State.RemoveVoucher(ctx, w.dev.Cred.GUID)
	if err != nil {
		return nil, err
	}
	if w.voucher, err = extendChain(d.Cfg, base, ownersFor(d.Chain)); err != nil {
		return nil, fmt.Errorf("extend: %w", err)
	}
	if err := w.owner.State.AddVoucher(ctx, w.voucher); err != nil {
		return nil, err
	}
	if d.To1d {
		if _, err := deploy.RegisterTO0(ctx, w.owner, deploy.NewLink(w.rv), w.dev.Cred.GUID, deploy.DefaultAddrs(), 3600); err != nil {
			return nil, fmt.Errorf("TO0: %w", err)
		}
		if w.to1d, err = w.dev.TO1(ctx, deploy.NewLink(w.rv)); err != nil {
			return nil, fmt.Errorf("TO1: %w", err)
		}
	}
	return w, nil
}

func attackKey(cfg deploy.Config, w *world, chain int, who string) (crypto.Signer, string) {
	kind := cfg.Kind()
	switch who {
	case "stranger":
		return keys.Get(kind, deploy.KeyStranger), kind
	case "mfg":
		return keys.Get(kind, deploy.KeyMfg), kind
	case "earlier":
		return keys.Get(kind, deploy.KeyOwner2), kind
	case "device":
		return w.dev.Key, kind
	case "otherkind":
		other := "ec384"
		if kind == "ec384" {
			other = "ec256"
		}
		return keys.Get(other, deploy.KeyOwner1), other
	default:
		return keys.Get(kind, deploy.KeyOwner1), kind
	}
}

func pubNode(cfg deploy.Config, key crypto.Signer, kind string, idx int) *refcbor.Node {
	typ, _ := cfg.KeyType()
	t := int64(typ)
	if kind != cfg.Kind() {
		t = wire.KeyTypeFor(key.Public(), false, false)
	}
	enc := int64(cfg.KeyEncoding())
	var n *refcbor.Node
	var err error
	if enc == 2 {
		n, err = wire.PublicKeyNode(t, 2, key.Public(), keys.SelfSigned(key, "forged"))
	} else {
		if enc == 3 && keys.IsRSA(kind) {
			enc = 1
		}
		n, err = wire.PublicKeyNode(t, enc, key.Public(), nil)
	}
	if err != nil {
		panic(err)
	}
	return n
}

// forge61 rebuilds ProveOVHdr from the genuine one with replaced parts, signed by signer.
type forge struct {
	header   []byte
	hmacItem []byte
	num      *uint64
	nonce    []byte
	hello    *refcbor.Node
	signer   crypto.Signer
	pss      bool
	advKey   *refcbor.Node
}

func forge61(p *wire.ProveOVHdr, f forge) []byte {
	pl := refcbor.Clone(p.Payload)
	if f.header != nil {
		pl.Items[0] = refcbor.B(f.header)
	}
	if f.num != nil {
		pl.Items[1] = refcbor.U(*f.num)
	}
	if f.hmacItem != nil {
		hm, _ := refcbor.ParseAll(f.hmacItem)
		pl.Items[2] = hm
	}
	if f.nonce != nil {
		pl.Items[3] = refcbor.B(f.nonce)
	}
	if f.hello != nil {
		pl.Items[6] = f.hello
	}
	unprot := refcbor.Clone(p.S1.Unprotected)
	if f.advKey != nil {
		if n := refverify.MapGet(unprot, 257); n != nil {
			*n = *f.advKey
		}
	}
	s1, err := wire.Sign1(f.signer, wire.AlgFor(f.signer.Public(), f.pss), nil, unprot, refcbor.EncodeKeepOrder(pl), true)
	if err != nil {
		panic(err)
	}
	return refcbor.EncodeKeepOrder(s1)
}

func entryItems(ov *fdo.Voucher) [][]byte {
	var out [][]byte
	for i := range ov.Entries {
		b, err := cbor.Marshal(&ov.Entries[i])
		if err != nil {
			panic(err)
		}
		out = append(out, b)
	}
	return out
}

func evalCase(d caseDesc) ev.Result {
	ctx, cancel := context.WithTimeout(context.Background(), 30*time.Second)
	defer cancel()
	w, err := newWorld(ctx, d, deploy.KeyDevice)
	if err != nil {
		return ev.Failf("setup", "%+v: %v", d, err)
	}
	a := d.Attack
	pss := d.Cfg.PSS()
	link := deploy.NewLink(w.owner)
	var to1dArg = w.to1d
	var to1dBytes []byte
	if w.to1d != nil {
		to1dBytes, _ = cbor.Marshal(w.to1d)
	}
	delivered := false // the attack changed something that reached the device
	var origBody, newBody []byte
	mutPath := ""
	serveEntries := entryItems(w.voucher) // what the MITM serves for 63 (nil = pass through)
	customEntries := false
	numbering := func(i int64) int64 { return i }

	// material from other sessions / devices, prepared up front
	var foreign *world
	var stale61 []byte
	var staleHelloNonce []byte
	switch a.Kind {
	case "foreign-device", "foreign-last-entry":
		fd := d
		if foreign, err = newWorld(ctx, fd, deploy.KeyDevice2); err != nil {
			return ev.Failf("setup", "foreign world: %v", err)
		}
	case "stale":
		// run an earlier honest session of the same device and record its 61
		l0 := deploy.NewLink(w.owner)
		l0.OnResponse = func(ex *deploy.Exchange) *deploy.Action {
			if ex.RespType == 61 {
				stale61 = ex.RespBody
				if h, err := wire.ParseHelloDevice(ex.ReqBody); err == nil {
					staleHelloNonce = h.Nonce
				}
				return &deploy.Action{DropErr: deploy.ErrDropped}
			}
			return nil
		}
		_, _ = fdo.TO2(ctx, l0.Transport(), w.to1d, w.dev.TO2Config())
		if stale61 == nil {
			return ev.Failf("setup", "could not record a stale ProveOVHdr")
		}
	}

	if a.Kind == "engine-fault" {
		// The device's HMAC objects behave like a hardware engine whose a.Entry-th computation fails
		// (no digest, error reported through Err() until Reset). With a.Swap the owner additionally
		// presents a voucher whose header HMAC value is EMPTY and whose entries were re-made over that
		// header+HMAC with the real manufacturer and owner keys (a colluding manufacturer): only the
		// HMAC under the device secret distinguishes it.
		fa := a.Entry % 4
		w.dev.HmacFailAt = &fa
		delivered = true
		if a.Swap {
			base, err := w.owner.State.RemoveVoucher(ctx, w.dev.Cred.GUID)
			if err != nil {
				return ev.Failf("setup", "engine-fault: %v", err)
			}
			base.Entries = nil
			base.Hmac.Value = []byte{}
			forged, err := extendChain(d.Cfg, base, ownersFor(d.Chain))
			if err != nil {
				return ev.Failf("setup", "engine-fault: re-extending over an empty HMAC: %v", err)
			}
			if err := w.owner.State.AddVoucher(ctx, forged); err != nil {
				return ev.Failf("setup", "engine-fault: %v", err)
			}
			w.voucher = forged
			serveEntries = entryItems(forged)
		}
	}
	link.OnResponse = func(ex *deploy.Exchange) *deploy.Action {
		switch {
		case ex.RespType == 61 && ex.ReqType == 60:
			p, perr := wire.ParseProveOVHdr(ex.RespBody)
			if perr != nil {
				return nil
			}
			hello, _ := wire.ParseHelloDevice(ex.ReqBody)
			switch a.Kind {
			case "mutate":
				if a.Msg != 61 {
					return nil
				}
				tree, _ := refcbor.ParseAll(ex.RespBody)
				refcbor.ExpandBstr(tree)
				mt, mp, ok := refcbor.Apply(tree, a.Mut)
				if !ok {
					return nil
				}
				mutPath = mp
				origBody, newBody = ex.RespBody, refcbor.EncodeKeepOrder(mt)
				delivered = !bytes.Equal(origBody, newBody)
				return &deploy.Action{Body: newBody}
			case "resign61":
				k, kind := attackKey(d.Cfg, w, d.Chain, a.Signer)
				f := forge{signer: k, pss: pss && keys.IsRSA(kind)}
				if a.Swap {
					f.advKey = pubNode(d.Cfg, k, kind, 0)
					if d.Cfg.Enc == "x5chain" && kind == d.Cfg.Kind() && a.Entry%2 == 1 {
						// the advertised X5CHAIN starts with the signer's certificate and goes on with the
						// genuine owner's chain: the key of a chain is its first certificate's only
						typ, _ := d.Cfg.KeyType()
						chain := append(append([]*x509.Certificate{}, keys.SelfSigned(k, "forged")...), deploy.ChainFor(kind, deploy.KeyOwner1)...)
						if n, err := wire.PublicKeyNode(int64(typ), 2, k.Public(), chain); err == nil {
							f.advKey = n
						}
					}
				}
				delivered = a.Signer != "owner"
				return &deploy.Action{Body: forge61(p, f)}
			case "foreign-device":
				// present the other device's voucher; optionally re-signed by the genuine owner
				// over this session's nonce and HelloDevice hash
				fv, _ := cbor.Marshal(foreign.voucher)
				rv, _ := refverify.ParseVoucher(fv)
				serveEntries, customEntries = entryItems(foreign.voucher), true
				delivered = true
				n := uint64(len(serveEntries))
				if !a.Resigned {
					// take the foreign ProveOVHdr verbatim from a session of the other device
					var f61 []byte
					lf := deploy.NewLink(foreign.owner)
					lf.OnResponse = func(e2 *deploy.Exchange) *deploy.Action {
						if e2.RespType == 61 {
							f61 = e2.RespBody
							return &deploy.Action{DropErr: deploy.ErrDropped}
						}
						return nil
					}
					_, _ = fdo.TO2(ctx, lf.Transport(), nil, foreign.dev.TO2Config())
					if f61 != nil {
						return &deploy.Action{Body: f61}
					}
				}
				k, _ := attackKey(d.Cfg, w, d.Chain, "owner")
				return &deploy.Action{Body: forge61(p, forge{header: rv.HeaderBytes, hmacItem: rv.HmacItem, num: &n, signer: k, pss: pss})}
			case "foreign-mfg":
				// same device secret, voucher rooted in another manufacturer key (oracle-assisted HMAC)
				hdr := refcbor.Clone(func() *refcbor.Node { n, _ := refcbor.ParseAll(p.HeaderBytes); return n }())
				sk, skind := attackKey(d.Cfg, w, d.Chain, "stranger")
				hdr.Items[4] = pubNode(d.Cfg, sk, skind, 0)
				hb := refcbor.EncodeKeepOrder(hdr)
				var ovh fdo.VoucherHeader
				if err := cbor.Unmarshal(hb, &ovh); err != nil {
					return nil
				}
				h256, h384 := w.dev.Hmacs()
				hm := h256
				if w.voucher.Hmac.Algorithm == protocol.HmacSha384Hash {
					hm = h384
				}
				hm.Write(hb)
				fov := &fdo.Voucher{Version: 101, Header: *cbor.NewBstr(ovh), Hmac: protocol.Hmac{Algorithm: w.voucher.Hmac.Algorithm, Value: hm.Sum(nil)}, CertChain: w.voucher.CertChain}
				// extend stranger(as manufacturer) -> owner1
				x, err := deploy.Extend(fov, sk, deploy.OwnerPublic(d.Cfg, deploy.KeyOwner1), nil)
				if err != nil {
					return nil
				}
				serveEntries, customEntries = entryItems(x), true
				delivered = true
				hmItem, _ := cbor.Marshal(fov.Hmac)
				n := uint64(1)
				k, _ := attackKey(d.Cfg, w, d.Chain, "owner")
				return &deploy.Action{Body: forge61(p, forge{header: hb, hmacItem: hmItem, num: &n, signer: k, pss: pss})}
			case "entries":
				k, _ := attackKey(d.Cfg, w, d.Chain, "owner")
				genuine := entryItems(w.voucher)
				var n uint64
				switch a.EntriesOp {
				case "truncate":
					serveEntries = genuine[:len(genuine)-1]
				case "extend":
					serveEntries = append(append([][]byte{}, genuine...), genuine[len(genuine)-1])
				case "swap":
					if len(genuine) < 2 {
						return nil
					}
					serveEntries = append([][]byte{}, genuine...)
					i := a.Entry % (len(genuine) - 1)
					serveEntries[i], serveEntries[i+1] = serveEntries[i+1], serveEntries[i]
				case "misnumber":
					numbering = func(i int64) int64 { return i + 1 }
					delivered, customEntries = true, true
					return nil
				case "count+1":
					n = uint64(len(genuine) + 1)
					delivered = true
					return &deploy.Action{Body: forge61(p, forge{num: &n, signer: k, pss: pss})}
				case "count-1":
					n = uint64(len(genuine) - 1)
					delivered = true
					return &deploy.Action{Body: forge61(p, forge{num: &n, signer: k, pss: pss})}
				default:
					return nil
				}
				customEntries, delivered = true, true
				n = uint64(len(serveEntries))
				return &deploy.Action{Body: forge61(p, forge{num: &n, signer: k, pss: pss})}
			case "resign-entry":
				// the stranger takes over the last link: last entry names the stranger and is signed by it,
				// ProveOVHdr is signed by the stranger and advertises its key
				sk, skind := attackKey(d.Cfg, w, d.Chain, a.Signer)
				genuine := entryItems(w.voucher)
				last, _ := refverify.ParseEntry(genuine[len(genuine)-1])
				pl, _ := refcbor.ParseAll(last.Sign1.Payload)
				pl = refcbor.Clone(pl)
				if a.Swap {
					pl.Items[3] = pubNode(d.Cfg, sk, skind, 0)
				}
				e, err := wire.Sign1(sk, wire.AlgFor(sk.Public(), pss && keys.IsRSA(skind)), nil, nil, refcbor.EncodeKeepOrder(pl), true)
				if err != nil {
					return nil
				}
				serveEntries = append(append([][]byte{}, genuine[:len(genuine)-1]...), refcbor.EncodeKeepOrder(e))
				customEntries, delivered = true, true
				f := forge{signer: sk, pss: pss && keys.IsRSA(skind), advKey: pubNode(d.Cfg, sk, skind, 0)}
				if !a.Swap {
					// entry re-signed only; ProveOVHdr stays genuine
					return nil
				}
				return &deploy.Action{Body: forge61(p, f)}
			case "takeover":
				// entry a.Entry keeps its genuine hashes but names the stranger's key and is signed by a.Signer's key
				// (anybody but the key entry-1 names); a.Tail further entries are honestly built by the stranger;
				// ProveOVHdr is signed by the stranger, advertises its key and announces the forged entry count
				var sb crypto.Signer
				sbAlg := int64(0)
				if a.Signer != "keep-sig" {
					var sbkind string
					sb, sbkind = attackKey(d.Cfg, w, d.Chain, a.Signer)
					sbAlg = wire.AlgFor(sb.Public(), pss && keys.IsRSA(sbkind))
				}
				atk, akind := attackKey(d.Cfg, w, d.Chain, "stranger")
				genuine := entryItems(w.voucher)
				forged, err := wire.TakeOver(genuine, a.Entry%len(genuine), pubNode(d.Cfg, atk, akind, 0), sb, sbAlg, atk, wire.AlgFor(atk.Public(), pss && keys.IsRSA(akind)), a.Tail)
				if err != nil {
					return nil
				}
				serveEntries, customEntries, delivered = forged, true, true
				n := uint64(len(forged))
				return &deploy.Action{Body: forge61(p, forge{num: &n, signer: atk, pss: pss && keys.IsRSA(akind), advKey: pubNode(d.Cfg, atk, akind, 0)})}
			case "zero-entries":
				// genuine header and HMAC, no entries, signed by (and advertising) a key the attacker holds
				sk, skind := attackKey(d.Cfg, w, d.Chain, a.Signer)
				serveEntries, customEntries, delivered = nil, true, true
				n := uint64(0)
				return &deploy.Action{Body: forge61(p, forge{num: &n, signer: sk, pss: pss && keys.IsRSA(skind), advKey: pubNode(d.Cfg, sk, skind, 0)})}
			case "foreign-last-entry":
				// the last entry comes from another device's voucher (same previous owner, same new owner)
				genuine, other := entryItems(w.voucher), entryItems(foreign.voucher)
				serveEntries = append(append([][]byte{}, genuine[:len(genuine)-1]...), other[len(other)-1])
				customEntries, delivered = true, true
				return nil
			case "stale":
				delivered = true
				return &deploy.Action{Body: stale61}
			case "transport":
				delivered = true
				switch a.Transport {
				case "wrongtype":
					t := uint8(63)
					return &deploy.Action{MsgType: &t}
				case "error255":
					em, _ := cbor.Marshal(protocol.ErrorMessage{Code: 500, PrevMsgType: 60, ErrString: "injected"})
					t := uint8(255)
					return &deploy.Action{Body: em, MsgType: &t, Status: 500}
				default:
					return &deploy.Action{DropErr: deploy.ErrDropped}
				}
			}
			_ = hello
		case ex.RespType == 63 && ex.ReqType == 62:
			req, err := refcbor.ParseAll(ex.ReqBody)
			if err != nil || req.Kind != refcbor.Array || len(req.Items) != 1 {
				return nil
			}
			idx, _ := refverify.NodeInt(req.Items[0])
			if a.Kind == "mutate" && a.Msg == 63 && int(idx) == a.Entry%max(1, d.Chain) {
				tree, _ := refcbor.ParseAll(ex.RespBody)
				refcbor.ExpandBstr(tree)
				mt, mp, ok := refcbor.Apply(tree, a.Mut)
				if !ok {
					return nil
				}
				mutPath = mp
				origBody, newBody = ex.RespBody, refcbor.EncodeKeepOrder(mt)
				delivered = !bytes.Equal(origBody, newBody)
				return &deploy.Action{Body: newBody}
			}
			if customEntries && idx >= 0 && int(idx) < len(serveEntries) {
				e, _ := refcbor.ParseAll(serveEntries[idx])
				return &deploy.Action{Body: refcbor.EncodeKeepOrder(refcbor.A(refcbor.I(numbering(idx)), e))}
			}
		case ex.ReqType == 62 && customEntries:
			// the genuine server has no such entry: synthesise the response
			req, err := refcbor.ParseAll(ex.ReqBody)
			if err != nil || len(req.Items) != 1 {
				return nil
			}
			idx, _ := refverify.NodeInt(req.Items[0])
			if idx >= 0 && int(idx) < len(serveEntries) {
				e, _ := refcbor.ParseAll(serveEntries[idx])
				t := uint8(63)
				return &deploy.Action{Body: refcbor.EncodeKeepOrder(refcbor.A(refcbor.I(numbering(idx)), e)), MsgType: &t, Status: 200}
			}
		}
		return nil
	}

	// to1d attacks are applied to the argument handed to TO2
	if a.Kind == "to1d" {
		if w.to1d == nil {
			return ev.Trivial("to1d-attack-without-to1d")
		}
		tree, _ := refcbor.ParseAll(to1dBytes)
		switch a.To1dOp {
		case "mutate":
			refcbor.ExpandBstr(tree)
			mt, _, ok := refcbor.Apply(tree, a.Mut)
			if !ok {
				return ev.Trivial("mutation-not-applicable")
			}
			origBody, newBody = to1dBytes, refcbor.EncodeKeepOrder(mt)
		case "resign-stranger":
			s1, _ := refverify.Sign1FromNode(tree)
			sk, skind := attackKey(d.Cfg, w, d.Chain, "stranger")
			n, err := wire.Sign1(sk, wire.AlgFor(sk.Public(), pss && keys.IsRSA(skind)), nil, nil, s1.Payload, false)
			if err != nil {
				return ev.Result{Skip: true}
			}
			origBody, newBody = to1dBytes, refcbor.EncodeKeepOrder(n)
		case "resign-earlier":
			s1, _ := refverify.Sign1FromNode(tree)
			sk, skind := attackKey(d.Cfg, w, d.Chain, "earlier")
			n, err := wire.Sign1(sk, wire.AlgFor(sk.Public(), pss && keys.IsRSA(skind)), nil, nil, s1.Payload, false)
			if err != nil {
				return ev.Result{Skip: true}
			}
			origBody, newBody = to1dBytes, refcbor.EncodeKeepOrder(n)
		default:
			return ev.Result{Skip: true}
		}
		var t cose.Sign1[protocol.To1d, []byte]
		if err := cbor.Unmarshal(newBody, &t); err != nil {
			return ev.Trivial("to1d-undecodable")
		}
		to1dArg = &t
		to1dBytes, _ = cbor.Marshal(&t) // what the device was actually handed
		delivered = !bytes.Equal(origBody, newBody)
	}

	cred, terr := fdo.TO2(ctx, link.Transport(), to1dArg, w.dev.TO2Config())

	// ---- what was presented -----------------------------------------------
	pres := &wire.Presented{}
	sent64 := false
	for _, ex := range link.Exchanges() {
		switch ex.ReqType {
		case 60:
			pres.Hello, _ = wire.ParseHelloDevice(ex.ReqBody)
			if ex.Delivered != nil && ex.Dropped == "" {
				typ := ex.RespType
				if a.Kind == "transport" && a.Transport != "drop" {
					typ = 0
				}
				if typ == 61 {
					pres.Prove, _ = wire.ParseProveOVHdr(ex.Delivered)
				}
			}
		case 62:
			if n, err := refcbor.ParseAll(ex.ReqBody); err == nil && len(n.Items) == 1 {
				idx, _ := refverify.NodeInt(n.Items[0])
				if resp, err := refcbor.ParseAll(ex.Delivered); err == nil && resp.Kind == refcbor.Array && len(resp.Items) == 2 {
					num, ok := refverify.NodeInt(resp.Items[0])
					if !ok {
						num = -1
					}
					pres.Requested = append(pres.Requested, idx)
					pres.EntryNums = append(pres.EntryNums, num)
					pres.EntryItems = append(pres.EntryItems, ex.Delivered[resp.Items[1].Off:resp.Items[1].End])
				} else {
					pres.Requested = append(pres.Requested, idx)
					pres.EntryNums = append(pres.EntryNums, -1)
					pres.EntryItems = append(pres.EntryItems, nil)
				}
			}
		case 64:
			sent64 = true
		}
	}
	// freshness: the nonce a device puts into HelloDevice must differ from the one it used in its
	// previous session (the proof of possession is only worth something over a fresh nonce)
	if staleHelloNonce != nil && pres.Hello != nil && bytes.Equal(staleHelloNonce, pres.Hello.Nonce) {
		return ev.Failf("nonce-not-fresh", "%s/%s: the device sent the same HelloDevice nonce %x in two consecutive TO2 sessions", d.Cfg.Key, d.Cfg.Enc, pres.Hello.Nonce)
	}
	refOK, refWhy := pres.Accept(w.dev.Secret, int64(w.dev.Cred.PublicKeyHash.Algorithm), w.dev.Cred.PublicKeyHash.Value, to1dBytes)
	success := terr == nil
	moduleCalls := len(w.probe.Snapshot())
	cls := a.Kind
	switch a.Kind {
	case "mutate":
		op := a.Mut.Op
		if i := strings.Index(mutPath, "#"); i >= 0 {
			op = mutPath[i+1:]
		}
		cls = fmt.Sprintf("mutate%d/%s", a.Msg, op)
	case "resign61", "resign-entry":
		cls = fmt.Sprintf("%s/%s/swap=%v", a.Kind, a.Signer, a.Swap)
	case "entries":
		cls = "entries/" + a.EntriesOp
	case "to1d":
		cls = "to1d/" + a.To1dOp
	case "transport":
		cls = "transport/" + a.Transport
	case "foreign-device":
		cls = fmt.Sprintf("foreign-device/resigned=%v", a.Resigned)
	case "zero-entries":
		cls = "zero-entries/" + a.Signer
	case "takeover":
		cls = fmt.Sprintf("takeover/%s/%s", a.Signer, posClass(a.Entry%max(d.Chain, 1), d.Chain))
	case "engine-fault":
		cls = fmt.Sprintf("engine-fault/sum%d/empty-hmac=%v", a.Entry%4, a.Swap)
	}
	tag := fmt.Sprintf("%s/%s chain=%d to1d=%v reuse=%v", d.Cfg.Key, d.Cfg.Enc, d.Chain, d.To1d, d.Reuse)

	if a.Kind == "none" {
		if !refOK {
			return ev.Failf("ref-rejects-honest", "%s: reference rejects the honest owner's presentation: %s", tag, refWhy)
		}
		if !success {
			return ev.Failf("honest-run-failed", "%s: honest TO2 failed: %v", tag, terr)
		}
		if d.Reuse != (cred == nil) {
			return ev.Failf("reuse-outcome", "%s: reuse=%v but credential returned=%v", tag, d.Reuse, cred != nil)
		}
		if moduleCalls == 0 {
			return ev.Failf("module-not-run", "%s: honest TO2 did not hand service info to the device module", tag)
		}
		return ev.Trivial("positive-control")
	}
	if refOK {
		// the peer satisfied every listed condition: either outcome is allowed
		return ev.Trivial("presentation-still-valid/" + cls)
	}
	if !delivered {
		return ev.Trivial("attack-not-applicable/" + cls)
	}
	bad := ""
	switch {
	case success:
		bad = "to2-succeeded"
	case cred != nil:
		bad = "credential-returned"
	case moduleCalls > 0:
		bad = "module-invoked"
	case sent64:
		bad = "prove-device-sent"
	}
	if bad != "" {
		// leniently equivalent encodings are not forgeries (the library authenticates decoded values)
		if origBody != nil && newBody != nil {
			o, e1 := refcbor.ParseAll(origBody)
			n, e2 := refcbor.ParseAll(newBody)
			if e1 == nil && e2 == nil && refcbor.LenientEqual(o, n) {
				return ev.Trivial("equivalent-encoding/" + cls)
			}
		}
		return ev.Failf(bad+":"+strings.SplitN(cls, "/", 2)[0], "%s attack %+v: device outcome err=%v cred=%v moduleCalls=%d sent64=%v although: %s (mutated path %q)", tag, a, terr, cred != nil, moduleCalls, sent64, refWhy, mutPath)
	}
	if os.Getenv("VERIF_DEBUG") != "" {
		fmt.Fprintf(os.Stderr, "DEBUG %s: path=%q device error: %v; reference: %s; exchanges=%v\n", cls, mutPath, terr, refWhy, link.SentTypes())
	}
	r := ev.OK("rejected/" + cls)
	r.ID = fmt.Sprintf("%s|%d|%v|%v|%+v", d.Cfg.Key+d.Cfg.Enc, d.Chain, d.To1d, d.Reuse, a)
	return r
}

// ---- generator ---------------------------------------------------------------

var configs = func() []deploy.Config {
	var out []deploy.Config
	for _, k := range deploy.KeyNames {
		for _, e := range deploy.EncNames {
			if e == "cose" && strings.HasPrefix(k, "RSA") {
				continue
			}
			out = append(out, deploy.Config{Key: k, Enc: e, Kex: deploy.DefaultKex(k), Cipher: "A128GCM"})
		}
	}
	return out
}()

func genAttack(t *rapid.T, chain int) attack {
	kind := rapid.SampledFrom([]string{"mutate", "mutate", "mutate", "resign61", "resign-entry", "foreign-device", "foreign-mfg", "foreign-last-entry", "zero-entries", "entries", "to1d", "stale", "transport", "takeover", "engine-fault"}).Draw(t, "kind")
	a := attack{Kind: kind}
	switch kind {
	case "mutate":
		a.Msg = rapid.SampledFrom([]int{61, 61, 63}).Draw(t, "msg")
		a.Entry = rapid.IntRange(0, 2).Draw(t, "entry")
		a.Mut = refcbor.Mutation{Node: rapid.IntRange(0, 200).Draw(t, "node"), Op: "auto", Arg: int64(rapid.IntRange(-4000, 4000).Draw(t, "arg"))}
	case "resign61":
		a.Signer = rapid.SampledFrom([]string{"stranger", "mfg", "earlier", "device", "otherkind"}).Draw(t, "signer")
		a.Swap = rapid.Bool().Draw(t, "swap")
		a.Entry = rapid.IntRange(0, 1).Draw(t, "smuggle-owner-chain")
	case "resign-entry":
		a.Signer = rapid.SampledFrom([]string{"stranger", "earlier", "device"}).Draw(t, "signer")
		a.Swap = rapid.Bool().Draw(t, "swap")
	case "foreign-device":
		a.Resigned = rapid.Bool().Draw(t, "resigned")
	case "engine-fault":
		a.Entry = rapid.IntRange(0, 3).Draw(t, "failat")
		a.Swap = rapid.IntRange(0, 2).Draw(t, "emptyhmac") > 0
	case "takeover":
		a.Entry = rapid.IntRange(0, chain-1).Draw(t, "entry")
		a.Tail = rapid.IntRange(0, 2).Draw(t, "tail")
		a.Signer = rapid.SampledFrom([]string{"stranger", "stranger", "keep-sig", "earlier", "device", "mfg", "owner"}).Draw(t, "signer")
	case "zero-entries":
		a.Signer = rapid.SampledFrom([]string{"stranger", "earlier", "device", "owner"}).Draw(t, "signer")
	case "entries":
		a.EntriesOp = rapid.SampledFrom([]string{"truncate", "extend", "swap", "misnumber", "count+1", "count-1"}).Draw(t, "eop")
		a.Entry = rapid.IntRange(0, 2).Draw(t, "entry")
	case "to1d":
		a.To1dOp = rapid.SampledFrom([]string{"mutate", "mutate", "resign-stranger", "resign-earlier"}).Draw(t, "top")
		a.Mut = refcbor.Mutation{Node: rapid.IntRange(0, 60).Draw(t, "node"), Op: "auto", Arg: int64(rapid.IntRange(-4000, 4000).Draw(t, "arg"))}
	case "transport":
		a.Transport = rapid.SampledFrom([]string{"wrongtype", "error255", "drop"}).Draw(t, "tr")
	}
	return a
}

func posClass(p, n int) string {
	switch {
	case n == 1:
		return "only-entry"
	case p == 0:
		return "first-entry"
	case p == n-1:
		return "last-entry"
	}
	return "middle-entry"
}

func genCase(t *rapid.T) caseDesc {
	d := caseDesc{Cfg: rapid.SampledFrom(configs).Draw(t, "cfg"), Chain: rapid.IntRange(1, 3).Draw(t, "chain"), To1d: rapid.Bool().Draw(t, "to1d"), Reuse: rapid.IntRange(0, 3).Draw(t, "reuse") == 0}
	d.Attack = genAttack(t, d.Chain)
	if d.Attack.Kind == "to1d" {
		d.To1d = true
	}
	if d.Attack.Kind == "takeover" || d.Attack.Kind == "engine-fault" {
		d.To1d = false // the genuine owner's to1d would be refused for its own reason
	}
	return d
}

func TestC01(t *testing.T) {
	r := ev.Start(t, "C01")
	defer r.Finish()

	r.SetRule("controls", "exhaustive: 14 key-type/encoding configurations × chain length 1..3 × {to1d, RV bypass} × {replace, reuse}: the honest run must succeed, return (cred|nil,nil) as configured, hand service info to the instrumented device module, and the reference must accept what the owner presented")
	ev.Enum(r, "controls", true, func(yield func(caseDesc) bool) {
		i := 0
		for _, c := range configs {
			for chain := 1; chain <= 3; chain++ {
				for _, to1d := range []bool{false, true} {
					for _, reuse := range []bool{false, true} {
						i++
						if !r.Mine(i) {
							continue
						}
						if !yield(caseDesc{Cfg: c, Chain: chain, To1d: to1d, Reuse: reuse, Attack: attack{Kind: "none"}}) {
							return
						}
					}
				}
			}
		}
	}, func(d caseDesc) ev.Result {
		res := evalCase(d)
		if res.Fail == "" {
			res.NonTrivial = true
			res.Class = "positive-control"
		}
		return res
	})

	r.SetRule("attacks", "configuration × chain 1..3 × to1d/bypass × reuse/replace × one attack applied by a man-in-the-middle to the honest owner's traffic: (a) one structure-aware mutation anywhere in ProveOVHdr (COSE headers, payload, OVHeader, HMAC, counts, nonce, xA, hash) or in an OVNextEntry; (b) ProveOVHdr re-signed by stranger / manufacturer / earlier owner / device key / key of another kind, with and without swapping the advertised owner key (for X5CHAIN also advertising [signer certificate, genuine owner chain…]); last entry re-signed (and re-pointed) by another key; (c) another device's voucher presented verbatim or re-signed by the genuine owner over this session's nonce and hash (only the header HMAC distinguishes), a voucher rooted in another manufacturer key carrying a correct HMAC computed with the device secret (only the key hash distinguishes), a ProveOVHdr replayed from an earlier session (the two sessions' HelloDevice nonces must differ); a last entry taken from another device's voucher, zero entries with a self-advertised key; (d) entries truncated / extended / swapped / mis-numbered / mis-counted; to1d mutated or re-signed; (e) wrong Message-Type, injected error, dropped response; (f) the device's HMAC objects behave like a hardware engine whose n-th computation fails (no digest, error via Err() until Reset), with an honest owner or with a colluding-manufacturer voucher whose header HMAC is empty. Oracle: an independent reference decides from the delivered bytes whether every listed condition holds; if not, TO2 must return an error and no credential, no device-module callback may happen and no type-64 request may be sent (leniently equivalent re-encodings excepted). Non-trivial: delivered attack that the reference rejects; distinct by descriptor.")
	ev.Rapid(r, "attacks", ev.N{Quick: 8000, Thorough: 200000}, genCase, evalCase)
	ev.CheckWitness(r, "attacks", evalCase)
}
