//go:build verif

// C06 — the rendezvous server registers a redirect only for the voucher's current owner.
package c06

import (
	"bytes"
	"context"
	"crypto"
	"errors"
	"fmt"
	"io"
	"net/http"
	"strconv"
	"strings"
	"testing"
	"time"

	fdo "github.com/fido-device-onboard/go-fdo"
	"github.com/fido-device-onboard/go-fdo/cbor"
	"pgregory.net/rapid"

	"verif/harness/deploy"
	"verif/harness/ev"
	"verif/harness/keys"
	"verif/harness/refcbor"
	"verif/harness/refverify"
	"verif/harness/wire"
)

type attack struct {
	Kind   string           `json:"kind"` // none mutate signer replay zero-entries other-to1d hash transport-order
	Mut    refcbor.Mutation `json:"mut,omitempty"`
	Signer string           `json:"signer,omitempty"` // owner earlier mfg device stranger otherkind
	HashOp string           `json:"hash_op,omitempty"`
	Entry  int              `json:"entry,omitempty"` // takeover: index of the forged entry
	Tail   int              `json:"tail,omitempty"`  // takeover: entries appended by the attacker
}

type caseDesc struct {
	Cfg    deploy.Config `json:"config"`
	Chain  int           `json:"chain"`  // entries 1..3 (0 for zero-entries attack)
	Policy string        `json:"policy"` // nil fixed zero error echo
	TTL    uint32        `json:"ttl"`    // requested wait seconds
	Attack attack        `json:"attack"`
	Prior  bool          `json:"prior,omitempty"`
	Addr   int           `json:"addr,omitempty"` // address list variant of the redirect (0 DNS only, 1 ip4+DNS, 2 ip6, 3 IPv4-mapped ip6 + ip4, 4 empty) // the genuine owner registered this GUID in an earlier session of the same server
}

func ownersFor(n int) []int {
	switch n {
	case 0:
		return nil
	case 1:
		return []int{deploy.KeyOwner1}
	case 2:
		return []int{deploy.KeyOwner2, deploy.KeyOwner1}
	}
	return []int{deploy.KeyOwner2, deploy.KeyMfg, deploy.KeyOwner1}
}

// send posts one message to the handler and returns type, body and token.
func send(h http.Handler, msgType int, token string, body []byte) (int, int, []byte, string, error) {
	req, _ := http.NewRequest(http.MethodPost, "http://rv.test/fdo/101/msg/"+strconv.Itoa(msgType), bytes.NewReader(body))
	req.Header.Set("Content-Type", "application/cbor")
	if token != "" {
		req.Header.Set("Authorization", "Bearer "+token)
	}
	rec, panicked := deploy.Serve(h, req)
	if panicked != "" {
		return 0, 0, nil, "", errors.New("panic: " + panicked)
	}
	resp := rec.Result()
	b, _ := io.ReadAll(resp.Body)
	typ, _ := strconv.Atoi(resp.Header.Get("Message-Type"))
	return resp.StatusCode, typ, b, strings.TrimPrefix(resp.Header.Get("Authorization"), "Bearer "), nil
}

type built struct {
	voucher *fdo.Voucher
	vbytes  []byte
	dev     *deploy.Device
}

func buildVoucher(ctx context.Context, cfg deploy.Config, chain int, devIdx int) (*built, error) {
	mfg := deploy.NewMemService("mfg", deploy.KeyMfg)
	dev := deploy.NewDevice(cfg, devIdx)
	if err := dev.DI(ctx, deploy.NewLink(mfg)); err != nil {
		return nil, err
	}
	ov, err := mfg.State.RemoveVoucher(ctx, dev.Cred.GUID)
	if err != nil {
		return nil, err
	}
	signer := deploy.KeyMfg
	for _, o := range ownersFor(chain) {
		next, err := deploy.Extend(ov, keys.Get(cfg.Kind(), signer), deploy.OwnerPublic(cfg, o), nil)
		if err != nil {
			return nil, err
		}
		ov, signer = next, o
	}
	b, err := cbor.Marshal(ov)
	if err != nil {
		return nil, err
	}
	return &built{ov, b, dev}, nil
}

func signerKey(cfg deploy.Config, b *built, who string) (crypto.Signer, bool) {
	kind := cfg.Kind()
	switch who {
	case "owner":
		cur := deploy.KeyMfg
		if n := len(b.voucher.Entries); n > 0 {
			cur = deploy.KeyOwner1
		}
		return keys.Get(kind, cur), keys.IsRSA(kind)
	case "earlier":
		return keys.Get(kind, deploy.KeyOwner2), keys.IsRSA(kind)
	case "mfg":
		return keys.Get(kind, deploy.KeyMfg), keys.IsRSA(kind)
	case "device":
		return b.dev.Key, keys.IsRSA(kind)
	case "stranger":
		return keys.Get(kind, deploy.KeyStranger), keys.IsRSA(kind)
	default:
		other := "ec384"
		if kind == "ec384" {
			other = "ec256"
		}
		return keys.Get(other, deploy.KeyOwner1), false
	}
}

// pubNode encodes key as an FDO PublicKey of the configuration's type and encoding.
func pubNode(cfg deploy.Config, key crypto.Signer) *refcbor.Node {
	typ, _ := cfg.KeyType()
	enc := int64(cfg.KeyEncoding())
	var n *refcbor.Node
	var err error
	if enc == 2 {
		n, err = wire.PublicKeyNode(int64(typ), 2, key.Public(), keys.SelfSigned(key, "forged"))
	} else {
		if enc == 3 && keys.IsRSA(cfg.Kind()) {
			enc = 1
		}
		n, err = wire.PublicKeyNode(int64(typ), enc, key.Public(), nil)
	}
	if err != nil {
		panic(err)
	}
	return n
}

// ownerSign builds TO0.OwnerSign from its parts.
// addrVariant selects the address list ownerSign puts into to1d (set per case by evalCase; cases of a
// process run one after another).
var addrVariant int

func ownerSign(cfg deploy.Config, vbytes []byte, wait uint32, nonce []byte, signer crypto.Signer, rsa bool, hashOp string) []byte {
	v, err := refcbor.ParseAll(vbytes)
	if err != nil {
		panic(err)
	}
	to0d := refcbor.EncodeKeepOrder(refcbor.A(v, refcbor.U(uint64(wait)), refcbor.B(nonce)))
	alg := int64(-16)
	if cfg.Kind() == "ec384" || cfg.Kind() == "rsa3072" {
		alg = -43
	}
	hash := wire.HashNode(alg, to0d)
	switch hashOp {
	case "other-alg":
		if alg == -16 {
			hash = wire.HashNode(-43, to0d)
		} else {
			hash = wire.HashNode(-16, to0d)
		}
	case "wrong-value":
		hash = wire.HashNode(alg, to0d, []byte{1})
	case "hmac-alg":
		hash.Items[0] = refcbor.I(5)
	}
	dns := refcbor.T("owner.test")
	// the owner's address list as a conforming encoder of another implementation may write it
	// (RVTO2AddrEntry = [RVIP / null, RVDNS / null, port, protocol]; ip4 = bstr .size 4, ip6 = bstr .size 16)
	addrs := refcbor.A(refcbor.A(refcbor.Null(), dns, refcbor.U(8043), refcbor.U(3)))
	switch addrVariant {
	case 1:
		addrs = refcbor.A(refcbor.A(refcbor.B([]byte{10, 0, 0, 7}), dns, refcbor.U(443), refcbor.U(5)))
	case 2:
		addrs = refcbor.A(refcbor.A(refcbor.B([]byte{0xfd, 0, 0, 0, 0, 0, 0, 0, 0, 0, 0, 0, 0, 0, 0, 1}), refcbor.Null(), refcbor.U(80), refcbor.U(3)))
	case 3: // an IPv4-mapped address carried as ip6
		addrs = refcbor.A(refcbor.A(refcbor.B([]byte{0, 0, 0, 0, 0, 0, 0, 0, 0, 0, 0xff, 0xff, 10, 0, 0, 7}), refcbor.Null(), refcbor.U(8443), refcbor.U(5)),
			refcbor.A(refcbor.B([]byte{192, 168, 1, 2}), dns, refcbor.U(1), refcbor.U(1)))
	case 4:
		addrs = refcbor.A()
	}
	payload := refcbor.EncodeKeepOrder(refcbor.A(addrs, hash))
	to1d, err := wire.Sign1(signer, wire.AlgFor(signer.Public(), rsa && cfg.PSS()), nil, nil, payload, true)
	if err != nil {
		panic(err)
	}
	return refcbor.EncodeKeepOrder(refcbor.A(refcbor.B(to0d), to1d))
}

// refAccept decides from the bytes sent whether every condition of C06 holds.
func refAccept(msg []byte, issuedNonce []byte) (ok bool, why string, ttl uint64, guid []byte) {
	n, err := refcbor.ParseAll(msg)
	if err != nil || n.Kind != refcbor.Array || len(n.Items) != 2 || n.Items[0].Kind != refcbor.Bytes {
		return false, "OwnerSign is not [bstr, COSE_Sign1]", 0, nil
	}
	to0dBytes := n.Items[0].Bytes
	t, err := refcbor.ParseAll(to0dBytes)
	if err != nil || t.Kind != refcbor.Array || len(t.Items) != 3 || t.Items[1].Kind != refcbor.Uint || t.Items[2].Kind != refcbor.Bytes {
		return false, "to0d is not [voucher, uint, nonce]", 0, nil
	}
	ttl = t.Items[1].Val
	if ttl > 1<<32-1 {
		return false, "wait seconds out of range", 0, nil
	}
	v, err := refverify.ParseVoucher(to0dBytes[t.Items[0].Off:t.Items[0].End])
	if err != nil {
		return false, "voucher: " + err.Error(), 0, nil
	}
	guid = v.Header.GUID
	if len(v.Entries) == 0 {
		return false, "voucher has no entries", ttl, guid
	}
	if ok, why := v.VerifyEntries(); !ok {
		return false, why, ttl, guid
	}
	if !bytes.Equal(t.Items[2].Bytes, issuedNonce) {
		return false, "to0d does not carry the nonce issued in this session", ttl, guid
	}
	s1, err := refverify.Sign1FromNode(n.Items[1])
	if err != nil || s1.PayloadNil {
		return false, "to1d is not a COSE_Sign1 with payload", ttl, guid
	}
	p, err := refcbor.ParseAll(s1.Payload)
	if err != nil || p.Kind != refcbor.Array || len(p.Items) != 2 || p.Items[1].Kind != refcbor.Array || len(p.Items[1].Items) != 2 {
		return false, "to1d payload is not [addrs, hash]", ttl, guid
	}
	alg, _ := refverify.NodeInt(p.Items[1].Items[0])
	// the library reads the HMAC identifiers 5/6 as their underlying hash; the value is still
	// checked as a plain SHA-256/384 of to0d, so this labelling is tolerated
	if alg == 5 {
		alg = -16
	} else if alg == 6 {
		alg = -43
	}
	if alg != -16 && alg != -43 {
		return false, "to0d hash algorithm is not SHA-256/384", ttl, guid
	}
	if p.Items[1].Items[1].Kind != refcbor.Bytes || !bytes.Equal(wire.HashNode(alg, to0dBytes).Items[1].Bytes, p.Items[1].Items[1].Bytes) {
		return false, "hash in to1d does not match to0d", ttl, guid
	}
	owner, err := v.OwnerKey()
	if err != nil {
		return false, "owner key: " + err.Error(), ttl, guid
	}
	if ok, why := refverify.VerifySign1(s1, owner, nil, nil); !ok {
		return false, "to1d is not signed by the voucher's current owner key: " + why, ttl, guid
	}
	return true, "", ttl, guid
}

func evalCase(d caseDesc) ev.Result {
	ctx, cancel := context.WithTimeout(context.Background(), 20*time.Second)
	defer cancel()
	chain := d.Chain
	if d.Attack.Kind == "zero-entries" {
		chain = 0
	}
	b, err := buildVoucher(ctx, d.Cfg, chain, deploy.KeyDevice)
	if err != nil {
		return ev.Failf("setup", "%v", err)
	}
	rv := deploy.NewMemService("rv", deploy.KeyStranger)
	policyCalls := 0
	var policyTTL uint32
	switch d.Policy {
	case "fixed":
		rv.TO0.AcceptVoucher = func(ctx context.Context, ov fdo.Voucher, req uint32) (uint32, error) {
			policyCalls++
			policyTTL = 600
			return 600, nil
		}
	case "zero":
		rv.TO0.AcceptVoucher = func(ctx context.Context, ov fdo.Voucher, req uint32) (uint32, error) { policyCalls++; return 0, nil }
	case "error":
		rv.TO0.AcceptVoucher = func(ctx context.Context, ov fdo.Voucher, req uint32) (uint32, error) {
			policyCalls++
			return 0, errors.New("policy says no")
		}
	case "echo":
		rv.TO0.AcceptVoucher = func(ctx context.Context, ov fdo.Voucher, req uint32) (uint32, error) {
			policyCalls++
			policyTTL = req / 2
			return req / 2, nil
		}
	}
	hello := func() (string, []byte, error) {
		st, typ, body, tok, err := send(rv.Handler, 20, "", []byte{0x80})
		if err != nil {
			return "", nil, err
		}
		if st != 200 || typ != 21 {
			return "", nil, fmt.Errorf("TO0.Hello answered %d/%d %x", st, typ, body)
		}
		n, err := refcbor.ParseAll(body)
		if err != nil || len(n.Items) != 1 || n.Items[0].Kind != refcbor.Bytes {
			return "", nil, fmt.Errorf("HelloAck shape %x", body)
		}
		return tok, n.Items[0].Bytes, nil
	}
	addrVariant = ((d.Addr % 5) + 5) % 5
	if d.Prior {
		// an earlier, genuine registration of the same GUID (its blob is stored and unexpired
		// when the request under test arrives)
		tok0, nonce0, err := hello()
		if err != nil {
			return ev.Failf("hello", "%v", err)
		}
		sk0, rsa0 := signerKey(d.Cfg, b, "owner")
		if _, _, _, _, err := send(rv.Handler, 22, tok0, ownerSign(d.Cfg, b.vbytes, 3600, nonce0, sk0, rsa0, "")); err != nil {
			return ev.Failf("setup", "prior registration: %v", err)
		}
		policyCalls = 0
	}
	tok, nonce, err := hello()
	if err != nil {
		return ev.Failf("hello", "%v", err)
	}
	a := d.Attack
	who := "owner"
	if a.Kind == "signer" {
		who = a.Signer
	}
	if a.Kind == "takeover" {
		who = "stranger" // the attacker signs the redirect with the key its forged entry names
	}
	sk, isRSA := signerKey(d.Cfg, b, who)
	hashOp := ""
	if a.Kind == "hash" {
		hashOp = a.HashOp
	}
	vbytes := b.vbytes
	if a.Kind == "graft" {
		// rearranged entry lists, correctly hashed and signed by the genuine current owner
		b2, err := buildVoucher(ctx, d.Cfg, d.Chain, deploy.KeyDevice2)
		if err != nil {
			return ev.Failf("setup", "%v", err)
		}
		v1, _ := refcbor.ParseAll(b.vbytes)
		v2, _ := refcbor.ParseAll(b2.vbytes)
		e1, e2 := v1.Items[4], v2.Items[4]
		switch a.HashOp {
		case "foreign-last":
			e1.Items[len(e1.Items)-1] = e2.Items[len(e2.Items)-1]
		case "foreign-all":
			e1.Items = e2.Items
		case "dup-last":
			e1.Items = append(e1.Items, e1.Items[len(e1.Items)-1])
		case "swap":
			if len(e1.Items) < 2 {
				return ev.Trivial("not-applicable")
			}
			e1.Items[0], e1.Items[1] = e1.Items[1], e1.Items[0]
		case "drop-first":
			if len(e1.Items) < 2 {
				return ev.Trivial("not-applicable")
			}
			e1.Items = e1.Items[1:]
		}
		vbytes = refcbor.EncodeKeepOrder(v1)
	}
	if a.Kind == "takeover" {
		// entry p keeps its genuine hashes but names the stranger's key and is signed by a key other than
		// the one entry p-1 names; `Tail` further entries are honestly built by the stranger; the rest is dropped
		v1, _ := refcbor.ParseAll(b.vbytes)
		ents := v1.Items[4]
		var items [][]byte
		for _, it := range ents.Items {
			items = append(items, b.vbytes[it.Off:it.End])
		}
		atk := keys.Get(d.Cfg.Kind(), deploy.KeyStranger)
		pss := keys.IsRSA(d.Cfg.Kind()) && d.Cfg.PSS()
		var sb crypto.Signer
		sbAlg := int64(0)
		if a.Signer != "keep-sig" {
			sb, _ = signerKey(d.Cfg, b, a.Signer)
			sbAlg = wire.AlgFor(sb.Public(), pss)
		}
		forged, err := wire.TakeOver(items, a.Entry%len(items), pubNode(d.Cfg, atk), sb, sbAlg, atk, wire.AlgFor(atk.Public(), pss), a.Tail)
		if err != nil {
			return ev.Failf("setup", "takeover: %v", err)
		}
		ents.Items = nil
		for _, f := range forged {
			n, _ := refcbor.ParseAll(f)
			ents.Items = append(ents.Items, n)
		}
		vbytes = refcbor.EncodeKeepOrder(v1)
	}
	msg := ownerSign(d.Cfg, vbytes, d.TTL, nonce, sk, isRSA, hashOp)
	orig := msg
	mutPath := ""
	switch a.Kind {
	case "mutate":
		tree, _ := refcbor.ParseAll(msg)
		refcbor.ExpandBstr(tree)
		mt, p, ok := refcbor.Apply(tree, a.Mut)
		if !ok {
			return ev.Trivial("mutation-not-applicable")
		}
		mutPath = p
		msg = refcbor.EncodeKeepOrder(mt)
		if bytes.Equal(msg, orig) {
			return ev.Trivial("no-change")
		}
	case "replay":
		// the OwnerSign (made for the first session's nonce) is sent in a fresh session
		first := nonce
		if tok, nonce, err = hello(); err != nil {
			return ev.Failf("hello", "%v", err)
		}
		if bytes.Equal(first, nonce) {
			return ev.Failf("nonce-not-fresh", "the rendezvous server issued the same TO0 nonce %x in two sessions", nonce)
		}
	case "other-to1d":
		// OwnerSign for this voucher carrying the to1d made for another device's voucher
		b2, err := buildVoucher(ctx, d.Cfg, d.Chain, deploy.KeyDevice2)
		if err != nil {
			return ev.Failf("setup", "%v", err)
		}
		other := ownerSign(d.Cfg, b2.vbytes, d.TTL, nonce, sk, isRSA, "")
		mo, _ := refcbor.ParseAll(msg)
		oo, _ := refcbor.ParseAll(other)
		mo.Items[1] = oo.Items[1]
		msg = refcbor.EncodeKeepOrder(mo)
	case "no-hello":
		tok = ""
	}
	j0 := rv.J.Len()
	before := time.Now()
	st, typ, body, _, err := send(rv.Handler, 22, tok, msg)
	if err != nil {
		return ev.Failf("panic:acceptOwner", "%s attack %+v (path %s): %v", d.Cfg.Key, a, mutPath, firstLine(err.Error()))
	}
	stored := rv.J.Since(j0)
	var setBlob *deploy.Event
	for i := range stored {
		if stored[i].Kind == "SetRVBlob" {
			setBlob = &stored[i]
		}
	}
	refOK, refWhy, reqTTL, guid := refAccept(msg, nonce)
	if a.Kind == "no-hello" {
		refOK, refWhy = false, "no session"
	}
	// effective TTL by policy
	wantTTL := uint64(0)
	policyOK := true
	switch d.Policy {
	case "nil":
		wantTTL = reqTTL
	case "fixed":
		wantTTL = 600
	case "echo":
		wantTTL = reqTTL / 2
		policyOK = wantTTL != 0
	default:
		policyOK = false
	}
	accepted := st == 200 && typ == 23
	cls := a.Kind
	if a.Kind == "signer" {
		cls += "/" + a.Signer
	}
	if a.Kind == "hash" || a.Kind == "graft" {
		cls += "/" + a.HashOp
	}
	if a.Kind == "takeover" {
		cls += fmt.Sprintf("/%s/%s", a.Signer, posClass(a.Entry%max(d.Chain, 1), d.Chain))
	}
	tag := fmt.Sprintf("%s/%s chain=%d policy=%s ttl=%d prior=%v attack=%s", d.Cfg.Key, d.Cfg.Enc, d.Chain, d.Policy, d.TTL, d.Prior, cls)
	shouldAccept := refOK && policyOK

	if !accepted && setBlob != nil {
		return ev.Failf("stored-but-refused", "%s: reply %d/%d but SetRVBlob was called", tag, st, typ)
	}
	if !accepted {
		if typ != 255 {
			return ev.Failf("bad-refusal", "%s: refusal is not an FDO error message: status %d type %d body %x", tag, st, typ, body[:min(len(body), 40)])
		}
		if shouldAccept {
			if a.Kind == "none" {
				return ev.Failf("honest-refused", "%s: the honest owner's registration was refused: %x", tag, body)
			}
			return ev.Trivial("valid-but-refused/" + cls) // stricter than required is allowed
		}
		r := ev.OK("refused/" + cls)
		r.ID = fmt.Sprintf("%s|%d|%s|%+v", d.Cfg.Key+d.Cfg.Enc, d.Chain, d.Policy, a)
		r.NonTrivial = a.Kind != "none"
		return r
	}
	// accepted
	if setBlob == nil {
		return ev.Failf("accepted-not-stored", "%s: AcceptOwner sent but nothing was stored", tag)
	}
	if !shouldAccept {
		// equivalent encodings are not forgeries
		if a.Kind == "mutate" {
			o, e1 := refcbor.ParseAll(orig)
			n, e2 := refcbor.ParseAll(msg)
			if e1 == nil && e2 == nil && refcbor.LenientEqual(o, n) {
				return ev.Trivial("equivalent-encoding")
			}
		}
		why := refWhy
		if refOK {
			why = "the TTL policy rejects (policy " + d.Policy + ")"
		}
		return ev.Failf("registered:"+strings.SplitN(cls, "/", 2)[0], "%s (path %s): the redirect was stored and AcceptOwner returned although: %s", tag, mutPath, why)
	}
	// genuine acceptance: TTL semantics
	resp, perr := refcbor.ParseAll(body)
	if perr != nil || resp.Kind != refcbor.Array || len(resp.Items) != 1 || resp.Items[0].Kind != refcbor.Uint {
		return ev.Failf("accept-shape", "%s: AcceptOwner body %x", tag, body)
	}
	if resp.Items[0].Val != wantTTL {
		return ev.Failf("ttl-reply", "%s: AcceptOwner reports %d s, accepted TTL is %d s (requested %d, policy value %d)", tag, resp.Items[0].Val, wantTTL, reqTTL, policyTTL)
	}
	got := setBlob.Exp.Sub(before)
	if d := got - time.Duration(wantTTL)*time.Second; d < -2*time.Second || d > 2*time.Second {
		return ev.Failf("ttl-expiry", "%s: blob stored with expiry %v from now, accepted TTL %d s", tag, got, wantTTL)
	}
	if !bytes.Equal(setBlob.GUID[:], guid) {
		return ev.Failf("guid", "%s: stored for GUID %x, voucher GUID %x", tag, setBlob.GUID, guid)
	}
	if rv.TO0.AcceptVoucher != nil && policyCalls != 1 {
		return ev.Failf("policy-calls", "%s: policy callback called %d times", tag, policyCalls)
	}
	r := ev.OK("accepted/" + cls + "/" + d.Policy)
	r.NonTrivial = a.Kind != "none" || d.Policy != "nil"
	r.ID = fmt.Sprintf("%s|%d|%s|%d|%+v", d.Cfg.Key+d.Cfg.Enc, d.Chain, d.Policy, d.TTL, a)
	return r
}

func firstLine(s string) string {
	if i := strings.Index(s, "\n"); i > 0 {
		// keep the panic message and the first library frame
		rest := s[i+1:]
		for _, l := range strings.Split(rest, "\n") {
			if strings.Contains(l, "go-fdo") && !strings.Contains(l, "harness") {
				return s[:i] + " @ " + strings.TrimSpace(l)
			}
		}
		return s[:i]
	}
	return s
}

var configs = func() []deploy.Config {
	var out []deploy.Config
	for _, k := range deploy.KeyNames {
		for _, e := range deploy.EncNames {
			if e == "cose" && strings.HasPrefix(k, "RSA") {
				continue
			}
			out = append(out, deploy.Config{Key: k, Enc: e, Kex: deploy.DefaultKex(k), Cipher: "A128GCM"})
		}
	}
	return out
}()

func posClass(p, n int) string {
	switch {
	case n == 1:
		return "only-entry"
	case p == 0:
		return "first-entry"
	case p == n-1:
		return "last-entry"
	}
	return "middle-entry"
}

func genCase(t *rapid.T) caseDesc {
	d := caseDesc{Cfg: rapid.SampledFrom(configs).Draw(t, "cfg"), Chain: rapid.IntRange(1, 3).Draw(t, "chain"),
		Policy: rapid.SampledFrom([]string{"nil", "nil", "fixed", "zero", "error", "echo"}).Draw(t, "policy"),
		TTL:    rapid.SampledFrom([]uint32{0, 1, 2, 3600, 86400, 1<<31 - 1, 1<<32 - 1}).Draw(t, "ttl")}
	kind := rapid.SampledFrom([]string{"none", "mutate", "mutate", "mutate", "signer", "signer", "replay", "zero-entries", "other-to1d", "hash", "no-hello", "graft", "graft", "takeover", "takeover"}).Draw(t, "kind")
	d.Attack.Kind = kind
	d.Prior = rapid.IntRange(0, 2).Draw(t, "prior") == 0
	d.Addr = rapid.SampledFrom([]int{0, 0, 1, 2, 3, 3, 4}).Draw(t, "addr")
	switch kind {
	case "mutate":
		d.Attack.Mut = refcbor.Mutation{Node: rapid.IntRange(0, 300).Draw(t, "node"), Op: "auto", Arg: int64(rapid.IntRange(-4000, 4000).Draw(t, "arg"))}
	case "signer":
		d.Attack.Signer = rapid.SampledFrom([]string{"earlier", "mfg", "device", "stranger", "otherkind"}).Draw(t, "signer")
	case "hash":
		d.Attack.HashOp = rapid.SampledFrom([]string{"other-alg", "wrong-value", "hmac-alg"}).Draw(t, "hop")
	case "graft":
		d.Attack.HashOp = rapid.SampledFrom([]string{"foreign-last", "foreign-all", "dup-last", "swap", "drop-first"}).Draw(t, "gop")
	case "takeover":
		d.Attack.Entry = rapid.IntRange(0, d.Chain-1).Draw(t, "entry")
		d.Attack.Tail = rapid.IntRange(0, 2).Draw(t, "tail")
		d.Attack.Signer = rapid.SampledFrom([]string{"stranger", "stranger", "keep-sig", "keep-sig", "device", "earlier", "mfg", "owner"}).Draw(t, "signer")
	}
	return d
}

func TestC06(t *testing.T) {
	r := ev.Start(t, "C06")
	defer r.Finish()
	r.SetRule("controls", "exhaustive: 14 key/encoding configurations × chain length 1..3 × TTL policy {nil, fixed 600, zero, error, echo/2} × requested TTL {3600, 2^32-1}: the honest owner (a manual owner built from the CDDL, writing the redirect's address list in five shapes incl. an IPv4-mapped address carried as ip6) registers; oracle: accepted iff the policy admits, reply type 23 carries the accepted TTL, SetRVBlob expiry − now = TTL ± 2 s, callback invoked once")
	ev.Enum(r, "controls", true, func(yield func(caseDesc) bool) {
		i := 0
		for _, c := range configs {
			for chain := 1; chain <= 3; chain++ {
				for _, pol := range []string{"nil", "fixed", "zero", "error", "echo"} {
					for _, ttl := range []uint32{3600, 1<<32 - 1} {
						i++
						if !r.Mine(i) {
							continue
						}
						if !yield(caseDesc{Cfg: c, Chain: chain, Policy: pol, TTL: ttl, Addr: i % 5, Attack: attack{Kind: "none"}}) {
							return
						}
					}
				}
			}
		}
	}, func(d caseDesc) ev.Result {
		res := evalCase(d)
		if res.Fail == "" {
			res.NonTrivial = true
		}
		return res
	})
	r.SetRule("attacks", "configuration × chain × TTL policy × requested TTL × {fresh server, GUID already registered by the genuine owner in an earlier session} × one forgery of TO0.OwnerSign built by a manual owner from the CDDL: one structure-aware mutation anywhere (to0d incl. the embedded voucher, wait seconds, nonce; to1d payload, protected header, signature, hash), signer ∈ {earlier owner, manufacturer, device key, stranger, key of another kind}, OwnerSign replayed in a fresh session, zero-entry voucher, to1d taken from another device's registration, hash with other algorithm / wrong value / HMAC id, no preceding Hello, take-over of entry p (genuine hashes, names the stranger, signed by stranger/device/earlier owner/manufacturer/current owner or carrying the genuine signature bytes over the changed payload, 0..2 further entries honestly built by the stranger, redirect signed by the stranger), rearranged entry lists (last or all entries grafted from another device's voucher with the same owners, duplicated last entry, swapped or dropped entries) correctly hashed and signed by the genuine owner. Oracle: SetRVBlob appears in the journal and type 23 is returned only if an independent reference accepts the bytes sent (≥1 entry, chain verifies, hash(to0d)=to1d hash, nonce issued in this session, to1d signed by the current owner key) and the policy admits; otherwise type 255 and nothing stored; TTL semantics as in controls. Non-trivial: every forged request and every non-default policy; distinct by descriptor.")
	ev.Rapid(r, "attacks", ev.N{Quick: 8000, Thorough: 200000}, genCase, evalCase)
	ev.CheckWitness(r, "attacks", evalCase)
}
