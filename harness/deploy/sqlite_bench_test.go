package deploy

import (
	"os"
	"testing"
	"time"
)

func TestSQLiteOpenCost(t *testing.T) {
	dir := ScratchDir()
	defer os.RemoveAll(dir)
	for i := 0; i < 4; i++ {
		t0 := time.Now()
		db, err := OpenSQLite(dir+"/s.db", KeyOwner1, i == 0)
		if err != nil {
			t.Fatal(err)
		}
		t1 := time.Now()
		db.Close()
		t.Logf("open %d: %v close %v", i, t1.Sub(t0), time.Since(t1))
	}
}
