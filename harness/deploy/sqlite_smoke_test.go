package deploy

import (
	"context"
	"os"
	"testing"
)

func TestSQLiteSmoke(t *testing.T) {
	dir := ScratchDir()
	defer os.RemoveAll(dir)
	svc, db, err := NewSQLiteService("aio", dir+"/s.db", KeyOwner1, true)
	if err != nil {
		t.Fatal(err)
	}
	defer db.Close()
	ctx := context.Background()
	cfg := Config{Key: "P-256", Enc: "x509", Kex: "ECDH256", Cipher: "A128GCM"}
	dev := NewDevice(cfg, KeyDevice)
	svc.AutoExtendTo = OwnerPublic(cfg, KeyOwner1)
	if err := dev.DI(ctx, NewLink(svc)); err != nil {
		t.Fatal(err)
	}
	if _, err := dev.TO2(ctx, NewLink(svc), nil); err != nil {
		t.Fatal(err)
	}
	t.Log(svc.J.Since(0))
}
