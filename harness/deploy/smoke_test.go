package deploy

import (
	"context"
	"testing"
	"time"
)

func TestSmoke(t *testing.T) {
	ctx := context.Background()
	for _, key := range KeyNames {
		for _, enc := range EncNames {
			if enc == "cose" && key[0] == 'R' {
				continue
			}
			cfg := Config{Key: key, Enc: enc, Kex: DefaultKex(key), Cipher: "A256GCM"}
			mfg, owner, rv := NewMemService("mfg", KeyMfg), NewMemService("owner", KeyOwner1), NewMemService("rv", KeyStranger)
			dev := NewDevice(cfg, KeyDevice)
			t0 := time.Now()
			if err := dev.DI(ctx, NewLink(mfg)); err != nil {
				t.Fatalf("%v DI: %v", cfg, err)
			}
			if _, err := TransferVoucher(ctx, cfg, mfg, KeyMfg, owner, KeyOwner1, dev.Cred.GUID); err != nil {
				t.Fatalf("%v transfer: %v", cfg, err)
			}
			if _, err := RegisterTO0(ctx, owner, NewLink(rv), dev.Cred.GUID, DefaultAddrs(), 3600); err != nil {
				t.Fatalf("%v TO0: %v", cfg, err)
			}
			to1d, err := dev.TO1(ctx, NewLink(rv))
			if err != nil {
				t.Fatalf("%v TO1: %v", cfg, err)
			}
			l := NewLink(owner)
			cred, err := dev.TO2(ctx, l, to1d)
			if err != nil || cred == nil {
				t.Fatalf("%v TO2: %v %v", cfg, cred, err)
			}
			t.Logf("%v ok in %v, msgs %v", cfg, time.Since(t0), l.SentTypes())
		}
	}
}
