// Package deploy builds in-process FDO deployments for the property checks:
// state backends with an effect journal, the real responders behind the real
// HTTP handler, and a transport with a programmable man-in-the-middle stage.
package deploy

import (
	"context"
	"crypto"
	"crypto/rand"
	"crypto/x509"
	"encoding"
	"encoding/hex"
	"fmt"
	"sync"
	"time"

	fdo "github.com/fido-device-onboard/go-fdo"
	"github.com/fido-device-onboard/go-fdo/cbor"
	"github.com/fido-device-onboard/go-fdo/cose"
	"github.com/fido-device-onboard/go-fdo/kex"
	"github.com/fido-device-onboard/go-fdo/protocol"
	"github.com/fido-device-onboard/go-fdo/serviceinfo"
)

// Event is one effectful call recorded by a state backend.
type Event struct {
	Kind  string // AddVoucher ReplaceVoucher RemoveVoucher SetRVBlob NewToken InvalidateToken Module NextModule HandleInfo ProduceInfo
	GUID  protocol.GUID
	GUID2 protocol.GUID // replacement GUID for ReplaceVoucher
	Token string
	Proto protocol.Protocol
	At    time.Time
	Exp   time.Time // SetRVBlob expiry
	Note  string
}

// Journal is a concurrency-safe list of events.
type Journal struct {
	mu     sync.Mutex
	events []Event
}

// Add appends an event.
func (j *Journal) Add(e Event) {
	e.At = time.Now()
	j.mu.Lock()
	j.events = append(j.events, e)
	j.mu.Unlock()
}

// Len returns the number of events so far.
func (j *Journal) Len() int {
	j.mu.Lock()
	defer j.mu.Unlock()
	return len(j.events)
}

// Since returns the events recorded after the first n.
func (j *Journal) Since(n int) []Event {
	j.mu.Lock()
	defer j.mu.Unlock()
	return append([]Event{}, j.events[n:]...)
}

// Count returns how many events of a kind exist after the first n.
func (j *Journal) Count(n int, kinds ...string) int {
	c := 0
	for _, e := range j.Since(n) {
		for _, k := range kinds {
			if e.Kind == k {
				c++
			}
		}
	}
	return c
}

type keyID struct {
	typ  protocol.KeyType
	bits int
}

type keyEntry struct {
	key   crypto.Signer
	chain []*x509.Certificate
}

type memSession struct {
	proto protocol.Protocol
	// DI
	certChain []*x509.Certificate
	ovh       []byte // CBOR of incomplete voucher header
	// TO0 / TO1
	to0Nonce, to1Nonce *protocol.Nonce
	// TO2
	guid, replGUID     *protocol.GUID
	rvInfo             []byte
	haveRvInfo         bool
	replHmac           *protocol.Hmac
	xSuite             kex.Suite
	xState             []byte
	proveDv, setupDv   *protocol.Nonce
	mtu                *uint16
	devmod             *serviceinfo.Devmod
	modules            []string
	devmodComplete     bool
	haveDevmod         bool
}

type rvEntry struct {
	to1d, voucher []byte
	exp           time.Time
}

// Mem is an in-memory implementation of every server state interface. Values
// are stored in their encoded form (as the SQLite backend does), so callers get
// deep copies and persistence bugs surface.
type Mem struct {
	// NoOwnerChain makes OwnerKey return the key without its certificate chain
	NoOwnerChain bool
	J *Journal

	mu       sync.Mutex
	sessions map[string]*memSession
	ended    map[string]*memSession
	vouchers map[protocol.GUID][]byte
	rvBlobs  map[protocol.GUID]rvEntry
	mfgKeys  map[keyID]keyEntry
	ownKeys  map[keyID]keyEntry

	// XSessionBlankCipher is the cipher id used for the blank session that
	// XSession restores into (SQLite uses 1 = A128GCM).
	XSessionBlankCipher kex.CipherSuiteID

	// DevmodLog records every SetDevmod call (guarded by mu).
	DevmodLog []DevmodRec
}

// DevmodRec is one SetDevmod call.
type DevmodRec struct {
	Devmod   serviceinfo.Devmod
	Modules  []string
	Complete bool
}

// DevmodCalls returns a copy of the SetDevmod log.
func (m *Mem) DevmodCalls() []DevmodRec {
	m.mu.Lock()
	defer m.mu.Unlock()
	return append([]DevmodRec{}, m.DevmodLog...)
}

// NewMem creates an empty backend.
func NewMem() *Mem {
	return &Mem{J: &Journal{}, sessions: map[string]*memSession{}, vouchers: map[protocol.GUID][]byte{}, rvBlobs: map[protocol.GUID]rvEntry{},
		mfgKeys: map[keyID]keyEntry{}, ownKeys: map[keyID]keyEntry{}, XSessionBlankCipher: kex.A128GcmCipher}
}

type ctxKey struct{}

// NewToken implements protocol.TokenService.
func (m *Mem) NewToken(ctx context.Context, p protocol.Protocol) (string, error) {
	var id [24]byte
	if _, err := rand.Read(id[:]); err != nil {
		return "", err
	}
	tok := hex.EncodeToString(id[:])
	m.mu.Lock()
	m.sessions[tok] = &memSession{proto: p}
	m.mu.Unlock()
	m.J.Add(Event{Kind: "NewToken", Token: tok, Proto: p})
	return tok, nil
}

// TokenContext implements protocol.TokenService.
func (m *Mem) TokenContext(parent context.Context, token string) context.Context {
	return context.WithValue(parent, ctxKey{}, token)
}

// TokenFromContext implements protocol.TokenService.
func (m *Mem) TokenFromContext(ctx context.Context) (string, bool) {
	t, ok := ctx.Value(ctxKey{}).(string)
	return t, ok
}

// InvalidateToken implements protocol.TokenService.
func (m *Mem) InvalidateToken(ctx context.Context) error {
	tok, _ := m.TokenFromContext(ctx)
	m.mu.Lock()
	old, ok := m.sessions[tok]
	delete(m.sessions, tok)
	if ok {
		// harness only: keep the keys of an ended session so that a man in the
		// middle can still open/forge the final response (TO2.Done2)
		if m.ended == nil {
			m.ended = map[string]*memSession{}
		}
		m.ended[tok] = old
	}
	m.mu.Unlock()
	if !ok {
		return fdo.ErrNotFound
	}
	m.J.Add(Event{Kind: "InvalidateToken", Token: tok})
	return nil
}

// Live reports whether a token still grants access to session state.
func (m *Mem) Live(token string) bool {
	m.mu.Lock()
	defer m.mu.Unlock()
	_, ok := m.sessions[token]
	return ok
}

func (m *Mem) with(ctx context.Context, f func(s *memSession) error) error {
	tok, _ := m.TokenFromContext(ctx)
	m.mu.Lock()
	defer m.mu.Unlock()
	s, ok := m.sessions[tok]
	if !ok {
		return fdo.ErrInvalidSession
	}
	return f(s)
}

// ---- DI ----

// SetDeviceCertChain implements fdo.DISessionState.
func (m *Mem) SetDeviceCertChain(ctx context.Context, chain []*x509.Certificate) error {
	return m.with(ctx, func(s *memSession) error { s.certChain = chain; return nil })
}

// DeviceCertChain implements fdo.DISessionState.
func (m *Mem) DeviceCertChain(ctx context.Context) (out []*x509.Certificate, err error) {
	err = m.with(ctx, func(s *memSession) error {
		if s.certChain == nil {
			return fdo.ErrNotFound
		}
		out = s.certChain
		return nil
	})
	return
}

// SetIncompleteVoucherHeader implements fdo.DISessionState.
func (m *Mem) SetIncompleteVoucherHeader(ctx context.Context, ovh *fdo.VoucherHeader) error {
	b, err := cbor.Marshal(ovh)
	if err != nil {
		return err
	}
	return m.with(ctx, func(s *memSession) error { s.ovh = b; return nil })
}

// IncompleteVoucherHeader implements fdo.DISessionState.
func (m *Mem) IncompleteVoucherHeader(ctx context.Context) (*fdo.VoucherHeader, error) {
	var b []byte
	if err := m.with(ctx, func(s *memSession) error { b = s.ovh; return nil }); err != nil {
		return nil, err
	}
	if b == nil {
		return nil, fdo.ErrNotFound
	}
	var ovh fdo.VoucherHeader
	if err := cbor.Unmarshal(b, &ovh); err != nil {
		return nil, err
	}
	return &ovh, nil
}

// ---- TO0 / TO1 ----

func getNonce(p *protocol.Nonce) (protocol.Nonce, error) {
	if p == nil {
		return protocol.Nonce{}, fdo.ErrNotFound
	}
	return *p, nil
}

// SetTO0SignNonce implements fdo.TO0SessionState.
func (m *Mem) SetTO0SignNonce(ctx context.Context, n protocol.Nonce) error {
	return m.with(ctx, func(s *memSession) error { s.to0Nonce = &n; return nil })
}

// TO0SignNonce implements fdo.TO0SessionState.
func (m *Mem) TO0SignNonce(ctx context.Context) (n protocol.Nonce, err error) {
	err = m.with(ctx, func(s *memSession) error { n, err = getNonce(s.to0Nonce); return err })
	return
}

// SetTO1ProofNonce implements fdo.TO1SessionState.
func (m *Mem) SetTO1ProofNonce(ctx context.Context, n protocol.Nonce) error {
	return m.with(ctx, func(s *memSession) error { s.to1Nonce = &n; return nil })
}

// TO1ProofNonce implements fdo.TO1SessionState.
func (m *Mem) TO1ProofNonce(ctx context.Context) (n protocol.Nonce, err error) {
	err = m.with(ctx, func(s *memSession) error { n, err = getNonce(s.to1Nonce); return err })
	return
}

// ---- TO2 ----

// SetGUID implements fdo.TO2SessionState.
func (m *Mem) SetGUID(ctx context.Context, g protocol.GUID) error {
	return m.with(ctx, func(s *memSession) error { s.guid = &g; return nil })
}

// GUID implements fdo.TO2SessionState.
func (m *Mem) GUID(ctx context.Context) (g protocol.GUID, err error) {
	err = m.with(ctx, func(s *memSession) error {
		if s.guid == nil {
			return fdo.ErrNotFound
		}
		g = *s.guid
		return nil
	})
	return
}

// SetRvInfo implements fdo.TO2SessionState.
func (m *Mem) SetRvInfo(ctx context.Context, rv [][]protocol.RvInstruction) error {
	b, err := cbor.Marshal(rv)
	if err != nil {
		return err
	}
	return m.with(ctx, func(s *memSession) error { s.rvInfo, s.haveRvInfo = b, true; return nil })
}

// RvInfo implements fdo.TO2SessionState.
func (m *Mem) RvInfo(ctx context.Context) ([][]protocol.RvInstruction, error) {
	var b []byte
	var have bool
	if err := m.with(ctx, func(s *memSession) error { b, have = s.rvInfo, s.haveRvInfo; return nil }); err != nil {
		return nil, err
	}
	if !have {
		return nil, fdo.ErrNotFound
	}
	var rv [][]protocol.RvInstruction
	if err := cbor.Unmarshal(b, &rv); err != nil {
		return nil, err
	}
	return rv, nil
}

// SetReplacementGUID implements fdo.TO2SessionState.
func (m *Mem) SetReplacementGUID(ctx context.Context, g protocol.GUID) error {
	return m.with(ctx, func(s *memSession) error { s.replGUID = &g; return nil })
}

// ReplacementGUID implements fdo.TO2SessionState.
func (m *Mem) ReplacementGUID(ctx context.Context) (g protocol.GUID, err error) {
	err = m.with(ctx, func(s *memSession) error {
		if s.replGUID == nil {
			return fdo.ErrNotFound
		}
		g = *s.replGUID
		return nil
	})
	return
}

// SetReplacementHmac implements fdo.TO2SessionState.
func (m *Mem) SetReplacementHmac(ctx context.Context, h protocol.Hmac) error {
	h.Value = append([]byte{}, h.Value...)
	return m.with(ctx, func(s *memSession) error { s.replHmac = &h; return nil })
}

// ReplacementHmac implements fdo.TO2SessionState.
func (m *Mem) ReplacementHmac(ctx context.Context) (h protocol.Hmac, err error) {
	err = m.with(ctx, func(s *memSession) error {
		if s.replHmac == nil {
			return fdo.ErrNotFound
		}
		h = protocol.Hmac{Algorithm: s.replHmac.Algorithm, Value: append([]byte{}, s.replHmac.Value...)}
		return nil
	})
	return
}

// SetXSession implements fdo.TO2SessionState.
func (m *Mem) SetXSession(ctx context.Context, suite kex.Suite, sess kex.Session) error {
	bm, ok := sess.(encoding.BinaryMarshaler)
	if !ok {
		return fmt.Errorf("key exchange state does not support binary marshaling")
	}
	b, err := bm.MarshalBinary()
	if err != nil {
		return err
	}
	return m.with(ctx, func(s *memSession) error { s.xSuite, s.xState = suite, b; return nil })
}

// XSession implements fdo.TO2SessionState.
func (m *Mem) XSession(ctx context.Context) (kex.Suite, kex.Session, error) {
	var suite kex.Suite
	var b []byte
	if err := m.with(ctx, func(s *memSession) error { suite, b = s.xSuite, s.xState; return nil }); err != nil {
		return "", nil, err
	}
	if b == nil {
		return "", nil, fdo.ErrNotFound
	}
	sess := suite.New(nil, m.XSessionBlankCipher)
	if err := sess.(encoding.BinaryUnmarshaler).UnmarshalBinary(b); err != nil {
		return "", nil, err
	}
	return suite, sess, nil
}

// SetProveDeviceNonce implements fdo.TO2SessionState.
func (m *Mem) SetProveDeviceNonce(ctx context.Context, n protocol.Nonce) error {
	return m.with(ctx, func(s *memSession) error { s.proveDv = &n; return nil })
}

// ProveDeviceNonce implements fdo.TO2SessionState.
func (m *Mem) ProveDeviceNonce(ctx context.Context) (n protocol.Nonce, err error) {
	err = m.with(ctx, func(s *memSession) error { n, err = getNonce(s.proveDv); return err })
	return
}

// SetSetupDeviceNonce implements fdo.TO2SessionState.
func (m *Mem) SetSetupDeviceNonce(ctx context.Context, n protocol.Nonce) error {
	return m.with(ctx, func(s *memSession) error { s.setupDv = &n; return nil })
}

// SetupDeviceNonce implements fdo.TO2SessionState.
func (m *Mem) SetupDeviceNonce(ctx context.Context) (n protocol.Nonce, err error) {
	err = m.with(ctx, func(s *memSession) error { n, err = getNonce(s.setupDv); return err })
	return
}

// SetMTU implements fdo.TO2SessionState.
func (m *Mem) SetMTU(ctx context.Context, mtu uint16) error {
	return m.with(ctx, func(s *memSession) error { s.mtu = &mtu; return nil })
}

// MTU implements fdo.TO2SessionState.
func (m *Mem) MTU(ctx context.Context) (mtu uint16, err error) {
	err = m.with(ctx, func(s *memSession) error {
		if s.mtu == nil {
			return fdo.ErrNotFound
		}
		mtu = *s.mtu
		return nil
	})
	return
}

// SetDevmod implements fdo.TO2SessionState.
func (m *Mem) SetDevmod(ctx context.Context, d serviceinfo.Devmod, modules []string, complete bool) error {
	d.Serial = append([]byte{}, d.Serial...)
	return m.with(ctx, func(s *memSession) error {
		s.devmod, s.modules, s.devmodComplete, s.haveDevmod = &d, append([]string{}, modules...), complete, true
		m.DevmodLog = append(m.DevmodLog, DevmodRec{Devmod: d, Modules: append([]string{}, modules...), Complete: complete})
		return nil
	})
}

// Devmod implements fdo.TO2SessionState.
func (m *Mem) Devmod(ctx context.Context) (d serviceinfo.Devmod, modules []string, complete bool, err error) {
	err = m.with(ctx, func(s *memSession) error {
		if !s.haveDevmod {
			return fdo.ErrNotFound
		}
		d, modules, complete = *s.devmod, append([]string{}, s.modules...), s.devmodComplete
		return nil
	})
	return
}

// ---- persistent state ----

// AddVoucher implements fdo.VoucherPersistentState.
func (m *Mem) AddVoucher(ctx context.Context, ov *fdo.Voucher) error {
	b, err := cbor.Marshal(ov)
	if err != nil {
		return err
	}
	m.mu.Lock()
	m.vouchers[ov.Header.Val.GUID] = b
	m.mu.Unlock()
	tok, _ := m.TokenFromContext(ctx)
	m.J.Add(Event{Kind: "AddVoucher", GUID: ov.Header.Val.GUID, Token: tok, Note: fmt.Sprintf("entries=%d", len(ov.Entries))})
	return nil
}

// Voucher implements fdo.VoucherPersistentState.
func (m *Mem) Voucher(ctx context.Context, g protocol.GUID) (*fdo.Voucher, error) {
	m.mu.Lock()
	b, ok := m.vouchers[g]
	m.mu.Unlock()
	if !ok {
		return nil, fdo.ErrNotFound
	}
	var ov fdo.Voucher
	if err := cbor.Unmarshal(b, &ov); err != nil {
		return nil, err
	}
	return &ov, nil
}

// VoucherBytes returns the stored encoding of a voucher.
func (m *Mem) VoucherBytes(g protocol.GUID) ([]byte, bool) {
	m.mu.Lock()
	defer m.mu.Unlock()
	b, ok := m.vouchers[g]
	return append([]byte{}, b...), ok
}

// VoucherGUIDs lists stored voucher GUIDs.
func (m *Mem) VoucherGUIDs() []protocol.GUID {
	m.mu.Lock()
	defer m.mu.Unlock()
	var out []protocol.GUID
	for g := range m.vouchers {
		out = append(out, g)
	}
	return out
}

// ReplaceVoucher implements fdo.OwnerVoucherPersistentState.
func (m *Mem) ReplaceVoucher(ctx context.Context, g protocol.GUID, ov *fdo.Voucher) error {
	if len(ov.Entries) > 0 {
		return fmt.Errorf("ReplaceVoucher must be called with a voucher having zero extensions")
	}
	b, err := cbor.Marshal(ov)
	if err != nil {
		return err
	}
	m.mu.Lock()
	delete(m.vouchers, g)
	m.vouchers[ov.Header.Val.GUID] = b
	m.mu.Unlock()
	tok, _ := m.TokenFromContext(ctx)
	m.J.Add(Event{Kind: "ReplaceVoucher", GUID: g, GUID2: ov.Header.Val.GUID, Token: tok})
	return nil
}

// RemoveVoucher implements fdo.VoucherReseller.
func (m *Mem) RemoveVoucher(ctx context.Context, g protocol.GUID) (*fdo.Voucher, error) {
	m.mu.Lock()
	b, ok := m.vouchers[g]
	delete(m.vouchers, g)
	m.mu.Unlock()
	if !ok {
		return nil, fdo.ErrNotFound
	}
	m.J.Add(Event{Kind: "RemoveVoucher", GUID: g})
	var ov fdo.Voucher
	if err := cbor.Unmarshal(b, &ov); err != nil {
		return nil, err
	}
	return &ov, nil
}

// SetRVBlob implements fdo.RendezvousBlobPersistentState.
func (m *Mem) SetRVBlob(ctx context.Context, ov *fdo.Voucher, to1d *cose.Sign1[protocol.To1d, []byte], exp time.Time) error {
	blob, err := cbor.Marshal(to1d)
	if err != nil {
		return err
	}
	vb, err := cbor.Marshal(ov)
	if err != nil {
		return err
	}
	m.mu.Lock()
	m.rvBlobs[ov.Header.Val.GUID] = rvEntry{blob, vb, exp}
	m.mu.Unlock()
	tok, _ := m.TokenFromContext(ctx)
	m.J.Add(Event{Kind: "SetRVBlob", GUID: ov.Header.Val.GUID, Token: tok, Exp: exp})
	return nil
}

// RVBlob implements fdo.RendezvousBlobPersistentState.
func (m *Mem) RVBlob(ctx context.Context, g protocol.GUID) (*cose.Sign1[protocol.To1d, []byte], *fdo.Voucher, error) {
	m.mu.Lock()
	e, ok := m.rvBlobs[g]
	m.mu.Unlock()
	if !ok || time.Now().After(e.exp) {
		return nil, nil, fdo.ErrNotFound
	}
	var to1d cose.Sign1[protocol.To1d, []byte]
	if err := cbor.Unmarshal(e.to1d, &to1d); err != nil {
		return nil, nil, err
	}
	var ov fdo.Voucher
	if err := cbor.Unmarshal(e.voucher, &ov); err != nil {
		return nil, nil, err
	}
	return &to1d, &ov, nil
}

// RVBlobBytes returns the stored encodings for a GUID.
func (m *Mem) RVBlobBytes(g protocol.GUID) (to1d, voucher []byte, exp time.Time, ok bool) {
	m.mu.Lock()
	defer m.mu.Unlock()
	e, ok := m.rvBlobs[g]
	return e.to1d, e.voucher, e.exp, ok
}

// SetRVBlobExpiry rewrites the expiry of a stored blob (clock positions).
func (m *Mem) SetRVBlobExpiry(g protocol.GUID, exp time.Time) {
	m.mu.Lock()
	defer m.mu.Unlock()
	if e, ok := m.rvBlobs[g]; ok {
		e.exp = exp
		m.rvBlobs[g] = e
	}
}

func rsaBitsFor(typ protocol.KeyType, bits int) int {
	switch typ {
	case protocol.Rsa2048RestrKeyType:
		return 2048
	case protocol.RsaPkcsKeyType, protocol.RsaPssKeyType:
		return bits
	}
	return 0
}

// AddManufacturerKey registers a manufacturer key.
func (m *Mem) AddManufacturerKey(typ protocol.KeyType, bits int, key crypto.Signer, chain []*x509.Certificate) {
	m.mfgKeys[keyID{typ, rsaBitsFor(typ, bits)}] = keyEntry{key, chain}
}

// AddOwnerKey registers an owner key.
func (m *Mem) AddOwnerKey(typ protocol.KeyType, bits int, key crypto.Signer, chain []*x509.Certificate) {
	m.ownKeys[keyID{typ, rsaBitsFor(typ, bits)}] = keyEntry{key, chain}
}

// ManufacturerKey returns the manufacturer key of a type.
func (m *Mem) ManufacturerKey(ctx context.Context, typ protocol.KeyType, bits int) (crypto.Signer, []*x509.Certificate, error) {
	e, ok := m.mfgKeys[keyID{typ, rsaBitsFor(typ, bits)}]
	if !ok {
		return nil, nil, fdo.ErrNotFound
	}
	return e.key, e.chain, nil
}

// OwnerKey implements fdo.OwnerKeyPersistentState.
func (m *Mem) OwnerKey(ctx context.Context, typ protocol.KeyType, bits int) (crypto.Signer, []*x509.Certificate, error) {
	e, ok := m.ownKeys[keyID{typ, rsaBitsFor(typ, bits)}]
	if !ok {
		return nil, nil, fdo.ErrNotFound
	}
	if m.NoOwnerChain {
		return e.key, nil, nil // an owner key stored without a certificate chain (allowed by the key store's contract)
	}
	return e.key, e.chain, nil
}

// SessionCrypter returns the tunnel keys of a TO2 session (for the harness'
// man-in-the-middle, which plays an attacker but also needs the ground truth).
func (m *Mem) SessionCrypter(token string) (*kex.SessionCrypter, bool) {
	m.mu.Lock()
	s, ok := m.sessions[token]
	if !ok {
		s, ok = m.ended[token]
	}
	var suite kex.Suite
	var b []byte
	if ok {
		suite, b = s.xSuite, s.xState
	}
	m.mu.Unlock()
	if !ok || b == nil {
		return nil, false
	}
	sess := suite.New(nil, m.XSessionBlankCipher)
	if err := sess.(encoding.BinaryUnmarshaler).UnmarshalBinary(b); err != nil {
		return nil, false
	}
	switch x := sess.(type) {
	case *kex.ECDHSession:
		return &x.SessionCrypter, len(x.SEK) > 0
	case *kex.DHSession:
		return &x.SessionCrypter, len(x.SEK) > 0
	case *kex.OAEPSession:
		return &x.SessionCrypter, len(x.SEK) > 0
	}
	return nil, false
}
