package deploy

import (
	"context"
	"crypto"
	"crypto/x509"
	"fmt"
	"os"
	"path/filepath"
	"sync/atomic"
	"time"

	fdo "github.com/fido-device-onboard/go-fdo"
	"github.com/fido-device-onboard/go-fdo/cose"
	"github.com/fido-device-onboard/go-fdo/protocol"
	"github.com/fido-device-onboard/go-fdo/sqlite"

	"verif/harness/keys"
)

// JournalDB decorates the real SQLite backend with the effect journal.
type JournalDB struct {
	*sqlite.DB
	J *Journal
}

// NewToken records the call.
func (d *JournalDB) NewToken(ctx context.Context, p protocol.Protocol) (string, error) {
	tok, err := d.DB.NewToken(ctx, p)
	if err == nil {
		d.J.Add(Event{Kind: "NewToken", Token: tok, Proto: p})
	}
	return tok, err
}

// InvalidateToken records the call.
func (d *JournalDB) InvalidateToken(ctx context.Context) error {
	tok, _ := d.DB.TokenFromContext(ctx)
	err := d.DB.InvalidateToken(ctx)
	if err == nil {
		d.J.Add(Event{Kind: "InvalidateToken", Token: tok})
	}
	return err
}

// AddVoucher records the call.
func (d *JournalDB) AddVoucher(ctx context.Context, ov *fdo.Voucher) error {
	err := d.DB.AddVoucher(ctx, ov)
	if err == nil {
		tok, _ := d.DB.TokenFromContext(ctx)
		d.J.Add(Event{Kind: "AddVoucher", GUID: ov.Header.Val.GUID, Token: tok})
	}
	return err
}

// ReplaceVoucher records the call.
func (d *JournalDB) ReplaceVoucher(ctx context.Context, g protocol.GUID, ov *fdo.Voucher) error {
	err := d.DB.ReplaceVoucher(ctx, g, ov)
	if err == nil {
		tok, _ := d.DB.TokenFromContext(ctx)
		d.J.Add(Event{Kind: "ReplaceVoucher", GUID: g, GUID2: ov.Header.Val.GUID, Token: tok})
	}
	return err
}

// RemoveVoucher records the call.
func (d *JournalDB) RemoveVoucher(ctx context.Context, g protocol.GUID) (*fdo.Voucher, error) {
	ov, err := d.DB.RemoveVoucher(ctx, g)
	if err == nil {
		d.J.Add(Event{Kind: "RemoveVoucher", GUID: g})
	}
	return ov, err
}

// SetRVBlob records the call.
func (d *JournalDB) SetRVBlob(ctx context.Context, ov *fdo.Voucher, to1d *cose.Sign1[protocol.To1d, []byte], exp time.Time) error {
	err := d.DB.SetRVBlob(ctx, ov, to1d, exp)
	if err == nil {
		tok, _ := d.DB.TokenFromContext(ctx)
		d.J.Add(Event{Kind: "SetRVBlob", GUID: ov.Header.Val.GUID, Token: tok, Exp: exp})
	}
	return err
}

type sqliteKeys struct{ db *sqlite.DB }

func (k sqliteKeys) AddManufacturerKey(typ protocol.KeyType, bits int, key crypto.Signer, chain []*x509.Certificate) {
	if err := k.db.AddManufacturerKey(typ, key, chain); err != nil {
		panic(err)
	}
}
func (k sqliteKeys) AddOwnerKey(typ protocol.KeyType, bits int, key crypto.Signer, chain []*x509.Certificate) {
	if err := k.db.AddOwnerKey(typ, key, chain); err != nil {
		panic(err)
	}
}

var scratchSeq atomic.Int64

// ScratchDir returns a fresh scratch directory under the harness work area
// (never /tmp); the caller removes it.
func ScratchDir() string {
	base := os.Getenv("VERIF_OUT")
	if base == "" {
		base = filepath.Join(os.TempDir(), "verif-scratch")
	}
	dir := filepath.Join(base, fmt.Sprintf("scratch-%d-%d", os.Getpid(), scratchSeq.Add(1)))
	if err := os.MkdirAll(dir, 0o755); err != nil {
		panic(err)
	}
	return dir
}

// OpenSQLite opens (or creates) the database file and registers key #keyIdx of
// every kind when the file is new.
func OpenSQLite(path string, keyIdx int, fresh bool) (*sqlite.DB, error) {
	db, err := sqlite.Open(path, "")
	if err != nil {
		return nil, err
	}
	if fresh {
		RegisterKeys(sqliteKeys{db}, keyIdx)
	}
	return db, nil
}

// NewSQLiteService builds a service over the real SQLite backend.
func NewSQLiteService(name, path string, keyIdx int, fresh bool) (*Service, *sqlite.DB, error) {
	db, err := OpenSQLite(path, keyIdx, fresh)
	if err != nil {
		return nil, nil, err
	}
	j := &Journal{}
	s := NewService(name, &JournalDB{DB: db, J: j}, nil, j)
	return s, db, nil
}

var _ = keys.Kinds
