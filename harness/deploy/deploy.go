package deploy

import (
	"bytes"
	"context"
	"crypto"
	"crypto/ecdsa"
	"crypto/hmac"
	"crypto/rand"
	"crypto/rsa"
	"crypto/sha256"
	"crypto/sha512"
	"crypto/x509"
	"crypto/x509/pkix"
	"errors"
	"fmt"
	"hash"
	"io"
	"net/http"
	"net/http/httptest"
	"runtime"
	"strconv"
	"strings"
	"sync"

	fdo "github.com/fido-device-onboard/go-fdo"
	"github.com/fido-device-onboard/go-fdo/cbor"
	"github.com/fido-device-onboard/go-fdo/cose"
	"github.com/fido-device-onboard/go-fdo/custom"
	fdohttp "github.com/fido-device-onboard/go-fdo/http"
	"github.com/fido-device-onboard/go-fdo/kex"
	"github.com/fido-device-onboard/go-fdo/protocol"
	"github.com/fido-device-onboard/go-fdo/serviceinfo"

	"verif/harness/keys"
)

// Config is one crypto configuration of an onboarding.
type Config struct {
	Key    string `json:"key"`    // P-256 P-384 RSA2048RESTR RSAPKCS-3072 RSAPSS-2048 RSAPSS-3072 (also RSAPKCS-2048)
	Enc    string `json:"enc"`    // x509 x5chain cose
	Kex    string `json:"kex"`    // kex.Suite name
	Cipher string `json:"cipher"` // cipher suite name (kex.CipherSuiteByName)
}

// KeyNames are the six key types of the FDO specification as named in the checks.
var KeyNames = []string{"P-256", "P-384", "RSA2048RESTR", "RSAPKCS-3072", "RSAPSS-2048", "RSAPSS-3072"}

// EncNames are the public key encodings.
var EncNames = []string{"x509", "x5chain", "cose"}

// KexNames are the key-exchange suites.
var KexNames = []string{"ECDH256", "ECDH384", "DHKEXid14", "DHKEXid15", "ASYMKEX2048", "ASYMKEX3072"}

// CipherNames are the cipher suites.
var CipherNames = []string{"A128GCM", "A192GCM", "A256GCM", "COSEAES128CBC", "COSEAES128CTR", "COSEAES256CBC", "COSEAES256CTR"}

// KeyType returns the FDO key type and RSA size.
func (c Config) KeyType() (protocol.KeyType, int) {
	switch c.Key {
	case "P-256":
		return protocol.Secp256r1KeyType, 0
	case "P-384":
		return protocol.Secp384r1KeyType, 0
	case "RSA2048RESTR":
		return protocol.Rsa2048RestrKeyType, 2048
	case "RSAPKCS-3072":
		return protocol.RsaPkcsKeyType, 3072
	case "RSAPKCS-2048":
		return protocol.RsaPkcsKeyType, 2048
	case "RSAPSS-2048":
		return protocol.RsaPssKeyType, 2048
	case "RSAPSS-3072":
		return protocol.RsaPssKeyType, 3072
	}
	panic("unknown key name " + c.Key)
}

// Kind returns the static key-set kind for this configuration.
func (c Config) Kind() string {
	switch c.Key {
	case "P-256":
		return "ec256"
	case "P-384":
		return "ec384"
	case "RSA2048RESTR", "RSAPSS-2048", "RSAPKCS-2048":
		return "rsa2048"
	}
	return "rsa3072"
}

// PSS reports whether RSA-PSS signatures are used.
func (c Config) PSS() bool { return strings.HasPrefix(c.Key, "RSAPSS") }

// IsRSA reports whether the configuration uses RSA keys.
func (c Config) IsRSA() bool { return strings.HasPrefix(c.Key, "RSA") }

// KeyEncoding returns the FDO key encoding.
func (c Config) KeyEncoding() protocol.KeyEncoding {
	switch c.Enc {
	case "x5chain":
		return protocol.X5ChainKeyEnc
	case "cose":
		return protocol.CoseKeyEnc
	}
	return protocol.X509KeyEnc
}

// Suite returns the key exchange suite.
func (c Config) Suite() kex.Suite { return kex.Suite(c.Kex) }

// CipherID returns the cipher suite id.
func (c Config) CipherID() kex.CipherSuiteID {
	id, _ := kex.CipherSuiteByName(c.Cipher)
	return id
}

// DefaultKex returns a key exchange suite that is valid for the key type.
func DefaultKex(key string) string {
	switch key {
	case "P-256":
		return "ECDH256"
	case "P-384":
		return "ECDH384"
	case "RSA2048RESTR", "RSAPSS-2048", "RSAPKCS-2048":
		return "DHKEXid14"
	}
	return "DHKEXid15"
}

// Key indices in the static key set.
const (
	KeyMfg      = 0
	KeyOwner1   = 1
	KeyOwner2   = 2
	KeyStranger = 3
	KeyDevice   = 4
	KeyDevice2  = 5
)

// ---------------------------------------------------------------------------
// owner module state machine (per token)
// ---------------------------------------------------------------------------

// ModuleFactory creates the ordered owner modules for a session.
type ModuleFactory func(ctx context.Context) []NamedModule

// NamedModule pairs an owner module with its name.
type NamedModule struct {
	Name string
	Mod  serviceinfo.OwnerModule
}

type moduleState struct {
	mods []NamedModule
	idx  int
}

// ModuleSM is a ModuleStateMachine that keeps state per session token.
type ModuleSM struct {
	Tokens  interface{ TokenFromContext(context.Context) (string, bool) }
	Factory ModuleFactory
	J       *Journal

	mu    sync.Mutex
	state map[string]*moduleState
}

func (m *ModuleSM) st(ctx context.Context, create bool) *moduleState {
	tok, _ := m.Tokens.TokenFromContext(ctx)
	m.mu.Lock()
	defer m.mu.Unlock()
	if m.state == nil {
		m.state = map[string]*moduleState{}
	}
	s := m.state[tok]
	if s == nil && create {
		s = &moduleState{idx: -1}
		if m.Factory != nil {
			s.mods = m.Factory(ctx)
		}
		m.state[tok] = s
	}
	return s
}

// Module implements serviceinfo.ModuleStateMachine.
func (m *ModuleSM) Module(ctx context.Context) (string, serviceinfo.OwnerModule, error) {
	tok, _ := m.Tokens.TokenFromContext(ctx)
	m.J.Add(Event{Kind: "Module", Token: tok})
	s := m.st(ctx, false)
	if s == nil || s.idx < 0 {
		return "", nil, fmt.Errorf("NextModule never called")
	}
	if s.idx >= len(s.mods) {
		return "", nil, fmt.Errorf("NextModule already returned false")
	}
	return s.mods[s.idx].Name, s.mods[s.idx].Mod, nil
}

// NextModule implements serviceinfo.ModuleStateMachine.
func (m *ModuleSM) NextModule(ctx context.Context) (bool, error) {
	tok, _ := m.Tokens.TokenFromContext(ctx)
	m.J.Add(Event{Kind: "NextModule", Token: tok})
	s := m.st(ctx, true)
	s.idx++
	return s.idx < len(s.mods), nil
}

// CleanupModules implements serviceinfo.ModuleStateMachine.
func (m *ModuleSM) CleanupModules(ctx context.Context) {
	tok, _ := m.Tokens.TokenFromContext(ctx)
	m.mu.Lock()
	delete(m.state, tok)
	m.mu.Unlock()
}

// ---------------------------------------------------------------------------
// Service: one server (state + responders + handler)
// ---------------------------------------------------------------------------

// ServerState is what a Service needs from its backend.
type ServerState interface {
	protocol.TokenService
	fdo.DISessionState
	fdo.TO0SessionState
	fdo.TO1SessionState
	fdo.TO2SessionState
	fdo.RendezvousBlobPersistentState
	fdo.OwnerVoucherPersistentState
	fdo.OwnerKeyPersistentState
	fdo.VoucherReseller
	ManufacturerKey(ctx context.Context, keyType protocol.KeyType, rsaBits int) (crypto.Signer, []*x509.Certificate, error)
}

// Service is one FDO server instance.
type Service struct {
	Name    string
	State   ServerState
	Mem     *Mem // non-nil when State is the in-memory backend
	J       *Journal
	DI      *fdo.DIServer[custom.DeviceMfgInfo]
	TO0     *fdo.TO0Server
	TO1     *fdo.TO1Server
	TO2     *fdo.TO2Server
	Handler *fdohttp.Handler
	Modules *ModuleSM

	// policy knobs (read at request time)
	Reuse        bool
	RvInfo       [][]protocol.RvInstruction
	MfgBits      int // RSA size of the manufacturer key used for RSAPKCS / RSAPSS
	DevCAKey     crypto.Signer
	DevCAChain   []*x509.Certificate
	OwnerMTU     uint16 // MaxDeviceServiceInfoSize (0 = unset)
	AutoExtendTo crypto.PublicKey
}

// NewMemService builds a service on a fresh in-memory backend whose
// manufacturer and owner keys are key #keyIdx of every kind.
func NewMemService(name string, keyIdx int) *Service {
	mem := NewMem()
	RegisterKeys(mem, keyIdx)
	return NewService(name, mem, mem, mem.J)
}

// KeyRegistrar is implemented by backends that can hold keys.
type KeyRegistrar interface {
	AddManufacturerKey(typ protocol.KeyType, bits int, key crypto.Signer, chain []*x509.Certificate)
	AddOwnerKey(typ protocol.KeyType, bits int, key crypto.Signer, chain []*x509.Certificate)
}

// RegisterKeys registers key #idx of every kind as manufacturer and owner key.
func RegisterKeys(r KeyRegistrar, idx int) {
	for _, k := range []struct {
		typ  protocol.KeyType
		bits int
		kind string
	}{
		{protocol.Secp256r1KeyType, 0, "ec256"},
		{protocol.Secp384r1KeyType, 0, "ec384"},
		{protocol.Rsa2048RestrKeyType, 2048, "rsa2048"},
		{protocol.RsaPkcsKeyType, 2048, "rsa2048"},
		{protocol.RsaPkcsKeyType, 3072, "rsa3072"},
		{protocol.RsaPssKeyType, 2048, "rsa2048"},
		{protocol.RsaPssKeyType, 3072, "rsa3072"},
	} {
		key := keys.Get(k.kind, idx)
		chain := certChainFor(k.kind, idx)
		r.AddManufacturerKey(k.typ, k.bits, key, chain)
		r.AddOwnerKey(k.typ, k.bits, key, chain)
	}
}

var chainCache sync.Map

func certChainFor(kind string, idx int) []*x509.Certificate {
	id := fmt.Sprintf("%s-%d", kind, idx)
	if v, ok := chainCache.Load(id); ok {
		return v.([]*x509.Certificate)
	}
	// keys with an odd index get a two-certificate chain [leaf, issuing CA] (the CA is another
	// static key), the others a single self-signed certificate, so that both X5CHAIN shapes
	// occur wherever chains are used (the key of a chain is its FIRST certificate's)
	var c []*x509.Certificate
	if idx == 1 || idx == 3 || idx == 5 { // owner 1, stranger, second device; not the device CA (#7)
		c = keys.Chain(keys.Get(kind, idx).Public(), "key "+id, keys.Get(kind, (idx+3)%6))
	} else {
		c = keys.SelfSigned(keys.Get(kind, idx), "key "+id)
	}
	chainCache.Store(id, c)
	return c
}

// ChainFor returns the (cached) self-signed certificate chain of a static key.
func ChainFor(kind string, idx int) []*x509.Certificate { return certChainFor(kind, idx) }

// NewService wires the responders and the HTTP handler over a backend.
func NewService(name string, state ServerState, mem *Mem, j *Journal) *Service {
	s := &Service{Name: name, State: state, Mem: mem, J: j, RvInfo: [][]protocol.RvInstruction{}, MfgBits: 3072}
	s.DevCAKey = keys.Get("ec384", 7)
	s.DevCAChain = certChainFor("ec384", 7)
	s.Modules = &ModuleSM{Tokens: state, J: j}
	s.DI = &fdo.DIServer[custom.DeviceMfgInfo]{
		Session:  state,
		Vouchers: state,
		SignDeviceCertificate: func(info *custom.DeviceMfgInfo) ([]*x509.Certificate, error) {
			return custom.SignDeviceCertificate(s.DevCAKey, s.DevCAChain)(info)
		},
		DeviceInfo: func(ctx context.Context, info *custom.DeviceMfgInfo, _ []*x509.Certificate) (string, protocol.PublicKey, error) {
			if info == nil {
				return "", protocol.PublicKey{}, fmt.Errorf("no device manufacturing info")
			}
			bits := s.MfgBits
			key, chain, err := state.ManufacturerKey(ctx, info.KeyType, bits)
			if err != nil {
				return "", protocol.PublicKey{}, err
			}
			pk, err := EncodePublicKey(info.KeyType, info.KeyEncoding, key.Public(), chain)
			if err != nil {
				return "", protocol.PublicKey{}, err
			}
			return info.DeviceInfo, *pk, nil
		},
		BeforeVoucherPersist: func(ctx context.Context, ov *fdo.Voucher) error {
			if s.AutoExtendTo == nil {
				return nil
			}
			mfgKey := ov.Header.Val.ManufacturerKey
			signer, _, err := state.ManufacturerKey(ctx, mfgKey.Type, mfgKey.RsaBits())
			if err != nil {
				return err
			}
			x, err := Extend(ov, signer, s.AutoExtendTo, nil)
			if err != nil {
				return err
			}
			*ov = *x
			return nil
		},
		RvInfo: func(context.Context, *fdo.Voucher) ([][]protocol.RvInstruction, error) { return s.RvInfo, nil },
	}
	s.TO0 = &fdo.TO0Server{Session: state, RVBlobs: state}
	s.TO1 = &fdo.TO1Server{Session: state, RVBlobs: state}
	s.TO2 = &fdo.TO2Server{
		Session: state, Modules: s.Modules, Vouchers: state, OwnerKeys: state, VouchersForExtension: state,
		RvInfo:          func(context.Context, fdo.Voucher) ([][]protocol.RvInstruction, error) { return s.RvInfo, nil },
		ReuseCredential: func(context.Context, fdo.Voucher) (bool, error) { return s.Reuse, nil },
	}
	s.TO2.MaxDeviceServiceInfoSize = func(context.Context, fdo.Voucher) (uint16, error) {
		if s.OwnerMTU == 0 {
			return serviceinfo.DefaultMTU, nil
		}
		return s.OwnerMTU, nil
	}
	s.Handler = &fdohttp.Handler{Tokens: state, DIResponder: s.DI, TO0Responder: s.TO0, TO1Responder: s.TO1, TO2Responder: s.TO2}
	return s
}

// EncodePublicKey builds an FDO PublicKey in the requested encoding.
func EncodePublicKey(typ protocol.KeyType, enc protocol.KeyEncoding, pub crypto.PublicKey, chain []*x509.Certificate) (*protocol.PublicKey, error) {
	if enc == protocol.X5ChainKeyEnc {
		return protocol.NewPublicKey(typ, chain, false)
	}
	switch p := pub.(type) {
	case *ecdsa.PublicKey:
		return protocol.NewPublicKey(typ, p, enc == protocol.CoseKeyEnc)
	case *rsa.PublicKey:
		return protocol.NewPublicKey(typ, p, enc == protocol.CoseKeyEnc)
	}
	return nil, fmt.Errorf("unsupported key %T", pub)
}

// Extend calls fdo.ExtendVoucher with the dynamic type of next.
func Extend(ov *fdo.Voucher, signer crypto.Signer, next crypto.PublicKey, extra map[int][]byte) (*fdo.Voucher, error) {
	switch n := next.(type) {
	case *ecdsa.PublicKey:
		return fdo.ExtendVoucher(ov, signer, n, extra)
	case *rsa.PublicKey:
		return fdo.ExtendVoucher(ov, signer, n, extra)
	case []*x509.Certificate:
		return fdo.ExtendVoucher(ov, signer, n, extra)
	}
	return nil, fmt.Errorf("unsupported next owner key %T", next)
}

// ---------------------------------------------------------------------------
// Link: client side of a connection with a man-in-the-middle stage
// ---------------------------------------------------------------------------

// Exchange is one recorded request/response pair.
type Exchange struct {
	ReqType    uint8
	ReqBody    []byte // as sent by the client
	ReqToken   string
	RespType   uint8
	RespStatus int
	RespBody   []byte // as produced by the server (before response tampering)
	RespToken  string
	Delivered  []byte // response body delivered to the client
	Dropped    string // "request" / "response" when lost
	Panic      string
}

// Action tells the MITM what to do with a message.
type Action struct {
	Body     []byte // replacement body (nil = unchanged)
	DropErr  error  // non-nil: do not deliver; the client sees this transport error
	MsgType  *uint8 // override the Message-Type header (responses) or path (requests)
	Status   int    // override HTTP status (responses), 0 = unchanged
	Token    *string
	Synth    bool // (request stage) do not forward: answer with Body/MsgType/Status directly
	NoHeader bool
	// response stage only: raw header overrides ("" deletes the header) and a declared Content-Length
	Headers map[string]string
	CLen    *int64
}

// Link connects a client to a Service in-process.
type Link struct {
	Svc        *Service
	OnRequest  func(ex *Exchange) *Action // called before the handler
	OnResponse func(ex *Exchange) *Action // called after the handler
	MaxContent int64                      // Transport.MaxContentLength (0: library default)
	lastAction *Action
	mu         sync.Mutex
	Log        []*Exchange
}

// NewLink creates a link to a service.
func NewLink(s *Service) *Link { return &Link{Svc: s} }

// Transport returns a fresh fdo HTTP transport (own token jar) over this link.
func (l *Link) Transport() *fdohttp.Transport {
	return &fdohttp.Transport{BaseURL: "http://" + l.Svc.Name + ".test", Client: &http.Client{Transport: l}, MaxContentLength: l.MaxContent}
}

// Exchanges returns a copy of the log.
func (l *Link) Exchanges() []*Exchange {
	l.mu.Lock()
	defer l.mu.Unlock()
	return append([]*Exchange{}, l.Log...)
}

// SentTypes lists request message types in order.
func (l *Link) SentTypes() []uint8 {
	var out []uint8
	for _, e := range l.Exchanges() {
		out = append(out, e.ReqType)
	}
	return out
}

// ErrDropped is the transport error reported for a dropped message.
var ErrDropped = errors.New("mitm: message lost")

func pathType(p string) uint8 {
	i := strings.LastIndex(p, "/")
	n, _ := strconv.Atoi(p[i+1:])
	return uint8(n)
}

// Serve runs one request through the handler, recovering panics.
func Serve(h http.Handler, req *http.Request) (rec *httptest.ResponseRecorder, panicked string) {
	rec = httptest.NewRecorder()
	func() {
		defer func() {
			if p := recover(); p != nil {
				buf := make([]byte, 1<<14)
				buf = buf[:runtime.Stack(buf, false)]
				panicked = fmt.Sprintf("%v\n%s", p, buf)
			}
		}()
		h.ServeHTTP(rec, req)
	}()
	return rec, panicked
}

// PanicError is returned to the client when the handler panicked.
type PanicError struct{ Msg string }

func (p *PanicError) Error() string { return "server handler panicked: " + p.Msg }

// RoundTrip implements http.RoundTripper.
func (l *Link) RoundTrip(req *http.Request) (*http.Response, error) {
	var body []byte
	if req.Body != nil {
		body, _ = io.ReadAll(req.Body)
		_ = req.Body.Close()
	}
	ex := &Exchange{ReqType: pathType(req.URL.Path), ReqBody: body, ReqToken: strings.TrimPrefix(req.Header.Get("Authorization"), "Bearer ")}
	l.mu.Lock()
	l.Log = append(l.Log, ex)
	l.mu.Unlock()

	sendBody := body
	if l.OnRequest != nil {
		if a := l.OnRequest(ex); a != nil {
			if a.DropErr != nil {
				ex.Dropped = "request"
				return nil, a.DropErr
			}
			if a.Synth {
				return synthResponse(req, a), nil
			}
			if a.Body != nil {
				sendBody = a.Body
			}
			if a.MsgType != nil {
				req.URL.Path = req.URL.Path[:strings.LastIndex(req.URL.Path, "/")+1] + strconv.Itoa(int(*a.MsgType))
			}
			if a.Token != nil {
				if *a.Token == "" {
					req.Header.Del("Authorization")
				} else {
					req.Header.Set("Authorization", "Bearer "+*a.Token)
				}
			}
		}
	}
	r2 := req.Clone(req.Context())
	r2.Body = io.NopCloser(bytes.NewReader(sendBody))
	r2.ContentLength = int64(len(sendBody))
	rec, panicked := Serve(l.Svc.Handler, r2)
	if panicked != "" {
		ex.Panic = panicked
		return nil, &PanicError{panicked}
	}
	resp := rec.Result()
	resp.Request = req
	rb, _ := io.ReadAll(resp.Body)
	ex.RespStatus = resp.StatusCode
	ex.RespBody = rb
	ex.RespToken = strings.TrimPrefix(resp.Header.Get("Authorization"), "Bearer ")
	if mt, err := strconv.Atoi(resp.Header.Get("Message-Type")); err == nil {
		ex.RespType = uint8(mt)
	}
	deliver := rb
	if l.OnResponse != nil {
		if a := l.OnResponse(ex); a != nil {
			l.lastAction = a
			if a.DropErr != nil {
				ex.Dropped = "response"
				return nil, a.DropErr
			}
			if a.Body != nil {
				deliver = a.Body
			}
			if a.MsgType != nil {
				resp.Header.Set("Message-Type", strconv.Itoa(int(*a.MsgType)))
			}
			if a.Status != 0 {
				resp.StatusCode = a.Status
				resp.Status = http.StatusText(a.Status)
			}
			if a.Token != nil {
				resp.Header.Set("Authorization", "Bearer "+*a.Token)
			}
		}
	}
	ex.Delivered = deliver
	resp.Body = io.NopCloser(bytes.NewReader(deliver))
	resp.ContentLength = int64(len(deliver))
	resp.Header.Set("Content-Length", strconv.Itoa(len(deliver)))
	if l.OnResponse != nil && l.lastAction != nil {
		for k, v := range l.lastAction.Headers {
			if v == "" {
				resp.Header.Del(k)
			} else {
				resp.Header.Set(k, v)
			}
		}
		if l.lastAction.CLen != nil {
			resp.ContentLength = *l.lastAction.CLen
			resp.Header.Set("Content-Length", strconv.FormatInt(*l.lastAction.CLen, 10))
		}
		l.lastAction = nil
	}
	return resp, nil
}

func synthResponse(req *http.Request, a *Action) *http.Response {
	status := a.Status
	if status == 0 {
		status = 200
	}
	h := http.Header{}
	h.Set("Content-Type", "application/cbor")
	if a.MsgType != nil {
		h.Set("Message-Type", strconv.Itoa(int(*a.MsgType)))
	}
	if a.Token != nil {
		h.Set("Authorization", "Bearer "+*a.Token)
	}
	h.Set("Content-Length", strconv.Itoa(len(a.Body)))
	return &http.Response{StatusCode: status, Status: http.StatusText(status), Header: h, Body: io.NopCloser(bytes.NewReader(a.Body)),
		ContentLength: int64(len(a.Body)), Request: req, Proto: "HTTP/1.1", ProtoMajor: 1, ProtoMinor: 1}
}

// ---------------------------------------------------------------------------
// Device
// ---------------------------------------------------------------------------

// Device is a device with its key, secret and credential.
type Device struct {
	Cfg     Config
	Key     crypto.Signer
	Secret  []byte
	Cred    *fdo.DeviceCredential
	Serial  string
	Info    string
	Modules map[string]serviceinfo.DeviceModule
	MTU     uint16
	Reuse   bool // AllowCredentialReuse
	Devmod  serviceinfo.Devmod
	// HmacFailAt, when set, gives the device hardware-style HMAC objects (FlakyHmac) whose
	// n-th Sum fails
	HmacFailAt *int
	// NoHmac384: the device is configured without an HMAC-SHA384 engine (TO2Config.HmacSha384 == nil),
	// which is documented as legal for devices whose keys pair with SHA-256
	NoHmac384 bool
}

// NewDevice creates a device using static key #keyIdx of the config's kind.
func NewDevice(cfg Config, keyIdx int) *Device {
	secret := make([]byte, 32)
	_, _ = rand.Read(secret)
	return &Device{Cfg: cfg, Key: keys.Get(cfg.Kind(), keyIdx), Secret: secret, Serial: fmt.Sprintf("sn-%d", keyIdx), Info: "harness-device",
		Devmod: serviceinfo.Devmod{Os: "linux", Arch: "amd64", Version: "1", Device: "dev", FileSep: ";", Bin: "amd64"}}
}

// Hmacs returns fresh HMAC instances keyed with the device secret.
func (d *Device) Hmacs() (h256, h384 hash.Hash) {
	return hmac.New(sha256.New, d.Secret), hmac.New(sha512.New384, d.Secret)
}

// DI runs device initialisation against a manufacturer service.
func (d *Device) DI(ctx context.Context, l *Link) error {
	csrDER, err := x509.CreateCertificateRequest(rand.Reader, &x509.CertificateRequest{Subject: pkix.Name{CommonName: d.Serial}}, d.Key)
	if err != nil {
		return err
	}
	csr, err := x509.ParseCertificateRequest(csrDER)
	if err != nil {
		return err
	}
	kt, bits := d.Cfg.KeyType()
	if bits != 0 && l.Svc.MfgBits != bits {
		l.Svc.MfgBits = bits // (concurrent fleets configure the size up front, so this never writes there)
	}
	h256, h384 := d.Hmacs()
	cred, err := fdo.DI(ctx, l.Transport(), custom.DeviceMfgInfo{KeyType: kt, KeyEncoding: d.Cfg.KeyEncoding(), SerialNumber: d.Serial, DeviceInfo: d.Info,
		CertInfo: cbor.X509CertificateRequest(*csr)}, fdo.DIConfig{HmacSha256: h256, HmacSha384: h384, Key: d.Key, PSS: d.Cfg.PSS()})
	if err != nil {
		return err
	}
	d.Cred = cred
	return nil
}

// TO1 runs TO1 against a rendezvous service.
func (d *Device) TO1(ctx context.Context, l *Link) (*cose.Sign1[protocol.To1d, []byte], error) {
	return fdo.TO1(ctx, l.Transport(), *d.Cred, d.Key, &fdo.TO1Options{PSS: d.Cfg.PSS()})
}

// FlakyHmac wraps an HMAC like a hardware-backed one (e.g. a TPM sequence): a failing
// computation returns no digest from Sum and reports the failure through Err() until the
// next Reset. FailAt is the ordinal of the Sum call (0-based, counted per object) that fails;
// -1 never.
type FlakyHmac struct {
	hash.Hash
	FailAt int
	sums   int
	err    error
}

// Sum implements hash.Hash.
func (f *FlakyHmac) Sum(b []byte) []byte {
	n := f.sums
	f.sums++
	if n == f.FailAt {
		f.err = errors.New("hmac engine: sequence failed (injected)")
		return nil
	}
	return f.Hash.Sum(b)
}

// Reset implements hash.Hash and clears a pending error.
func (f *FlakyHmac) Reset() { f.err = nil; f.Hash.Reset() }

// Err reports a failure since the last Reset.
func (f *FlakyHmac) Err() error { return f.err }

// TO2Config builds the library's TO2 configuration for this device.
func (d *Device) TO2Config() fdo.TO2Config {
	h256, h384 := d.Hmacs()
	if d.HmacFailAt != nil {
		h256, h384 = &FlakyHmac{Hash: h256, FailAt: *d.HmacFailAt}, &FlakyHmac{Hash: h384, FailAt: *d.HmacFailAt}
	}
	if d.NoHmac384 {
		h384 = nil
	}
	return fdo.TO2Config{Cred: *d.Cred, HmacSha256: h256, HmacSha384: h384, Key: d.Key, PSS: d.Cfg.PSS(), Devmod: d.Devmod, DeviceModules: d.Modules,
		KeyExchange: d.Cfg.Suite(), CipherSuite: d.Cfg.CipherID(), MaxServiceInfoSizeReceive: d.MTU, AllowCredentialReuse: d.Reuse}
}

// TO2 runs TO2 against an owner service. On success with a replacement
// credential the device's credential is updated.
func (d *Device) TO2(ctx context.Context, l *Link, to1d *cose.Sign1[protocol.To1d, []byte]) (*fdo.DeviceCredential, error) {
	cred, err := fdo.TO2(ctx, l.Transport(), to1d, d.TO2Config())
	if err == nil && cred != nil {
		d.Cred = cred
	}
	return cred, err
}

// ---------------------------------------------------------------------------
// helpers for moving vouchers between services
// ---------------------------------------------------------------------------

// OwnerPublic returns owner key #idx public material suitable for ExtendVoucher
// in the configuration's encoding (chain for x5chain, key otherwise).
func OwnerPublic(cfg Config, idx int) crypto.PublicKey {
	if cfg.Enc == "x5chain" {
		return certChainFor(cfg.Kind(), idx)
	}
	return keys.Get(cfg.Kind(), idx).Public()
}

// TransferVoucher takes the voucher for guid from `from`, extends it with
// from's key (mfg or owner, whichever matches the current owner) to owner key
// #toIdx, and stores it in `to`.
func TransferVoucher(ctx context.Context, cfg Config, from *Service, fromIdx int, to *Service, toIdx int, guid protocol.GUID) (*fdo.Voucher, error) {
	ov, err := from.State.RemoveVoucher(ctx, guid)
	if err != nil {
		return nil, fmt.Errorf("remove voucher: %w", err)
	}
	x, err := Extend(ov, keys.Get(cfg.Kind(), fromIdx), OwnerPublic(cfg, toIdx), nil)
	if err != nil {
		return nil, fmt.Errorf("extend: %w", err)
	}
	if err := to.State.AddVoucher(ctx, x); err != nil {
		return nil, err
	}
	return x, nil
}

// RegisterTO0 performs TO0 for guid from owner service `owner` at rendezvous service rv.
func RegisterTO0(ctx context.Context, owner *Service, rv *Link, guid protocol.GUID, addrs []protocol.RvTO2Addr, ttl uint32) (uint32, error) {
	c := &fdo.TO0Client{Vouchers: owner.State, OwnerKeys: owner.State, TTL: ttl}
	return c.RegisterBlob(ctx, rv.Transport(), guid, addrs)
}

// DefaultAddrs is a plausible owner address list.
func DefaultAddrs() []protocol.RvTO2Addr {
	dns := "owner.test"
	return []protocol.RvTO2Addr{{DNSAddress: &dns, Port: 8043, TransportProtocol: protocol.HTTPTransport}}
}
