package deploy

import (
	"context"
	"io"
	"sync"

	"github.com/fido-device-onboard/go-fdo/serviceinfo"
)

// Call is one recorded module callback.
type Call struct {
	Kind string // Transition Receive Yield HandleInfo ProduceInfo
	Name string
	Data []byte
	Flag bool
}

// RecDeviceModule is a device module that records every callback.
type RecDeviceModule struct {
	mu    sync.Mutex
	Calls []Call
	// OnReceive optionally produces a response.
	OnReceive func(name string, body []byte, respond func(string) io.Writer, yield func())
	OnYield   func(respond func(string) io.Writer, yield func())
}

func (m *RecDeviceModule) add(c Call) {
	m.mu.Lock()
	m.Calls = append(m.Calls, c)
	m.mu.Unlock()
}

// Snapshot returns the calls so far.
func (m *RecDeviceModule) Snapshot() []Call {
	m.mu.Lock()
	defer m.mu.Unlock()
	return append([]Call{}, m.Calls...)
}

// Transition implements serviceinfo.DeviceModule.
func (m *RecDeviceModule) Transition(active bool) error {
	m.add(Call{Kind: "Transition", Flag: active})
	return nil
}

// Receive implements serviceinfo.DeviceModule.
func (m *RecDeviceModule) Receive(ctx context.Context, name string, body io.Reader, respond func(string) io.Writer, yield func()) error {
	b, err := io.ReadAll(body)
	if err != nil {
		return err
	}
	m.add(Call{Kind: "Receive", Name: name, Data: b})
	if m.OnReceive != nil {
		m.OnReceive(name, b, respond, yield)
	}
	return nil
}

// Yield implements serviceinfo.DeviceModule.
func (m *RecDeviceModule) Yield(ctx context.Context, respond func(string) io.Writer, yield func()) error {
	m.add(Call{Kind: "Yield"})
	if m.OnYield != nil {
		m.OnYield(respond, yield)
	}
	return nil
}

// OwnerStep is one ProduceInfo round of a scripted owner module.
type OwnerStep struct {
	Send  []KVMsg
	Block bool // IsMoreServiceInfo
	Done  bool
}

// KVMsg is a message name with its body.
type KVMsg struct {
	Name string
	Body []byte
}

// ScriptOwnerModule is an owner module driven by a script; it records what it receives.
type ScriptOwnerModule struct {
	ModName string
	Steps   []OwnerStep
	J       *Journal
	mu      sync.Mutex
	step    int
	Got     []Call
}

// HandleInfo implements serviceinfo.OwnerModule.
func (m *ScriptOwnerModule) HandleInfo(ctx context.Context, name string, body io.Reader) error {
	b, err := io.ReadAll(body)
	if err != nil {
		return err
	}
	m.mu.Lock()
	m.Got = append(m.Got, Call{Kind: "HandleInfo", Name: name, Data: b})
	m.mu.Unlock()
	if m.J != nil {
		m.J.Add(Event{Kind: "HandleInfo", Note: m.ModName + ":" + name})
	}
	return nil
}

// ProduceInfo implements serviceinfo.OwnerModule.
func (m *ScriptOwnerModule) ProduceInfo(ctx context.Context, p *serviceinfo.Producer) (bool, bool, error) {
	m.mu.Lock()
	defer m.mu.Unlock()
	if m.J != nil {
		m.J.Add(Event{Kind: "ProduceInfo", Note: m.ModName})
	}
	if m.step >= len(m.Steps) {
		return false, true, nil
	}
	s := m.Steps[m.step]
	m.step++
	for _, kv := range s.Send {
		if err := p.WriteChunk(kv.Name, kv.Body); err != nil {
			return false, false, err
		}
	}
	return s.Block, s.Done || m.step >= len(m.Steps), nil
}

// Received returns what the module got so far.
func (m *ScriptOwnerModule) Received() []Call {
	m.mu.Lock()
	defer m.mu.Unlock()
	return append([]Call{}, m.Got...)
}
