package deploy

import (
	"bytes"
	"context"
	"fmt"
	"reflect"

	fdo "github.com/fido-device-onboard/go-fdo"
	"github.com/fido-device-onboard/go-fdo/blob"
	"github.com/fido-device-onboard/go-fdo/cbor"
	"github.com/fido-device-onboard/go-fdo/protocol"

	"verif/harness/refverify"
)

// Agreement checks that the voucher stored for the device's current GUID
// verifies against the credential the device holds (C03): header HMAC under
// the device secret, manufacturer-key hash, GUID, rendezvous info, device info
// and device-certificate hash — with the library's verification functions and
// with the independent reference on the stored bytes. "" means agreement.
func Agreement(ctx context.Context, store ServerState, mem *Mem, d *Device) string {
	ov, err := store.Voucher(ctx, d.Cred.GUID)
	if err != nil {
		return fmt.Sprintf("no voucher stored for the credential's GUID %x: %v", d.Cred.GUID, err)
	}
	h256, h384 := d.Hmacs()
	if err := ov.VerifyHeader(h256, h384); err != nil {
		return "stored voucher: VerifyHeader under the device secret: " + err.Error()
	}
	if err := ov.VerifyManufacturerKey(d.Cred.PublicKeyHash); err != nil {
		return "stored voucher: VerifyManufacturerKey against the credential: " + err.Error()
	}
	if err := ov.VerifyCertChainHash(); err != nil {
		return "stored voucher: VerifyCertChainHash: " + err.Error()
	}
	if err := ov.VerifyDeviceCertChain(nil); err != nil {
		return "stored voucher: VerifyDeviceCertChain: " + err.Error()
	}
	if err := ov.VerifyEntries(); err != nil {
		return "stored voucher: VerifyEntries: " + err.Error()
	}
	if ov.Header.Val.GUID != d.Cred.GUID {
		return "stored voucher GUID differs from the credential"
	}
	if ov.Header.Val.DeviceInfo != d.Cred.DeviceInfo {
		return fmt.Sprintf("stored voucher DeviceInfo %q differs from the credential's %q", ov.Header.Val.DeviceInfo, d.Cred.DeviceInfo)
	}
	if ov.Header.Val.Version != d.Cred.Version {
		return "stored voucher header version differs from the credential"
	}
	a, _ := cbor.Marshal(ov.Header.Val.RvInfo)
	b, _ := cbor.Marshal(d.Cred.RvInfo)
	if !bytes.Equal(a, b) {
		return fmt.Sprintf("stored voucher RvInfo %x differs from the credential's %x", a, b)
	}
	pub, err := ov.DevicePublicKey()
	if err != nil || pub == nil {
		return fmt.Sprintf("stored voucher has no usable device certificate: %v", err)
	}
	if eq, ok := pub.(interface{ Equal(x any) bool }); ok && !reflect.ValueOf(eq).IsNil() {
		_ = eq
	}
	// reference on the stored bytes
	var raw []byte
	if mem != nil {
		raw, _ = mem.VoucherBytes(d.Cred.GUID)
	}
	if raw == nil {
		raw, _ = cbor.Marshal(ov)
	}
	rv, err := refverify.ParseVoucher(raw)
	if err != nil {
		return "reference cannot parse the stored voucher: " + err.Error()
	}
	if ok, why := rv.VerifyHeaderHmac(d.Secret); !ok {
		return "reference: " + why
	}
	if ok, why := rv.VerifyMfgKeyHash(int64(d.Cred.PublicKeyHash.Algorithm), d.Cred.PublicKeyHash.Value); !ok {
		return "reference: " + why
	}
	if ok, why := rv.VerifyCertChainHash(); !ok {
		return "reference: " + why
	}
	if ok, why := rv.VerifyEntries(); !ok {
		return "reference: " + why
	}
	if !bytes.Equal(rv.Header.GUID, d.Cred.GUID[:]) || string(rv.Header.DeviceInfo) != d.Cred.DeviceInfo {
		return "reference: GUID / DeviceInfo of the stored voucher differ from the credential"
	}
	return ""
}

// BlobRoundTrip writes the device's credential to its blob encoding and reads
// it back, replacing the in-memory credential, secret and key by the re-read ones.
func (d *Device) BlobRoundTrip() error {
	bc := blob.DeviceCredential{Active: true, DeviceCredential: *d.Cred, HmacSecret: d.Secret, PrivateKey: blob.Pkcs8Key{Signer: d.Key}}
	enc, err := cbor.Marshal(bc)
	if err != nil {
		return fmt.Errorf("encoding blob credential: %w", err)
	}
	var back blob.DeviceCredential
	if err := cbor.Unmarshal(enc, &back); err != nil {
		return fmt.Errorf("decoding blob credential: %w", err)
	}
	re, err := cbor.Marshal(back)
	if err != nil || !bytes.Equal(re, enc) {
		return fmt.Errorf("blob credential does not re-encode identically (err %v)", err)
	}
	cred := back.DeviceCredential
	d.Cred, d.Secret, d.Key = &cred, back.HmacSecret, back.PrivateKey.Signer
	return nil
}

// CredEqual compares two credentials by encoding.
func CredEqual(a, b *fdo.DeviceCredential) bool {
	x, _ := cbor.Marshal(a)
	y, _ := cbor.Marshal(b)
	return bytes.Equal(x, y)
}

var _ = protocol.GUID{}
