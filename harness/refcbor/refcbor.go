// Package refcbor is an independent RFC 8949 implementation written from the
// RFC text. It shares no code with go-fdo's cbor package and serves as the
// reference codec (C11, C12) and as the tree the mutation engine works on.
package refcbor

import (
	"bytes"
	"encoding/hex"
	"errors"
	"fmt"
	"sort"
	"strings"
)

// Kind is the CBOR major type of a node.
type Kind uint8

// Kinds.
const (
	Uint Kind = iota
	Nint
	Bytes
	Text
	Array
	Map
	Tag
	Simple // Val = simple value (20 false, 21 true, 22 null, 23 undefined), or float bits when FloatW != 0
)

func (k Kind) String() string {
	return [...]string{"uint", "nint", "bytes", "text", "array", "map", "tag", "simple"}[k]
}

// Node is one CBOR data item.
type Node struct {
	Kind   Kind
	Val    uint64  // uint value | nint argument (value is -1-Val) | tag number | simple value | float bits
	Bytes  []byte  // Bytes / Text content
	Items  []*Node // Array items; Map k0,v0,k1,v1,...; Tag: exactly one
	Inner  *Node   // for Bytes: the embedded CBOR item (bstr .cbor), when expanded
	FloatW int     // 2,4,8 for floats
	Indef  bool    // indefinite length (parser only)

	// encoder overrides used by the mutation engine
	FakeLen    uint64 // declared length/count written instead of the real one
	HasFakeLen bool
	HeadW      int // forced head argument width (1,2,4,8); 0 = shortest

	// parser annotations
	Off, End int  // byte range of the item in the parsed input
	NonCanon bool // head not shortest form (this node only)
}

// Convenience constructors.
func U(v uint64) *Node { return &Node{Kind: Uint, Val: v} }

// I builds an integer node from an int64.
func I(v int64) *Node {
	if v >= 0 {
		return &Node{Kind: Uint, Val: uint64(v)}
	}
	return &Node{Kind: Nint, Val: uint64(-(v + 1))}
}

// B builds a byte string.
func B(b []byte) *Node { return &Node{Kind: Bytes, Bytes: b} }

// T builds a text string.
func T(s string) *Node { return &Node{Kind: Text, Bytes: []byte(s)} }

// A builds an array.
func A(items ...*Node) *Node { return &Node{Kind: Array, Items: items} }

// M builds a map from k,v,k,v...
func M(kv ...*Node) *Node { return &Node{Kind: Map, Items: kv} }

// Tg builds a tag.
func Tg(num uint64, v *Node) *Node { return &Node{Kind: Tag, Val: num, Items: []*Node{v}} }

// Bool builds a bool.
func Bool(b bool) *Node {
	if b {
		return &Node{Kind: Simple, Val: 21}
	}
	return &Node{Kind: Simple, Val: 20}
}

// Null builds null.
func Null() *Node { return &Node{Kind: Simple, Val: 22} }

// Undef builds undefined.
func Undef() *Node { return &Node{Kind: Simple, Val: 23} }

// Wrap builds a bstr that wraps the encoding of inner.
func Wrap(inner *Node) *Node { return &Node{Kind: Bytes, Inner: inner} }

func head(major byte, v uint64) []byte {
	m := major << 5
	switch {
	case v < 24:
		return []byte{m | byte(v)}
	case v <= 0xff:
		return []byte{m | 24, byte(v)}
	case v <= 0xffff:
		return []byte{m | 25, byte(v >> 8), byte(v)}
	case v <= 0xffffffff:
		return []byte{m | 26, byte(v >> 24), byte(v >> 16), byte(v >> 8), byte(v)}
	default:
		return []byte{m | 27, byte(v >> 56), byte(v >> 48), byte(v >> 40), byte(v >> 32), byte(v >> 24), byte(v >> 16), byte(v >> 8), byte(v)}
	}
}

// HeadWidth encodes a head using the given argument width (0 = immediate,
// 1,2,4,8 bytes) regardless of whether it is the shortest form.
func HeadWidth(major byte, v uint64, width int) []byte {
	m := major << 5
	switch width {
	case 0:
		return []byte{m | byte(v&0x1f)}
	case 1:
		return []byte{m | 24, byte(v)}
	case 2:
		return []byte{m | 25, byte(v >> 8), byte(v)}
	case 4:
		return []byte{m | 26, byte(v >> 24), byte(v >> 16), byte(v >> 8), byte(v)}
	default:
		return []byte{m | 27, byte(v >> 56), byte(v >> 48), byte(v >> 40), byte(v >> 32), byte(v >> 24), byte(v >> 16), byte(v >> 8), byte(v)}
	}
}

// Encode returns the canonical (RFC 8949 §4.2.1 core deterministic) encoding:
// shortest heads, definite lengths, map entries sorted bytewise by encoded key.
func Encode(n *Node) []byte {
	var buf bytes.Buffer
	enc(&buf, n, true)
	return buf.Bytes()
}

// EncodeKeepOrder encodes with shortest heads but keeps map entry order as given.
func EncodeKeepOrder(n *Node) []byte {
	var buf bytes.Buffer
	enc(&buf, n, false)
	return buf.Bytes()
}

func hd(n *Node, major byte, v uint64) []byte {
	if n.HasFakeLen && major >= 2 && major <= 5 {
		v = n.FakeLen
	}
	if n.HeadW != 0 && n.HeadW >= shortestWidth(v) {
		return HeadWidth(major, v, n.HeadW)
	}
	return head(major, v)
}

func enc(w *bytes.Buffer, n *Node, sortKeys bool) {
	switch n.Kind {
	case Uint:
		w.Write(hd(n, 0, n.Val))
	case Nint:
		w.Write(hd(n, 1, n.Val))
	case Bytes:
		b := n.Bytes
		if n.Inner != nil {
			var ib bytes.Buffer
			enc(&ib, n.Inner, sortKeys)
			b = ib.Bytes()
		}
		w.Write(hd(n, 2, uint64(len(b))))
		w.Write(b)
	case Text:
		w.Write(hd(n, 3, uint64(len(n.Bytes))))
		w.Write(n.Bytes)
	case Array:
		w.Write(hd(n, 4, uint64(len(n.Items))))
		for _, it := range n.Items {
			enc(w, it, sortKeys)
		}
	case Map:
		w.Write(hd(n, 5, uint64(len(n.Items)/2)))
		type kv struct{ k, v []byte }
		kvs := make([]kv, 0, len(n.Items)/2)
		for i := 0; i+1 < len(n.Items); i += 2 {
			var kb, vb bytes.Buffer
			enc(&kb, n.Items[i], sortKeys)
			enc(&vb, n.Items[i+1], sortKeys)
			kvs = append(kvs, kv{kb.Bytes(), vb.Bytes()})
		}
		if sortKeys {
			sort.SliceStable(kvs, func(i, j int) bool { return bytes.Compare(kvs[i].k, kvs[j].k) < 0 })
		}
		for _, e := range kvs {
			w.Write(e.k)
			w.Write(e.v)
		}
	case Tag:
		w.Write(hd(n, 6, n.Val))
		enc(w, n.Items[0], sortKeys)
	case Simple:
		switch n.FloatW {
		case 2:
			w.Write([]byte{0xf9, byte(n.Val >> 8), byte(n.Val)})
		case 4:
			w.Write(HeadWidth(7, n.Val, 4))
		case 8:
			w.Write(HeadWidth(7, n.Val, 8))
		default:
			if n.Val < 24 {
				w.WriteByte(0xe0 | byte(n.Val))
			} else {
				w.Write([]byte{0xf8, byte(n.Val)})
			}
		}
	}
}

// ErrTruncated means the input ended inside an item.
var ErrTruncated = errors.New("refcbor: truncated")

// ErrMalformed means the input is not well-formed CBOR.
var ErrMalformed = errors.New("refcbor: not well-formed")

// MaxDepth bounds recursion of the reference parser.
const MaxDepth = 100000

// Parse parses the first well-formed data item (RFC 8949 Appendix C, including
// indefinite lengths and floats) and returns it with its encoded length.
func Parse(b []byte) (*Node, int, error) {
	p := &parser{b: b}
	n, err := p.item(0, false)
	if err != nil {
		return nil, 0, err
	}
	return n, p.pos, nil
}

// ParseAll parses b as exactly one item.
func ParseAll(b []byte) (*Node, error) {
	n, l, err := Parse(b)
	if err != nil {
		return nil, err
	}
	if l != len(b) {
		return nil, fmt.Errorf("refcbor: %d trailing bytes", len(b)-l)
	}
	return n, nil
}

type parser struct {
	b   []byte
	pos int
}

var errBreak = errors.New("break")

func (p *parser) arg(ai byte) (uint64, int, error) {
	switch {
	case ai < 24:
		return uint64(ai), 0, nil
	case ai == 24, ai == 25, ai == 26, ai == 27:
		w := 1 << (ai - 24)
		if p.pos+w > len(p.b) {
			return 0, 0, ErrTruncated
		}
		var v uint64
		for i := 0; i < w; i++ {
			v = v<<8 | uint64(p.b[p.pos+i])
		}
		p.pos += w
		return v, w, nil
	default:
		return 0, 0, ErrMalformed // 28..30 reserved; 31 handled by caller
	}
}

func shortestWidth(v uint64) int {
	switch {
	case v < 24:
		return 0
	case v <= 0xff:
		return 1
	case v <= 0xffff:
		return 2
	case v <= 0xffffffff:
		return 4
	}
	return 8
}

func (p *parser) item(depth int, breakable bool) (*Node, error) {
	if depth > MaxDepth {
		return nil, ErrMalformed
	}
	if p.pos >= len(p.b) {
		return nil, ErrTruncated
	}
	start := p.pos
	ib := p.b[p.pos]
	p.pos++
	major, ai := ib>>5, ib&0x1f
	n := &Node{Off: start}
	if ai == 31 {
		switch major {
		case 2, 3:
			n.Kind, n.Indef = Kind(major), true
			for {
				if p.pos >= len(p.b) {
					return nil, ErrTruncated
				}
				if p.b[p.pos] == 0xff {
					p.pos++
					break
				}
				cb := p.b[p.pos]
				if cb>>5 != major || cb&0x1f == 31 {
					return nil, ErrMalformed
				}
				c, err := p.item(depth+1, false)
				if err != nil {
					return nil, err
				}
				n.Bytes = append(n.Bytes, c.Bytes...)
			}
			n.End = p.pos
			n.NonCanon = true
			return n, nil
		case 4, 5:
			n.Kind, n.Indef = Kind(major), true
			for {
				c, err := p.item(depth+1, true)
				if err == errBreak {
					break
				}
				if err != nil {
					return nil, err
				}
				n.Items = append(n.Items, c)
			}
			if major == 5 && len(n.Items)%2 != 0 {
				return nil, ErrMalformed
			}
			n.End = p.pos
			n.NonCanon = true
			return n, nil
		case 7:
			if breakable {
				return nil, errBreak
			}
			return nil, ErrMalformed
		default:
			return nil, ErrMalformed
		}
	}
	v, w, err := p.arg(ai)
	if err != nil {
		return nil, err
	}
	if major != 7 && w != shortestWidth(v) {
		n.NonCanon = true
	}
	switch major {
	case 0:
		n.Kind, n.Val = Uint, v
	case 1:
		n.Kind, n.Val = Nint, v
	case 2, 3:
		n.Kind = Kind(major)
		if v > uint64(len(p.b)-p.pos) {
			return nil, ErrTruncated
		}
		n.Bytes = p.b[p.pos : p.pos+int(v)]
		p.pos += int(v)
	case 4, 5:
		n.Kind = Kind(major)
		cnt := v
		if major == 5 {
			if v > 1<<62 {
				return nil, ErrTruncated
			}
			cnt = 2 * v
		}
		if cnt > uint64(len(p.b)-p.pos) { // each item needs at least one byte
			return nil, ErrTruncated
		}
		n.Items = make([]*Node, 0, min(int(cnt), 1024))
		for i := uint64(0); i < cnt; i++ {
			c, err := p.item(depth+1, false)
			if err != nil {
				return nil, err
			}
			n.Items = append(n.Items, c)
		}
	case 6:
		n.Kind, n.Val = Tag, v
		c, err := p.item(depth+1, false)
		if err != nil {
			return nil, err
		}
		n.Items = []*Node{c}
	case 7:
		n.Kind, n.Val = Simple, v
		switch w {
		case 1:
			if v < 32 {
				return nil, ErrMalformed // two-byte simple < 32 is not well-formed
			}
		case 2, 4, 8:
			n.FloatW = w
		}
	}
	n.End = p.pos
	return n, nil
}

// Canonical reports whether the parsed tree used only shortest heads, definite
// lengths and bytewise-sorted, duplicate-free map keys (checked on the bytes b
// the tree was parsed from).
func Canonical(n *Node, b []byte) bool {
	ok := true
	var walk func(n *Node)
	walk = func(n *Node) {
		if n.NonCanon || n.Indef {
			ok = false
		}
		if n.Kind == Map {
			for i := 2; i+1 < len(n.Items); i += 2 {
				prev := b[n.Items[i-2].Off:n.Items[i-2].End]
				cur := b[n.Items[i].Off:n.Items[i].End]
				if bytes.Compare(prev, cur) >= 0 {
					ok = false
				}
			}
		}
		for _, c := range n.Items {
			walk(c)
		}
	}
	walk(n)
	return ok
}

// Clone deep-copies a tree.
func Clone(n *Node) *Node {
	if n == nil {
		return nil
	}
	c := *n
	c.Bytes = bytes.Clone(n.Bytes)
	c.Items = make([]*Node, len(n.Items))
	for i, it := range n.Items {
		c.Items[i] = Clone(it)
	}
	c.Inner = Clone(n.Inner)
	return &c
}

// Equal compares two trees structurally (map order significant).
func Equal(a, b *Node) bool {
	return bytes.Equal(EncodeKeepOrder(a), EncodeKeepOrder(b))
}

// ExpandBstr descends into byte strings whose content is exactly one
// canonical CBOR item (bstr .cbor wrappers), attaching it as Inner. Only
// byte strings whose content re-encodes byte-identically are expanded, so an
// untouched tree still encodes to the original bytes.
func ExpandBstr(n *Node) {
	for _, c := range n.Items {
		ExpandBstr(c)
	}
	if n.Kind == Bytes && n.Inner == nil && len(n.Bytes) > 0 {
		// Heuristic guard: a wrapped item in FDO is an array, map or tag.
		if m := n.Bytes[0] >> 5; m == 4 || m == 5 || m == 6 {
			if in, err := ParseAll(n.Bytes); err == nil && bytes.Equal(EncodeKeepOrder(in), n.Bytes) {
				ExpandBstr(in)
				n.Inner = in
			}
		}
	}
}

// Ref addresses a node: the parent slot that holds it.
type Ref struct {
	Path   string
	Node   *Node
	Parent *Node // nil for the root
	Index  int   // index in Parent.Items, or -1 when held as Parent.Inner
}

// Refs lists all nodes in pre-order (descending into expanded bstr wrappers).
func Refs(root *Node) []Ref {
	var out []Ref
	var walk func(n, parent *Node, idx int, path string)
	walk = func(n, parent *Node, idx int, path string) {
		out = append(out, Ref{Path: path, Node: n, Parent: parent, Index: idx})
		for i, c := range n.Items {
			seg := fmt.Sprintf("%d", i)
			if n.Kind == Map {
				if i%2 == 0 {
					seg = fmt.Sprintf("k%d", i/2)
				} else {
					seg = fmt.Sprintf("v%d", i/2)
				}
			}
			if n.Kind == Tag {
				seg = "t"
			}
			walk(c, n, i, path+"/"+seg)
		}
		if n.Inner != nil {
			walk(n.Inner, n, -1, path+"/~")
		}
	}
	walk(root, nil, 0, "")
	return out
}

// Replace puts repl where r points. Returns the (possibly new) root.
func (r Ref) Replace(root, repl *Node) *Node {
	if r.Parent == nil {
		return repl
	}
	if r.Index < 0 {
		r.Parent.Inner = repl
	} else {
		r.Parent.Items[r.Index] = repl
	}
	return root
}

// Diag renders a compact diagnostic notation (for samples and messages).
func Diag(n *Node) string {
	var sb strings.Builder
	diag(&sb, n, 0)
	return sb.String()
}

func diag(sb *strings.Builder, n *Node, depth int) {
	if depth > 40 {
		sb.WriteString("…")
		return
	}
	switch n.Kind {
	case Uint:
		fmt.Fprintf(sb, "%d", n.Val)
	case Nint:
		if n.Val == 1<<64-1 {
			sb.WriteString("-18446744073709551616")
		} else {
			fmt.Fprintf(sb, "-%d", n.Val+1)
		}
	case Bytes:
		if n.Inner != nil {
			sb.WriteString("<<")
			diag(sb, n.Inner, depth+1)
			sb.WriteString(">>")
		} else if len(n.Bytes) > 24 {
			fmt.Fprintf(sb, "h'%s…'(%d)", hex.EncodeToString(n.Bytes[:8]), len(n.Bytes))
		} else {
			fmt.Fprintf(sb, "h'%s'", hex.EncodeToString(n.Bytes))
		}
	case Text:
		if len(n.Bytes) > 40 {
			fmt.Fprintf(sb, "%q…(%d)", string(n.Bytes[:16]), len(n.Bytes))
		} else {
			fmt.Fprintf(sb, "%q", string(n.Bytes))
		}
	case Array:
		sb.WriteString("[")
		for i, c := range n.Items {
			if i > 0 {
				sb.WriteString(", ")
			}
			diag(sb, c, depth+1)
		}
		sb.WriteString("]")
	case Map:
		sb.WriteString("{")
		for i := 0; i+1 < len(n.Items); i += 2 {
			if i > 0 {
				sb.WriteString(", ")
			}
			diag(sb, n.Items[i], depth+1)
			sb.WriteString(": ")
			diag(sb, n.Items[i+1], depth+1)
		}
		sb.WriteString("}")
	case Tag:
		fmt.Fprintf(sb, "%d(", n.Val)
		diag(sb, n.Items[0], depth+1)
		sb.WriteString(")")
	case Simple:
		switch {
		case n.FloatW != 0:
			fmt.Fprintf(sb, "float%d(0x%x)", n.FloatW*8, n.Val)
		case n.Val == 20:
			sb.WriteString("false")
		case n.Val == 21:
			sb.WriteString("true")
		case n.Val == 22:
			sb.WriteString("null")
		case n.Val == 23:
			sb.WriteString("undefined")
		default:
			fmt.Fprintf(sb, "simple(%d)", n.Val)
		}
	}
}

// LenientNormal returns a normal form that identifies encodings a lenient
// decoder reads as the same value: shortest heads, sorted map keys, text and
// byte strings identified, null and undefined identified, bstr wrappers
// normalised recursively.
func LenientNormal(n *Node) []byte { return Encode(lenientTree(n)) }

func lenientTree(n *Node) *Node {
	c := Clone(n)
	var norm func(n *Node)
	norm = func(n *Node) {
		n.HeadW, n.HasFakeLen, n.Indef = 0, false, false
		if n.Kind == Text {
			n.Kind = Bytes
		}
		if n.Kind == Bytes && n.Inner == nil && len(n.Bytes) > 0 {
			if m := n.Bytes[0] >> 5; m == 4 || m == 5 || m == 6 {
				if in, err := ParseAll(n.Bytes); err == nil {
					n.Inner = in
				}
			}
		}
		if n.Kind == Simple && n.FloatW == 0 && n.Val == 23 {
			n.Val = 22
		}
		// null, empty strings and empty containers all decode to the zero value
		// of a slice/map/string typed field
		if (n.Kind == Bytes && n.Inner == nil && len(n.Bytes) == 0) || ((n.Kind == Array || n.Kind == Map) && len(n.Items) == 0) {
			*n = Node{Kind: Simple, Val: 22}
		}
		for _, it := range n.Items {
			norm(it)
		}
		if n.Inner != nil {
			norm(n.Inner)
		}
		if n.Kind == Map {
			// a Go map decoder keeps the last of several entries with the same key
			last := map[string]int{}
			for i := 0; i+1 < len(n.Items); i += 2 {
				last[string(Encode(n.Items[i]))] = i
			}
			var kept []*Node
			for i := 0; i+1 < len(n.Items); i += 2 {
				if last[string(Encode(n.Items[i]))] == i {
					kept = append(kept, n.Items[i], n.Items[i+1])
				}
			}
			n.Items = kept
		}
	}
	norm(c)
	return c
}


// LenientEqual reports whether a lenient decoder that authenticates decoded values reads
// orig and mut as the same message: equal lenient normal forms, or differing only at
// 16-byte byte strings of orig (nonces and GUIDs, which the library decodes into [16]byte
// and zero-pads) that mut carries with trailing zero bytes stripped.
func LenientEqual(orig, mut *Node) bool {
	a, b := lenientTree(orig), lenientTree(mut)
	if bytes.Equal(Encode(a), Encode(b)) {
		return true
	}
	var eq func(a, b *Node) bool
	eq = func(a, b *Node) bool {
		if a.Kind == Bytes && a.Inner == nil && len(a.Bytes) == 16 {
			var bb []byte
			switch {
			case b.Kind == Bytes && b.Inner == nil:
				bb = b.Bytes
			case b.Kind == Simple && b.Val == 22: // empty string normalised to null
			default:
				return false
			}
			if len(bb) > 16 || !bytes.Equal(a.Bytes[:len(bb)], bb) {
				return false
			}
			for _, x := range a.Bytes[len(bb):] {
				if x != 0 {
					return false
				}
			}
			return true
		}
		if a.Kind != b.Kind || a.Val != b.Val || a.FloatW != b.FloatW || len(a.Items) != len(b.Items) || (a.Inner == nil) != (b.Inner == nil) {
			return false
		}
		if a.Kind == Bytes && a.Inner == nil && !bytes.Equal(a.Bytes, b.Bytes) {
			return false
		}
		if a.Inner != nil && !eq(a.Inner, b.Inner) {
			return false
		}
		for i := range a.Items {
			if !eq(a.Items[i], b.Items[i]) {
				return false
			}
		}
		return true
	}
	return eq(a, b)
}
