package refcbor

import "fmt"

// Mutation is one structure-aware alteration, addressed by pre-order node
// index (taken modulo the number of nodes, so descriptors stay valid and
// shrink towards the root) and an operator with an integer argument.
type Mutation struct {
	Node int    `json:"node"`
	Op   string `json:"op"`
	Arg  int64  `json:"arg"`
}

// Ops lists the mutation operators.
var Ops = []string{
	"flipbit",  // flip bit Arg of a bytes/text leaf (mod length)
	"intadd",   // integer += Arg (small, signed)
	"intset",   // integer := boundary value #Arg
	"hostile",  // integer := hostile constant #Arg (unregistered ids, huge sizes)
	"retype",   // change the major type keeping the payload where possible
	"null",     // replace by null
	"undef",    // replace by undefined
	"trunc",    // drop Arg+1 trailing bytes / items
	"extend",   // append Arg+1 bytes / copies of last item
	"empty",    // make string/array/map empty
	"del",      // delete array item / map entry (this node)
	"dup",      // duplicate this array item / map entry
	"swap",     // swap this array item with its right neighbour
	"tagnum",   // change tag number
	"untag",    // remove a tag
	"addtag",   // wrap in tag #Arg
	"wrap",     // wrap item into a bstr
	"unwrap",   // replace a bstr-wrapped item by the item itself
	"inflate",  // declare a larger length/count than present (hostile length #Arg)
	"deflate",  // declare a smaller length/count than present
	"longhead", // non-shortest head encoding
	"bool",     // replace by true/false
	"zero",     // zero all bytes of a string
}

// Boundary integer values.
var Boundaries = []int64{0, 1, 23, 24, 255, 256, 65535, 65536, 1<<32 - 1, 1 << 32, 1<<63 - 1,
	-1, -24, -25, -256, -257, -65536, -65537, -(1 << 32), -(1 << 32) - 1, -(1 << 63)}

// Hostile unsigned constants: unregistered algorithm ids, enum values out of range, huge sizes.
var Hostile = []uint64{2, 3, 4, 5, 6, 7, 8, 9, 10, 11, 12, 13, 14, 15, 16, 17, 18, 19, 20, 21, 22, 30, 31, 32, 33, 34, 35, 36, 37, 38, 39, 40,
	63, 64, 99, 100, 101, 102, 127, 128, 200, 254, 257, 258, 259, 1000, 4096, 65534, 99_999, 100_000, 100_001,
	1 << 20, 1 << 24, 1<<31 - 1, 1 << 31, 1<<32 - 1, 1 << 40, 1 << 62, 1<<63 - 1, 1 << 63, 1<<64 - 1}

// HostileNeg are hostile negative arguments (value = -1-arg): COSE algorithm ids etc.
var HostileNeg = []uint64{0, 1, 4, 5, 6, 7, 8, 16, 24, 34, 35, 36, 37, 38, 39, 40, 42, 43, 44, 45, 46, 47, 256, 257, 258, 259, 260, 65534, 65535, 65536, 1<<63 - 1, 1 << 63, 1<<64 - 1}

// HostileLens are declared lengths used by "inflate".
var HostileLens = []uint64{1, 2, 23, 24, 255, 256, 4095, 65535, 65536, 99_998, 99_999, 100_000, 1 << 20, 1 << 24, 1<<31 - 1, 1 << 31, 1<<32 - 1, 1 << 32, 1<<62 - 1, 1<<63 - 1, 1 << 63, 1<<64 - 1}

func setInt(n *Node, v int64) {
	*n = *I(v)
}

func imod(a int64, m int) int {
	if m <= 0 {
		return 0
	}
	r := int(a % int64(m))
	if r < 0 {
		r += m
	}
	return r
}

// Apply applies m to a clone of root (after bstr expansion by the caller) and
// returns the new root, the path of the node hit and whether the operator was
// applicable to that node (inapplicable mutations return the clone unchanged).
func Apply(root *Node, m Mutation) (*Node, string, bool) {
	if m.Op == "auto" {
		// pick an operator applicable to the addressed node: operator index and
		// operator argument are both derived from Arg
		a := m.Arg
		if a < 0 {
			a = -a
		}
		start := int(a % int64(len(Ops)))
		arg := m.Arg / int64(len(Ops))
		for i := 0; i < len(Ops); i++ {
			op := Ops[(start+i)%len(Ops)]
			if out, p, ok := Apply(root, Mutation{Node: m.Node, Op: op, Arg: arg}); ok {
				return out, p + "#" + op, true
			}
		}
		return Clone(root), "", false
	}
	root = Clone(root)
	refs := Refs(root)
	if len(refs) == 0 {
		return root, "", false
	}
	r := refs[imod(int64(m.Node), len(refs))]
	n := r.Node
	isStr := n.Kind == Bytes || n.Kind == Text
	isInt := n.Kind == Uint || n.Kind == Nint
	isCont := n.Kind == Array || n.Kind == Map
	materialise := func() {
		if n.Kind == Bytes && n.Inner != nil {
			n.Bytes = Encode(n.Inner)
			n.Inner = nil
		}
	}
	switch m.Op {
	case "flipbit":
		if !isStr {
			return root, r.Path, false
		}
		materialise()
		if len(n.Bytes) == 0 {
			return root, r.Path, false
		}
		bit := imod(m.Arg, len(n.Bytes)*8)
		n.Bytes[bit/8] ^= 1 << (bit % 8)
	case "zero":
		if !isStr {
			return root, r.Path, false
		}
		materialise()
		nz := false
		for i := range n.Bytes {
			if n.Bytes[i] != 0 {
				nz = true
			}
			n.Bytes[i] = 0
		}
		if !nz {
			return root, r.Path, false
		}
	case "intadd":
		if !isInt {
			return root, r.Path, false
		}
		d := m.Arg%3 + 1
		if m.Arg < 0 {
			d = -(-m.Arg%3 + 1)
		}
		if n.Kind == Uint {
			if d < 0 && n.Val < uint64(-d) {
				*n = Node{Kind: Nint, Val: uint64(-d) - n.Val - 1}
			} else {
				n.Val += uint64(d)
			}
		} else {
			// value = -1-Val ; value+d
			if d > 0 && n.Val < uint64(d) {
				*n = Node{Kind: Uint, Val: uint64(d) - n.Val - 1}
			} else {
				n.Val -= uint64(d)
			}
		}
	case "intset":
		if !isInt {
			return root, r.Path, false
		}
		old := *n
		setInt(n, Boundaries[imod(m.Arg, len(Boundaries))])
		if old.Kind == n.Kind && old.Val == n.Val {
			return root, r.Path, false
		}
	case "hostile":
		if !isInt {
			return root, r.Path, false
		}
		old := *n
		if m.Arg >= 0 {
			*n = Node{Kind: Uint, Val: Hostile[imod(m.Arg, len(Hostile))]}
		} else {
			*n = Node{Kind: Nint, Val: HostileNeg[imod(-m.Arg, len(HostileNeg))]}
		}
		if old.Kind == n.Kind && old.Val == n.Val {
			return root, r.Path, false
		}
	case "retype":
		switch n.Kind {
		case Uint:
			n.Kind = Nint
		case Nint:
			n.Kind = Uint
		case Bytes:
			materialise()
			n.Kind = Text
		case Text:
			n.Kind = Bytes
		case Array:
			if len(n.Items)%2 == 0 {
				n.Kind = Map
			} else {
				*n = *B(Encode(n))
			}
		case Map:
			n.Kind = Array
		case Tag:
			*n = *A(U(n.Val), n.Items[0])
		case Simple:
			*n = *U(n.Val)
		}
	case "null":
		if n.Kind == Simple && n.Val == 22 {
			return root, r.Path, false
		}
		*n = *Null()
	case "undef":
		if n.Kind == Simple && n.Val == 23 {
			return root, r.Path, false
		}
		*n = *Undef()
	case "bool":
		want := uint64(20 + imod(m.Arg, 2))
		if n.Kind == Simple && n.Val == want {
			return root, r.Path, false
		}
		*n = Node{Kind: Simple, Val: want}
	case "trunc":
		k := imod(m.Arg, 8) + 1
		switch {
		case isStr:
			materialise()
			if len(n.Bytes) == 0 {
				return root, r.Path, false
			}
			if k > len(n.Bytes) {
				k = len(n.Bytes)
			}
			n.Bytes = n.Bytes[:len(n.Bytes)-k]
		case n.Kind == Array:
			if len(n.Items) == 0 {
				return root, r.Path, false
			}
			if k > len(n.Items) {
				k = len(n.Items)
			}
			n.Items = n.Items[:len(n.Items)-k]
		case n.Kind == Map:
			if len(n.Items) == 0 {
				return root, r.Path, false
			}
			n.Items = n.Items[:len(n.Items)-2]
		default:
			return root, r.Path, false
		}
	case "extend":
		k := imod(m.Arg, 8) + 1
		switch {
		case isStr:
			materialise()
			for i := 0; i < k; i++ {
				n.Bytes = append(n.Bytes, byte(0x41+i))
			}
		case n.Kind == Array:
			var last *Node = U(0)
			if len(n.Items) > 0 {
				last = n.Items[len(n.Items)-1]
			}
			for i := 0; i < k; i++ {
				n.Items = append(n.Items, Clone(last))
			}
		case n.Kind == Map:
			n.Items = append(n.Items, I(-1000-m.Arg), U(0))
		default:
			return root, r.Path, false
		}
	case "empty":
		switch {
		case isStr:
			materialise()
			if len(n.Bytes) == 0 {
				return root, r.Path, false
			}
			n.Bytes = nil
		case isCont:
			if len(n.Items) == 0 {
				return root, r.Path, false
			}
			n.Items = nil
		default:
			return root, r.Path, false
		}
	case "del", "dup", "swap":
		p := r.Parent
		if p == nil || r.Index < 0 || !(p.Kind == Array || p.Kind == Map) {
			return root, r.Path, false
		}
		i := r.Index
		w := 1
		if p.Kind == Map {
			i -= i % 2
			w = 2
		}
		switch m.Op {
		case "del":
			p.Items = append(p.Items[:i:i], p.Items[i+w:]...)
		case "dup":
			cp := make([]*Node, 0, len(p.Items)+w)
			cp = append(cp, p.Items[:i+w]...)
			for _, it := range p.Items[i : i+w] {
				cp = append(cp, Clone(it))
			}
			cp = append(cp, p.Items[i+w:]...)
			p.Items = cp
		case "swap":
			if i+2*w > len(p.Items) {
				return root, r.Path, false
			}
			if Equal(p.Items[i], p.Items[i+w]) {
				return root, r.Path, false
			}
			for j := 0; j < w; j++ {
				p.Items[i+j], p.Items[i+w+j] = p.Items[i+w+j], p.Items[i+j]
			}
		}
	case "tagnum":
		if n.Kind != Tag {
			return root, r.Path, false
		}
		tags := []uint64{0, 16, 17, 18, 61, 96, 97, 98, 1<<64 - 1}
		nv := tags[imod(m.Arg, len(tags))]
		if nv == n.Val {
			nv = n.Val + 1
		}
		n.Val = nv
	case "untag":
		if n.Kind != Tag {
			return root, r.Path, false
		}
		*n = *n.Items[0]
	case "addtag":
		tags := []uint64{16, 17, 18, 61, 98}
		c := *n
		*n = *Tg(tags[imod(m.Arg, len(tags))], &c)
	case "wrap":
		c := *n
		*n = Node{Kind: Bytes, Inner: &c}
	case "unwrap":
		if n.Kind != Bytes || n.Inner == nil {
			return root, r.Path, false
		}
		*n = *n.Inner
	case "inflate":
		if !(isStr || isCont) {
			return root, r.Path, false
		}
		materialise()
		cur := uint64(len(n.Bytes))
		if isCont {
			cur = uint64(len(n.Items))
			if n.Kind == Map {
				cur /= 2
			}
		}
		fl := HostileLens[imod(m.Arg, len(HostileLens))]
		if fl <= cur {
			fl = cur + 1
		}
		n.FakeLen, n.HasFakeLen = fl, true
	case "deflate":
		if !(isStr || isCont) {
			return root, r.Path, false
		}
		materialise()
		cur := uint64(len(n.Bytes))
		if isCont {
			cur = uint64(len(n.Items))
			if n.Kind == Map {
				cur /= 2
			}
		}
		if cur == 0 {
			return root, r.Path, false
		}
		n.FakeLen, n.HasFakeLen = cur-1-uint64(imod(m.Arg, int(cur))), true
	case "longhead":
		if n.Kind == Simple {
			return root, r.Path, false
		}
		ws := []int{1, 2, 4, 8}
		materialise()
		n.HeadW = ws[imod(m.Arg, 4)]
		var v uint64
		switch {
		case isStr:
			v = uint64(len(n.Bytes))
		case n.Kind == Array:
			v = uint64(len(n.Items))
		case n.Kind == Map:
			v = uint64(len(n.Items) / 2)
		default:
			v = n.Val
		}
		if n.HeadW <= shortestWidth(v) {
			n.HeadW = 8
			if shortestWidth(v) == 8 {
				return root, r.Path, false
			}
		}
	default:
		panic(fmt.Sprintf("unknown mutation op %q", m.Op))
	}
	return root, r.Path, true
}
