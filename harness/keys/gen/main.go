// Command gen creates the static test key set (run once; output committed).
package main

import (
	"crypto/ecdsa"
	"crypto/elliptic"
	"crypto/rand"
	"crypto/rsa"
	"crypto/x509"
	"encoding/pem"
	"fmt"
	"os"
)

func main() {
	dir := os.Args[1]
	write := func(name string, key any) {
		der, err := x509.MarshalPKCS8PrivateKey(key)
		if err != nil {
			panic(err)
		}
		if err := os.WriteFile(dir+"/"+name+".pem", pem.EncodeToMemory(&pem.Block{Type: "PRIVATE KEY", Bytes: der}), 0o644); err != nil {
			panic(err)
		}
	}
	for i := 0; i < 8; i++ {
		k, _ := ecdsa.GenerateKey(elliptic.P256(), rand.Reader)
		write(fmt.Sprintf("ec256-%d", i), k)
		k2, _ := ecdsa.GenerateKey(elliptic.P384(), rand.Reader)
		write(fmt.Sprintf("ec384-%d", i), k2)
	}
	for i := 0; i < 6; i++ {
		k, _ := rsa.GenerateKey(rand.Reader, 2048)
		write(fmt.Sprintf("rsa2048-%d", i), k)
		k2, _ := rsa.GenerateKey(rand.Reader, 3072)
		write(fmt.Sprintf("rsa3072-%d", i), k2)
	}
}
