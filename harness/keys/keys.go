// Package keys provides the static test key set of the harness (test-only
// private keys, generated once by keys/gen and committed) and certificate
// helpers. RSA key generation is too slow to repeat in every worker process.
package keys

import (
	"crypto"
	"crypto/ecdsa"
	"crypto/elliptic"
	"crypto/rand"
	"crypto/rsa"
	"crypto/x509"
	"crypto/x509/pkix"
	"embed"
	"encoding/pem"
	"fmt"
	"math/big"
	"sync"
	"time"
)

//go:embed pem/*.pem
var pemFS embed.FS

var (
	mu    sync.Mutex
	cache = map[string]crypto.Signer{}
)

// Kinds of keys available.
var Kinds = []string{"ec256", "ec384", "rsa2048", "rsa3072"}

// Count returns how many keys of a kind exist.
func Count(kind string) int {
	if kind == "ec256" || kind == "ec384" {
		return 8
	}
	return 6
}

// LeadingZero is the first index of the generated EC keys whose public X (even offset) or Y
// (odd offset) coordinate starts with a zero byte (about one key in 128 has such a
// coordinate; encoders that strip or mis-pad leading zeros show only on them). For RSA kinds
// these indices fall back to the static keys.
const LeadingZero = 100

func leadingZeroKey(kind string, j int) crypto.Signer {
	curve := elliptic.P256()
	if kind == "ec384" {
		curve = elliptic.P384()
	}
	size := (curve.Params().BitSize + 7) / 8
	for {
		k, err := ecdsa.GenerateKey(curve, rand.Reader)
		if err != nil {
			panic(err)
		}
		x, y := k.X.FillBytes(make([]byte, size)), k.Y.FillBytes(make([]byte, size))
		if (j%2 == 0 && x[0] == 0 && y[0] != 0) || (j%2 == 1 && y[0] == 0 && x[0] != 0) {
			return k
		}
	}
}

// Get returns key #i of a kind ("ec256", "ec384", "rsa2048", "rsa3072").
func Get(kind string, i int) crypto.Signer {
	if i >= LeadingZero && !IsRSA(kind) {
		name := fmt.Sprintf("%s-lz%d", kind, i)
		mu.Lock()
		defer mu.Unlock()
		if k, ok := cache[name]; ok {
			return k
		}
		k := leadingZeroKey(kind, i-LeadingZero)
		cache[name] = k
		return k
	}
	name := fmt.Sprintf("%s-%d", kind, i%Count(kind))
	mu.Lock()
	defer mu.Unlock()
	if k, ok := cache[name]; ok {
		return k
	}
	b, err := pemFS.ReadFile("pem/" + name + ".pem")
	if err != nil {
		panic(err)
	}
	blk, _ := pem.Decode(b)
	k, err := x509.ParsePKCS8PrivateKey(blk.Bytes)
	if err != nil {
		panic(err)
	}
	s := k.(crypto.Signer)
	if r, ok := s.(*rsa.PrivateKey); ok {
		r.Precompute()
	}
	cache[name] = s
	return s
}

// IsRSA reports whether the kind is an RSA kind.
func IsRSA(kind string) bool { return kind == "rsa2048" || kind == "rsa3072" }

// SelfSigned returns a one-element chain: a self-signed CA certificate for key.
func SelfSigned(key crypto.Signer, cn string) []*x509.Certificate {
	tmpl := &x509.Certificate{SerialNumber: big.NewInt(1), Subject: pkix.Name{CommonName: cn},
		NotBefore: time.Now().Add(-time.Hour), NotAfter: time.Now().Add(10 * 365 * 24 * time.Hour),
		BasicConstraintsValid: true, IsCA: true, KeyUsage: x509.KeyUsageCertSign | x509.KeyUsageDigitalSignature}
	der, err := x509.CreateCertificate(rand.Reader, tmpl, tmpl, key.Public(), key)
	if err != nil {
		panic(err)
	}
	c, err := x509.ParseCertificate(der)
	if err != nil {
		panic(err)
	}
	return []*x509.Certificate{c}
}

// Chain returns [leaf(key), ca] where the leaf is issued by caKey's self-signed CA.
func Chain(key crypto.PublicKey, cn string, caKey crypto.Signer) []*x509.Certificate {
	ca := SelfSigned(caKey, "CA of "+cn)[0]
	tmpl := &x509.Certificate{SerialNumber: big.NewInt(2), Subject: pkix.Name{CommonName: cn},
		NotBefore: time.Now().Add(-time.Hour), NotAfter: time.Now().Add(10 * 365 * 24 * time.Hour),
		KeyUsage: x509.KeyUsageDigitalSignature}
	der, err := x509.CreateCertificate(rand.Reader, tmpl, ca, key, caKey)
	if err != nil {
		panic(err)
	}
	c, err := x509.ParseCertificate(der)
	if err != nil {
		panic(err)
	}
	return []*x509.Certificate{c, ca}
}

var _ = ecdsa.PublicKey{}
