// Package wire builds and parses FDO protocol messages at the CBOR level from
// the FDO 1.1 CDDL, independently of the library's (unexported) message structs.
// It is what the harness' manual peers and man-in-the-middle forgeries use.
package wire

import (
	"crypto"
	"crypto/ecdsa"
	"crypto/elliptic"
	"crypto/rsa"
	"crypto/sha256"
	"crypto/sha512"
	"crypto/x509"
	"errors"
	"fmt"

	"verif/harness/refcbor"
	"verif/harness/refverify"
)

// AlgFor returns the COSE signature algorithm for a key (pss selects RSASSA-PSS).
func AlgFor(pub crypto.PublicKey, pss bool) int64 {
	switch k := pub.(type) {
	case *ecdsa.PublicKey:
		if k.Curve == elliptic.P384() {
			return refverify.ES384
		}
		return refverify.ES256
	case *rsa.PublicKey:
		big := k.Size() >= 384
		switch {
		case pss && big:
			return refverify.PS384
		case pss:
			return refverify.PS256
		case big:
			return refverify.RS384
		}
		return refverify.RS256
	}
	return 0
}

// Sign1 builds a tagged COSE_Sign1 over payload (bstr content) signed by key.
// prot must contain at least alg; unprot may be nil.
func Sign1(key crypto.Signer, alg int64, extraProt []*refcbor.Node, unprot *refcbor.Node, payload []byte, tagged bool) (*refcbor.Node, error) {
	prot := refcbor.M(refcbor.I(1), refcbor.I(alg))
	prot.Items = append(prot.Items, extraProt...)
	protBytes := refcbor.Encode(prot)
	sig, err := refverify.SignRaw(key, alg, refverify.SigStructure(protBytes, nil, payload))
	if err != nil {
		return nil, err
	}
	if unprot == nil {
		unprot = refcbor.M()
	}
	arr := refcbor.A(refcbor.B(protBytes), unprot, refcbor.B(payload), refcbor.B(sig))
	if tagged {
		return refcbor.Tg(18, arr), nil
	}
	return arr, nil
}

// PublicKeyNode encodes an FDO PublicKey [type, enc, body] for a key.
// enc: 1 = X509 (SubjectPublicKeyInfo), 2 = X5CHAIN (chain required), 3 = COSE_Key (EC only).
func PublicKeyNode(typ int64, enc int64, pub crypto.PublicKey, chain []*x509.Certificate) (*refcbor.Node, error) {
	switch enc {
	case 1:
		der, err := x509.MarshalPKIXPublicKey(pub)
		if err != nil {
			return nil, err
		}
		return refcbor.A(refcbor.I(typ), refcbor.I(1), refcbor.B(der)), nil
	case 2:
		arr := refcbor.A()
		for _, c := range chain {
			arr.Items = append(arr.Items, refcbor.B(c.Raw))
		}
		return refcbor.A(refcbor.I(typ), refcbor.I(2), arr), nil
	case 3:
		k, ok := pub.(*ecdsa.PublicKey)
		if !ok {
			return nil, errors.New("COSE_Key encoding is for EC keys")
		}
		crv, size := int64(1), 32
		if k.Curve == elliptic.P384() {
			crv, size = 2, 48
		}
		x, y := make([]byte, size), make([]byte, size)
		k.X.FillBytes(x)
		k.Y.FillBytes(y)
		return refcbor.A(refcbor.I(typ), refcbor.I(3), refcbor.M(refcbor.I(1), refcbor.I(2), refcbor.I(-1), refcbor.I(crv), refcbor.I(-2), refcbor.B(x), refcbor.I(-3), refcbor.B(y))), nil
	}
	return nil, fmt.Errorf("encoding %d", enc)
}

// KeyTypeFor returns the FDO key type number for a key in a configuration.
func KeyTypeFor(pub crypto.PublicKey, pss bool, restr bool) int64 {
	switch k := pub.(type) {
	case *ecdsa.PublicKey:
		if k.Curve == elliptic.P384() {
			return 11
		}
		return 10
	case *rsa.PublicKey:
		if pss {
			return 6
		}
		if restr {
			return 1
		}
		return 5
	}
	return 0
}

// HashNode builds [alg, value] using SHA-256 (-16) or SHA-384 (-43).
func HashNode(alg int64, parts ...[]byte) *refcbor.Node {
	if alg == -43 {
		h := sha512.New384()
		for _, p := range parts {
			h.Write(p)
		}
		return refcbor.A(refcbor.I(alg), refcbor.B(h.Sum(nil)))
	}
	h := sha256.New()
	for _, p := range parts {
		h.Write(p)
	}
	return refcbor.A(refcbor.I(alg), refcbor.B(h.Sum(nil)))
}

// ProveOVHdr is the parsed TO2.ProveOVHdr (type 61) message.
type ProveOVHdr struct {
	Root         *refcbor.Node // tag 18
	S1           *refverify.Sign1
	Payload      *refcbor.Node // the 8-array
	HeaderBytes  []byte        // OVHeader (content of the bstr)
	NumEntries   uint64
	HmacItem     []byte
	Nonce        []byte // NonceTO2ProveOV echoed
	XA           []byte
	HelloHash    *refcbor.Node
	CUPHNonce    []byte
	CUPHOwnerKey *refcbor.Node
}

// ParseProveOVHdr parses a type-61 body.
func ParseProveOVHdr(body []byte) (*ProveOVHdr, error) {
	root, err := refcbor.ParseAll(body)
	if err != nil {
		return nil, err
	}
	s1, err := refverify.Sign1FromNode(root)
	if err != nil {
		return nil, err
	}
	if !s1.Tagged || s1.PayloadNil {
		return nil, errors.New("ProveOVHdr must be a tagged COSE_Sign1 with payload")
	}
	p, err := refcbor.ParseAll(s1.Payload)
	if err != nil || p.Kind != refcbor.Array || len(p.Items) != 8 {
		return nil, errors.New("ProveOVHdr payload is not an 8-array")
	}
	it := p.Items
	if it[0].Kind != refcbor.Bytes || it[1].Kind != refcbor.Uint || it[3].Kind != refcbor.Bytes || it[5].Kind != refcbor.Bytes {
		return nil, errors.New("ProveOVHdr payload field types")
	}
	out := &ProveOVHdr{Root: root, S1: s1, Payload: p, HeaderBytes: it[0].Bytes, NumEntries: it[1].Val, HmacItem: s1.Payload[it[2].Off:it[2].End], Nonce: it[3].Bytes, XA: it[5].Bytes, HelloHash: it[6]}
	if n := refverify.MapGet(s1.Unprotected, 256); n != nil && n.Kind == refcbor.Bytes {
		out.CUPHNonce = n.Bytes
	}
	out.CUPHOwnerKey = refverify.MapGet(s1.Unprotected, 257)
	return out, nil
}

// HelloDevice is the parsed TO2.HelloDevice (type 60) message.
type HelloDevice struct {
	Raw   []byte
	GUID  []byte
	Nonce []byte
	Kex   string
}

// ParseHelloDevice parses a type-60 body.
func ParseHelloDevice(body []byte) (*HelloDevice, error) {
	n, err := refcbor.ParseAll(body)
	if err != nil || n.Kind != refcbor.Array || len(n.Items) != 6 || n.Items[1].Kind != refcbor.Bytes || n.Items[2].Kind != refcbor.Bytes {
		return nil, errors.New("HelloDevice is not a 6-array")
	}
	return &HelloDevice{Raw: body, GUID: n.Items[1].Bytes, Nonce: n.Items[2].Bytes, Kex: string(n.Items[3].Bytes)}, nil
}

// Presented is what a TO2 peer presented to the device in messages 61/63.
type Presented struct {
	Hello      *HelloDevice
	Prove      *ProveOVHdr
	EntryItems [][]byte // encoded OVEntry items in the order delivered
	EntryNums  []int64  // OVEntryNum of each 63
	Requested  []int64  // index requested by each 62
}

// Accept is the reference decision of C01: does what was presented satisfy
// every condition the property lists? secret is the device HMAC secret;
// credHashAlg/credHash the manufacturer key hash in the device credential;
// to1d the encoded rendezvous blob handed to TO2 (nil for RV bypass).
func (p *Presented) Accept(secret []byte, credHashAlg int64, credHash []byte, to1d []byte) (bool, string) {
	if p.Hello == nil || p.Prove == nil {
		return false, "no ProveOVHdr was presented"
	}
	if uint64(len(p.EntryItems)) != p.Prove.NumEntries {
		return false, fmt.Sprintf("ProveOVHdr announces %d entries, %d were presented", p.Prove.NumEntries, len(p.EntryItems))
	}
	for i := range p.EntryItems {
		if p.EntryNums[i] != int64(i) || p.Requested[i] != int64(i) {
			return false, fmt.Sprintf("entry %d delivered with number %d", i, p.EntryNums[i])
		}
	}
	// assemble the voucher from the parts and verify it on the wire bytes
	entries := refcbor.A()
	for _, e := range p.EntryItems {
		n, err := refcbor.ParseAll(e)
		if err != nil {
			return false, "entry does not parse"
		}
		entries.Items = append(entries.Items, n)
	}
	hm, err := refcbor.ParseAll(p.Prove.HmacItem)
	if err != nil {
		return false, "hmac does not parse"
	}
	vb := refcbor.EncodeKeepOrder(refcbor.A(refcbor.U(101), refcbor.B(p.Prove.HeaderBytes), hm, refcbor.Null(), entries))
	v, err := refverify.ParseVoucher(vb)
	if err != nil {
		return false, "voucher parts do not form a voucher: " + err.Error()
	}
	if ok, why := v.VerifyHeaderHmac(secret); !ok {
		return false, why
	}
	if ok, why := v.VerifyMfgKeyHash(credHashAlg, credHash); !ok {
		return false, why
	}
	if ok, why := v.VerifyEntries(); !ok {
		return false, why
	}
	owner, err := v.OwnerKey()
	if err != nil {
		return false, "owner key: " + err.Error()
	}
	if ok, why := refverify.VerifySign1(p.Prove.S1, owner, nil, nil); !ok {
		return false, "ProveOVHdr is not signed by the key of the chain's last entry: " + why
	}
	if string(p.Prove.Nonce) != string(p.Hello.Nonce) {
		return false, "ProveOVHdr does not echo the HelloDevice nonce"
	}
	alg, ok := refverify.NodeInt(p.Prove.HelloHash.Items[0])
	if !ok || len(p.Prove.HelloHash.Items) != 2 {
		return false, "HelloDeviceHash malformed"
	}
	want := HashNode(alg, p.Hello.Raw)
	if alg != -16 && alg != -43 || string(want.Items[1].Bytes) != string(p.Prove.HelloHash.Items[1].Bytes) {
		return false, "HelloDeviceHash does not match the HelloDevice message"
	}
	if to1d != nil {
		t, err := refverify.ParseSign1(to1d)
		if err != nil {
			return false, "to1d does not parse"
		}
		if ok, why := refverify.VerifySign1(t, owner, nil, nil); !ok {
			return false, "to1d is not signed by the owner key: " + why
		}
	}
	return true, ""
}

// TunnelRef states the COSE shape of a cipher suite on the wire.
type TunnelRef struct {
	AEAD           bool
	EncAlg, MacAlg int64
	IVLen          int
}

// TunnelTable maps cipher suite names to their wire shape (FDO 1.1 §3.6.4, RFC 9053/9459).
var TunnelTable = map[string]TunnelRef{
	"A128GCM":       {true, 1, 0, 12},
	"A192GCM":       {true, 2, 0, 12},
	"A256GCM":       {true, 3, 0, 12},
	"COSEAES128CBC": {false, -65531, 5, 16},
	"COSEAES128CTR": {false, -65534, 5, 16},
	"COSEAES256CBC": {false, -65529, 6, 16},
	"COSEAES256CTR": {false, -65532, 6, 16},
}

// CheckTunnelShape verifies that body is the authenticated-encryption object of
// the negotiated suite and returns its IV; why is non-empty otherwise.
func CheckTunnelShape(body []byte, ref TunnelRef) (iv []byte, why string) {
	root, err := refcbor.ParseAll(body)
	if err != nil || root.Kind != refcbor.Tag || len(root.Items) != 1 || root.Items[0].Kind != refcbor.Array {
		return nil, "not a tagged COSE array"
	}
	arr := root.Items[0]
	e0 := arr
	if ref.AEAD {
		if root.Val != 16 || len(arr.Items) != 3 {
			return nil, fmt.Sprintf("expected COSE_Encrypt0 (tag 16), got tag %d with %d items", root.Val, len(arr.Items))
		}
	} else {
		if root.Val != 17 || len(arr.Items) != 4 || arr.Items[2].Kind != refcbor.Bytes || arr.Items[0].Kind != refcbor.Bytes || arr.Items[3].Kind != refcbor.Bytes {
			return nil, fmt.Sprintf("expected COSE_Mac0 (tag 17) around COSE_Encrypt0, got tag %d", root.Val)
		}
		pm, err := refcbor.ParseAll(arr.Items[0].Bytes)
		if err != nil {
			return nil, "Mac0 protected header does not parse"
		}
		if a, ok := refverify.NodeInt(refverify.MapGet(pm, 1)); !ok || a != ref.MacAlg {
			return nil, fmt.Sprintf("Mac0 alg %d, negotiated %d", a, ref.MacAlg)
		}
		if n := len(arr.Items[3].Bytes); (ref.MacAlg == 5 && n != 32) || (ref.MacAlg == 6 && n != 48) {
			return nil, fmt.Sprintf("Mac0 tag of %d bytes", n)
		}
		in, err := refcbor.ParseAll(arr.Items[2].Bytes)
		if err != nil || in.Kind != refcbor.Array || len(in.Items) != 3 {
			return nil, "Mac0 payload is not a COSE_Encrypt0"
		}
		e0 = in
	}
	if e0.Items[0].Kind != refcbor.Bytes || e0.Items[1].Kind != refcbor.Map {
		return nil, "Encrypt0 headers"
	}
	var alg *refcbor.Node
	if ref.AEAD {
		pm, err := refcbor.ParseAll(e0.Items[0].Bytes)
		if err != nil {
			return nil, "Encrypt0 protected header does not parse"
		}
		alg = refverify.MapGet(pm, 1)
	} else {
		alg = refverify.MapGet(e0.Items[1], 1)
	}
	if a, ok := refverify.NodeInt(alg); !ok || a != ref.EncAlg {
		return nil, fmt.Sprintf("Encrypt0 alg %d, negotiated %d", a, ref.EncAlg)
	}
	ivn := refverify.MapGet(e0.Items[1], 5)
	if ivn == nil || ivn.Kind != refcbor.Bytes || len(ivn.Bytes) != ref.IVLen {
		return nil, "IV header missing or of wrong length"
	}
	if e0.Items[2].Kind != refcbor.Bytes || len(e0.Items[2].Bytes) == 0 {
		return nil, "no ciphertext"
	}
	return ivn.Bytes, ""
}

// TakeOver forges an entry chain from genuine encoded entries: entries [0,p) are kept, entry p keeps
// the genuine PreviousHash / HeaderHash / Extra but names pub (the attacker's key) and is signed by
// signedBy (anybody but the legitimate holder of the key named by entry p-1; nil: the genuine signature
// bytes are kept over the changed payload), and `tail` further
// entries are appended that are correctly hashed, name pub again and are signed by the attacker —
// so every link except link p is formally valid. Later genuine entries are dropped.
func TakeOver(entries [][]byte, p int, pub *refcbor.Node, signedBy crypto.Signer, signedByAlg int64, attacker crypto.Signer, attackerAlg int64, tail int) ([][]byte, error) {
	if p < 0 || p >= len(entries) {
		return nil, fmt.Errorf("no entry %d", p)
	}
	e, err := refverify.ParseEntry(entries[p])
	if err != nil {
		return nil, err
	}
	pl, err := refcbor.ParseAll(e.Sign1.Payload)
	if err != nil {
		return nil, err
	}
	pl = refcbor.Clone(pl)
	pl.Items[3] = pub
	var forged *refcbor.Node
	if signedBy == nil {
		// keep the genuine entry's protected header and signature bytes over the changed payload
		// (no key needed at all: the signature simply no longer matches)
		orig, err := refcbor.ParseAll(entries[p])
		if err != nil || orig.Kind != refcbor.Tag || len(orig.Items) != 1 || len(orig.Items[0].Items) != 4 {
			return nil, fmt.Errorf("entry %d is not a tagged COSE_Sign1", p)
		}
		forged = refcbor.Clone(orig)
		forged.Items[0].Items[2] = refcbor.B(refcbor.EncodeKeepOrder(pl))
	} else {
		forged, err = Sign1(signedBy, signedByAlg, nil, nil, refcbor.EncodeKeepOrder(pl), true)
		if err != nil {
			return nil, err
		}
	}
	out := append([][]byte{}, entries[:p]...)
	out = append(out, refcbor.EncodeKeepOrder(forged))
	for i := 0; i < tail; i++ {
		prev := out[len(out)-1]
		npl := refcbor.Clone(pl)
		npl.Items[0] = HashNode(e.PrevHash.Alg, prev)
		n, err := Sign1(attacker, attackerAlg, nil, nil, refcbor.EncodeKeepOrder(npl), true)
		if err != nil {
			return nil, err
		}
		out = append(out, refcbor.EncodeKeepOrder(n))
	}
	return out, nil
}
