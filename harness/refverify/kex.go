package refverify

import (
	"crypto/ecdh"
	"crypto/hmac"
	"crypto/sha256"
	"crypto/sha512"
	"encoding/binary"
	"errors"
	"hash"
	"math/big"
	"sync"
)

// KDF is NIST SP 800-108 KDF in counter mode with HMAC as PRF, as profiled by
// FDO 1.1 §3.6.4: K(i) = HMAC(Kin, [i]_8 || "FIDO-KDF" || 0x00 || Context || [L]_16),
// Context = "AutomaticOnboardTunnel" || ContextRand, output = first L bits of K(1)||K(2)||...
// sha384 selects HMAC-SHA-384, otherwise HMAC-SHA-256. lBits is the total length in bits.
func KDF(sha384 bool, kIn, contextRand []byte, lBits int) []byte {
	newH := sha256.New
	hBits := 256
	if sha384 {
		newH = sha512.New384
		hBits = 384
	}
	n := (lBits + hBits - 1) / hBits
	var out []byte
	for i := 1; i <= n; i++ {
		m := hmac.New(func() hash.Hash { return newH() }, kIn)
		m.Write([]byte{byte(i)})
		m.Write([]byte("FIDO-KDF"))
		m.Write([]byte{0})
		m.Write([]byte("AutomaticOnboardTunnel"))
		m.Write(contextRand)
		var l [2]byte
		binary.BigEndian.PutUint16(l[:], uint16(lBits))
		m.Write(l[:])
		out = m.Sum(out)
	}
	return out[:lBits/8]
}

// piTimes2Pow returns floor(pi * 2^bits) using Machin's formula with integer arithmetic.
func piTimes2Pow(bits uint) *big.Int {
	guard := uint(64)
	one := new(big.Int).Lsh(big.NewInt(1), bits+guard)
	arctanInv := func(x int64) *big.Int { // arctan(1/x) * 2^(bits+guard)
		sum := new(big.Int)
		term := new(big.Int).Div(one, big.NewInt(x))
		x2 := big.NewInt(x * x)
		for k := int64(0); term.Sign() != 0; k++ {
			t := new(big.Int).Div(term, big.NewInt(2*k+1))
			if k%2 == 0 {
				sum.Add(sum, t)
			} else {
				sum.Sub(sum, t)
			}
			term.Div(term, x2)
		}
		return sum
	}
	// pi = 16 arctan(1/5) - 4 arctan(1/239)
	pi := new(big.Int).Mul(big.NewInt(16), arctanInv(5))
	pi.Sub(pi, new(big.Int).Mul(big.NewInt(4), arctanInv(239)))
	return pi.Rsh(pi, guard)
}

var (
	primesOnce sync.Once
	prime14    *big.Int
	prime15    *big.Int
)

// ModpPrime returns the RFC 3526 MODP prime for group 14 (2048 bit) or 15
// (3072 bit), derived from the RFC's defining formula rather than copied:
// p = 2^n - 2^(n-64) - 1 + 2^64 * ( floor(2^(n-130) * pi) + c ).
func ModpPrime(group int) *big.Int {
	primesOnce.Do(func() {
		mk := func(n uint, c int64) *big.Int {
			p := new(big.Int).Lsh(big.NewInt(1), n)
			p.Sub(p, new(big.Int).Lsh(big.NewInt(1), n-64))
			p.Sub(p, big.NewInt(1))
			t := piTimes2Pow(n - 130)
			t.Add(t, big.NewInt(c))
			t.Lsh(t, 64)
			return p.Add(p, t)
		}
		prime14 = mk(2048, 124476)
		prime15 = mk(3072, 1690314)
	})
	if group == 14 {
		return prime14
	}
	return prime15
}

// ECDHParam is the FDO ECDH key-exchange parameter: bstr[blen(x), x, blen(y), y, blen(rand), rand].
type ECDHParam struct {
	X, Y, Rand []byte
}

// Encode serialises the parameter with 16-bit big-endian lengths.
func (p ECDHParam) Encode() []byte {
	var b []byte
	for _, f := range [][]byte{p.X, p.Y, p.Rand} {
		b = binary.BigEndian.AppendUint16(b, uint16(len(f)))
		b = append(b, f...)
	}
	return b
}

// DecodeECDHParam parses the parameter.
func DecodeECDHParam(b []byte) (ECDHParam, error) {
	var out [3][]byte
	for i := range out {
		if len(b) < 2 {
			return ECDHParam{}, errors.New("short")
		}
		l := int(binary.BigEndian.Uint16(b))
		b = b[2:]
		if len(b) < l {
			return ECDHParam{}, errors.New("short")
		}
		out[i], b = b[:l], b[l:]
	}
	return ECDHParam{out[0], out[1], out[2]}, nil
}

// ECDHShared computes Sh_x || DeviceRandom || OwnerRandom (FDO 1.1 §3.6.2).
func ECDHShared(priv *ecdh.PrivateKey, peer ECDHParam, deviceRand, ownerRand []byte) ([]byte, error) {
	size := 32
	if priv.Curve() == ecdh.P384() {
		size = 48
	}
	pt := make([]byte, 1+2*size)
	pt[0] = 4
	new(big.Int).SetBytes(peer.X).FillBytes(pt[1 : 1+size])
	new(big.Int).SetBytes(peer.Y).FillBytes(pt[1+size:])
	pub, err := priv.Curve().NewPublicKey(pt)
	if err != nil {
		return nil, err
	}
	shx, err := priv.ECDH(pub)
	if err != nil {
		return nil, err
	}
	return append(append(shx, deviceRand...), ownerRand...), nil
}
