// Package refverify holds independent reference implementations (written from
// RFC 8152/9052, RFC 8230, NIST SP 800-108 and the FDO 1.1 specification text
// with the Go standard library only) used as oracles.
package refverify

import (
	"crypto"
	"crypto/ecdsa"
	"crypto/elliptic"
	"crypto/hmac"
	"crypto/rand"
	"crypto/rsa"
	"crypto/sha256"
	"crypto/sha512"
	"errors"
	"fmt"
	"hash"
	"math/big"

	"verif/harness/refcbor"
)

// COSE algorithm identifiers.
const (
	ES256 = -7
	ES384 = -35
	RS256 = -257
	RS384 = -258
	PS256 = -37
	PS384 = -38
)

// Sign1 is a parsed COSE_Sign1 as it appeared on the wire.
type Sign1 struct {
	Tagged      bool
	Protected   []byte        // content of the protected bstr (serialized map, possibly empty)
	ProtMap     *refcbor.Node // parsed protected map (nil when empty)
	Unprotected *refcbor.Node
	Payload     []byte // content of the payload bstr
	PayloadNil  bool
	Signature   []byte
}

// ParseSign1 parses a (tagged or untagged) COSE_Sign1 / COSE_Mac0-shaped 4-array.
func ParseSign1(wire []byte) (*Sign1, error) {
	n, err := refcbor.ParseAll(wire)
	if err != nil {
		return nil, err
	}
	return Sign1FromNode(n)
}

// Sign1FromNode interprets a node as COSE_Sign1.
func Sign1FromNode(n *refcbor.Node) (*Sign1, error) {
	s := &Sign1{}
	if n.Kind == refcbor.Tag {
		if n.Val != 18 && n.Val != 17 {
			return nil, fmt.Errorf("tag %d", n.Val)
		}
		s.Tagged = true
		n = n.Items[0]
	}
	if n.Kind != refcbor.Array || len(n.Items) != 4 {
		return nil, errors.New("not a 4-array")
	}
	p := n.Items[0]
	if p.Kind != refcbor.Bytes {
		return nil, errors.New("protected is not a bstr")
	}
	s.Protected = p.Bytes
	if p.Inner != nil {
		s.Protected = refcbor.Encode(p.Inner)
	}
	if len(s.Protected) > 0 {
		pm, err := refcbor.ParseAll(s.Protected)
		if err != nil || pm.Kind != refcbor.Map {
			return nil, errors.New("protected is not a serialized map")
		}
		s.ProtMap = pm
	}
	if n.Items[1].Kind != refcbor.Map {
		return nil, errors.New("unprotected is not a map")
	}
	s.Unprotected = n.Items[1]
	switch pl := n.Items[2]; {
	case pl.Kind == refcbor.Bytes:
		s.Payload = pl.Bytes
		if pl.Inner != nil {
			s.Payload = refcbor.Encode(pl.Inner)
		}
	case pl.Kind == refcbor.Simple && (pl.Val == 22 || pl.Val == 23):
		s.PayloadNil = true
	default:
		return nil, errors.New("payload is not bstr/null")
	}
	if n.Items[3].Kind != refcbor.Bytes {
		return nil, errors.New("signature is not a bstr")
	}
	s.Signature = n.Items[3].Bytes
	return s, nil
}

// MapGet returns the value for an integer label in a parsed map.
func MapGet(m *refcbor.Node, label int64) *refcbor.Node {
	if m == nil {
		return nil
	}
	for i := 0; i+1 < len(m.Items); i += 2 {
		k := m.Items[i]
		if (k.Kind == refcbor.Uint && label >= 0 && k.Val == uint64(label)) || (k.Kind == refcbor.Nint && label < 0 && k.Val == uint64(-(label + 1))) {
			return m.Items[i+1]
		}
	}
	return nil
}

// NodeInt returns the int64 value of an integer node.
func NodeInt(n *refcbor.Node) (int64, bool) {
	if n == nil {
		return 0, false
	}
	switch n.Kind {
	case refcbor.Uint:
		if n.Val > 1<<63-1 {
			return 0, false
		}
		return int64(n.Val), true
	case refcbor.Nint:
		if n.Val > 1<<63-1 {
			return 0, false
		}
		return -int64(n.Val) - 1, true
	}
	return 0, false
}

// Alg returns the alg(1) protected header.
func (s *Sign1) Alg() (int64, bool) { return NodeInt(MapGet(s.ProtMap, 1)) }

// SigStructure builds Sig_structure for COSE_Sign1 (RFC 9052 §4.4).
func SigStructure(protected, externalAAD, payload []byte) []byte {
	return refcbor.Encode(refcbor.A(refcbor.T("Signature1"), refcbor.B(nn(protected)), refcbor.B(nn(externalAAD)), refcbor.B(nn(payload))))
}

// MacStructure builds MAC_structure for COSE_Mac0 (RFC 9052 §6.3).
func MacStructure(protected, externalAAD, payload []byte) []byte {
	return refcbor.Encode(refcbor.A(refcbor.T("MAC0"), refcbor.B(nn(protected)), refcbor.B(nn(externalAAD)), refcbor.B(nn(payload))))
}

func nn(b []byte) []byte {
	if b == nil {
		return []byte{}
	}
	return b
}

// HashFor returns the hash of a COSE signature algorithm.
func HashFor(alg int64) (crypto.Hash, bool) {
	switch alg {
	case ES256, RS256, PS256:
		return crypto.SHA256, true
	case ES384, RS384, PS384:
		return crypto.SHA384, true
	}
	return 0, false
}

func digest(h crypto.Hash, msg []byte) []byte {
	if h == crypto.SHA256 {
		s := sha256.Sum256(msg)
		return s[:]
	}
	s := sha512.Sum384(msg)
	return s[:]
}

// VerifyRaw verifies a COSE signature (fixed-width r||s for ECDSA) over tbs.
// The reason is non-empty when verification fails.
func VerifyRaw(pub crypto.PublicKey, alg int64, tbs, sig []byte) (bool, string) {
	h, ok := HashFor(alg)
	if !ok {
		return false, fmt.Sprintf("algorithm %d not supported", alg)
	}
	d := digest(h, tbs)
	switch k := pub.(type) {
	case *ecdsa.PublicKey:
		want := int64(ES256)
		if k.Curve == elliptic.P384() {
			want = ES384
		}
		if alg != want {
			return false, fmt.Sprintf("algorithm %d does not match EC key curve %s", alg, k.Curve.Params().Name)
		}
		n := (k.Curve.Params().N.BitLen() + 7) / 8
		if len(sig) != 2*n {
			return false, fmt.Sprintf("ECDSA signature length %d, must be %d", len(sig), 2*n)
		}
		r, s := new(big.Int).SetBytes(sig[:n]), new(big.Int).SetBytes(sig[n:])
		if !ecdsa.Verify(k, d, r, s) {
			return false, "ECDSA signature does not verify"
		}
		return true, ""
	case *rsa.PublicKey:
		switch alg {
		case RS256, RS384:
			if err := rsa.VerifyPKCS1v15(k, h, d, sig); err != nil {
				return false, "RSA PKCS#1 v1.5 signature does not verify"
			}
			return true, ""
		case PS256, PS384:
			if err := rsa.VerifyPSS(k, h, d, sig, &rsa.PSSOptions{SaltLength: rsa.PSSSaltLengthEqualsHash, Hash: h}); err != nil {
				return false, "RSA PSS signature does not verify"
			}
			return true, ""
		}
		return false, fmt.Sprintf("algorithm %d does not match RSA key", alg)
	}
	return false, "unsupported key type"
}

// VerifySign1 verifies a parsed COSE_Sign1 with optional detached payload and AAD.
func VerifySign1(s *Sign1, pub crypto.PublicKey, detached []byte, aad []byte) (bool, string) {
	alg, ok := s.Alg()
	if !ok {
		return false, "no alg protected header"
	}
	payload := s.Payload
	if s.PayloadNil {
		if detached == nil {
			return false, "no payload"
		}
		payload = detached
	}
	return VerifyRaw(pub, alg, SigStructure(s.Protected, aad, payload), s.Signature)
}

// SignRaw produces a COSE signature (fixed-width r||s for ECDSA) over tbs.
func SignRaw(key crypto.Signer, alg int64, tbs []byte) ([]byte, error) {
	h, ok := HashFor(alg)
	if !ok {
		return nil, fmt.Errorf("algorithm %d", alg)
	}
	d := digest(h, tbs)
	switch k := key.(type) {
	case *ecdsa.PrivateKey:
		r, s, err := ecdsa.Sign(rand.Reader, k, d)
		if err != nil {
			return nil, err
		}
		n := (k.Curve.Params().N.BitLen() + 7) / 8
		out := make([]byte, 2*n)
		r.FillBytes(out[:n])
		s.FillBytes(out[n:])
		return out, nil
	case *rsa.PrivateKey:
		if alg == PS256 || alg == PS384 {
			return rsa.SignPSS(rand.Reader, k, h, d, &rsa.PSSOptions{SaltLength: rsa.PSSSaltLengthEqualsHash, Hash: h})
		}
		return rsa.SignPKCS1v15(rand.Reader, k, h, d)
	}
	return nil, errors.New("unsupported key")
}

// Hmac computes HMAC-SHA256 (alg 5) / HMAC-SHA384 (alg 6).
func Hmac(alg int64, key, msg []byte) ([]byte, bool) {
	var h func() hash.Hash
	switch alg {
	case 5:
		h = sha256.New
	case 6:
		h = sha512.New384
	default:
		return nil, false
	}
	m := hmac.New(h, key)
	m.Write(msg)
	return m.Sum(nil), true
}
