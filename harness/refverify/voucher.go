package refverify

import (
	"bytes"
	"crypto"
	"crypto/ecdsa"
	"crypto/elliptic"
	"crypto/rsa"
	"crypto/sha256"
	"crypto/sha512"
	"crypto/x509"
	"errors"
	"fmt"
	"math/big"

	"verif/harness/refcbor"
)

// Voucher is an ownership voucher parsed from its wire bytes, keeping the
// byte ranges that hashes and MACs are defined over (FDO 1.1 §3.4).
type Voucher struct {
	Raw         []byte
	Root        *refcbor.Node
	Version     uint64
	HeaderBytes []byte // content of the OVHeaderTag bstr = encoded OVHeader
	Header      *Header
	HmacItem    []byte // encoded OVHeaderHMac item
	HmacAlg     int64
	HmacVal     []byte
	CertChain   [][]byte // DER, nil when null
	Entries     []*Entry
}

// Header is a parsed OVHeader.
type Header struct {
	Node       *refcbor.Node
	Version    uint64
	GUID       []byte
	RvInfo     *refcbor.Node
	DeviceInfo []byte
	PubKeyItem []byte // encoded PublicKey item (what the key hash is computed over)
	PubKey     *refcbor.Node
	CertHash   *HashVal // nil when null
}

// HashVal is [alg, value].
type HashVal struct {
	Alg int64
	Val []byte
}

// Entry is one OVEntry (COSE_Sign1 tag 18).
type Entry struct {
	Item       []byte // encoded entry as on the wire (tagged)
	Sign1      *Sign1
	PrevHash   HashVal
	HdrHash    HashVal
	PubKeyItem []byte
	PubKey     *refcbor.Node
}

func parseHash(n *refcbor.Node) (*HashVal, error) {
	if n.Kind != refcbor.Array || len(n.Items) != 2 || n.Items[1].Kind != refcbor.Bytes {
		return nil, errors.New("hash is not [int, bstr]")
	}
	alg, ok := NodeInt(n.Items[0])
	if !ok {
		return nil, errors.New("hash algorithm is not an integer")
	}
	return &HashVal{alg, n.Items[1].Bytes}, nil
}

// ParseHeader parses an encoded OVHeader.
func ParseHeader(b []byte) (*Header, error) {
	n, err := refcbor.ParseAll(b)
	if err != nil {
		return nil, err
	}
	if n.Kind != refcbor.Array || len(n.Items) != 6 {
		return nil, errors.New("OVHeader is not a 6-array")
	}
	h := &Header{Node: n}
	it := n.Items
	if it[0].Kind != refcbor.Uint || it[1].Kind != refcbor.Bytes || len(it[1].Bytes) != 16 || it[2].Kind != refcbor.Array || it[3].Kind != refcbor.Text || it[4].Kind != refcbor.Array {
		return nil, errors.New("OVHeader field types")
	}
	h.Version, h.GUID, h.RvInfo, h.DeviceInfo = it[0].Val, it[1].Bytes, it[2], it[3].Bytes
	h.PubKey, h.PubKeyItem = it[4], b[it[4].Off:it[4].End]
	if !(it[5].Kind == refcbor.Simple && (it[5].Val == 22 || it[5].Val == 23)) {
		hv, err := parseHash(it[5])
		if err != nil {
			return nil, err
		}
		h.CertHash = hv
	}
	return h, nil
}

// ParseVoucher parses an encoded OwnershipVoucher.
func ParseVoucher(b []byte) (*Voucher, error) {
	n, err := refcbor.ParseAll(b)
	if err != nil {
		return nil, err
	}
	if n.Kind != refcbor.Array || len(n.Items) != 5 {
		return nil, errors.New("voucher is not a 5-array")
	}
	v := &Voucher{Raw: b, Root: n}
	it := n.Items
	if it[0].Kind != refcbor.Uint || it[1].Kind != refcbor.Bytes || it[4].Kind != refcbor.Array {
		return nil, errors.New("voucher field types")
	}
	v.Version, v.HeaderBytes = it[0].Val, it[1].Bytes
	if v.Header, err = ParseHeader(v.HeaderBytes); err != nil {
		return nil, fmt.Errorf("header: %w", err)
	}
	hm, err := parseHash(it[2])
	if err != nil {
		return nil, fmt.Errorf("hmac: %w", err)
	}
	v.HmacItem, v.HmacAlg, v.HmacVal = b[it[2].Off:it[2].End], hm.Alg, hm.Val
	if it[3].Kind == refcbor.Array {
		v.CertChain = [][]byte{}
		for _, c := range it[3].Items {
			if c.Kind != refcbor.Bytes {
				return nil, errors.New("cert chain element is not a bstr")
			}
			v.CertChain = append(v.CertChain, c.Bytes)
		}
	} else if !(it[3].Kind == refcbor.Simple && (it[3].Val == 22 || it[3].Val == 23)) {
		return nil, errors.New("cert chain is not array/null")
	}
	for i, e := range it[4].Items {
		en, err := ParseEntry(b[e.Off:e.End])
		if err != nil {
			return nil, fmt.Errorf("entry %d: %w", i, err)
		}
		v.Entries = append(v.Entries, en)
	}
	return v, nil
}

// ParseEntry parses one encoded OVEntry.
func ParseEntry(item []byte) (*Entry, error) {
	s1, err := ParseSign1(item)
	if err != nil {
		return nil, err
	}
	if !s1.Tagged {
		return nil, errors.New("entry is not tagged")
	}
	if s1.PayloadNil {
		return nil, errors.New("entry has no payload")
	}
	p, err := refcbor.ParseAll(s1.Payload)
	if err != nil || p.Kind != refcbor.Array || len(p.Items) != 4 {
		return nil, errors.New("entry payload is not a 4-array")
	}
	ph, err := parseHash(p.Items[0])
	if err != nil {
		return nil, err
	}
	hh, err := parseHash(p.Items[1])
	if err != nil {
		return nil, err
	}
	return &Entry{Item: item, Sign1: s1, PrevHash: *ph, HdrHash: *hh, PubKey: p.Items[3], PubKeyItem: s1.Payload[p.Items[3].Off:p.Items[3].End]}, nil
}

// PublicKeyFromNode decodes an FDO PublicKey [type, enc, body].
func PublicKeyFromNode(n *refcbor.Node) (crypto.PublicKey, int64, int64, error) {
	if n.Kind != refcbor.Array || len(n.Items) != 3 {
		return nil, 0, 0, errors.New("PublicKey is not a 3-array")
	}
	typ, ok1 := NodeInt(n.Items[0])
	enc, ok2 := NodeInt(n.Items[1])
	if !ok1 || !ok2 {
		return nil, 0, 0, errors.New("PublicKey type/enc")
	}
	body := n.Items[2]
	var pub crypto.PublicKey
	switch enc {
	case 1: // X509: bstr with SubjectPublicKeyInfo
		if body.Kind != refcbor.Bytes {
			return nil, typ, enc, errors.New("x509 body is not a bstr")
		}
		k, err := x509.ParsePKIXPublicKey(body.Bytes)
		if err != nil {
			return nil, typ, enc, err
		}
		pub = k
	case 2: // X5CHAIN: array of cert bstrs, leaf first
		if body.Kind != refcbor.Array || len(body.Items) == 0 || body.Items[0].Kind != refcbor.Bytes {
			return nil, typ, enc, errors.New("x5chain body")
		}
		c, err := x509.ParseCertificate(body.Items[0].Bytes)
		if err != nil {
			return nil, typ, enc, err
		}
		pub = c.PublicKey
	case 3: // COSE_Key (EC2)
		if body.Kind != refcbor.Map {
			return nil, typ, enc, errors.New("cose key body")
		}
		kty, _ := NodeInt(MapGet(body, 1))
		crv, _ := NodeInt(MapGet(body, -1))
		x, y := MapGet(body, -2), MapGet(body, -3)
		if kty != 2 || x == nil || y == nil || x.Kind != refcbor.Bytes || y.Kind != refcbor.Bytes {
			return nil, typ, enc, errors.New("unsupported cose key")
		}
		var curve elliptic.Curve
		switch crv {
		case 1:
			curve = elliptic.P256()
		case 2:
			curve = elliptic.P384()
		default:
			return nil, typ, enc, errors.New("unsupported cose curve")
		}
		pub = &ecdsa.PublicKey{Curve: curve, X: new(big.Int).SetBytes(x.Bytes), Y: new(big.Int).SetBytes(y.Bytes)}
	default:
		return nil, typ, enc, fmt.Errorf("unsupported key encoding %d", enc)
	}
	// key type consistency
	switch k := pub.(type) {
	case *ecdsa.PublicKey:
		if !(typ == 10 && k.Curve == elliptic.P256()) && !(typ == 11 && k.Curve == elliptic.P384()) {
			return nil, typ, enc, fmt.Errorf("key type %d does not match EC key on %s", typ, k.Curve.Params().Name)
		}
	case *rsa.PublicKey:
		if typ != 1 && typ != 5 && typ != 6 {
			return nil, typ, enc, fmt.Errorf("key type %d does not match an RSA key", typ)
		}
	default:
		return nil, typ, enc, errors.New("unsupported key")
	}
	return pub, typ, enc, nil
}

func hashBytes(alg int64, parts ...[]byte) ([]byte, bool) {
	switch alg {
	case -16:
		h := sha256.New()
		for _, p := range parts {
			h.Write(p)
		}
		return h.Sum(nil), true
	case -43:
		h := sha512.New384()
		for _, p := range parts {
			h.Write(p)
		}
		return h.Sum(nil), true
	}
	return nil, false
}

// VerifyHeaderHmac checks OVHeaderHMac = HMAC[secret, OVHeader].
func (v *Voucher) VerifyHeaderHmac(secret []byte) (bool, string) {
	want, ok := Hmac(v.HmacAlg, secret, v.HeaderBytes)
	if !ok {
		return false, fmt.Sprintf("HMAC algorithm %d not supported", v.HmacAlg)
	}
	if !bytes.Equal(want, v.HmacVal) {
		return false, "header HMAC does not verify under the device secret"
	}
	return true, ""
}

// VerifyMfgKeyHash checks hash(OVPubKey) against the device credential's hash.
func (v *Voucher) VerifyMfgKeyHash(alg int64, val []byte) (bool, string) {
	got, ok := hashBytes(alg, v.Header.PubKeyItem)
	if !ok {
		return false, fmt.Sprintf("hash algorithm %d not supported", alg)
	}
	if !bytes.Equal(got, val) {
		return false, "manufacturer key hash does not match the device credential"
	}
	return true, ""
}

// VerifyCertChainHash checks OVDevCertChainHash.
func (v *Voucher) VerifyCertChainHash() (bool, string) {
	if v.CertChain == nil && v.Header.CertHash == nil {
		return true, ""
	}
	if v.CertChain == nil || v.Header.CertHash == nil {
		return false, "cert chain and hash must both be present or absent"
	}
	got, ok := hashBytes(v.Header.CertHash.Alg, v.CertChain...)
	if !ok {
		return false, "cert chain hash algorithm not supported"
	}
	if !bytes.Equal(got, v.Header.CertHash.Val) {
		return false, "device certificate chain hash does not match"
	}
	return true, ""
}

// OwnerKey returns the public key of the last entry (or the manufacturer key).
func (v *Voucher) OwnerKey() (crypto.PublicKey, error) {
	n := v.Header.PubKey
	if len(v.Entries) > 0 {
		n = v.Entries[len(v.Entries)-1].PubKey
	}
	k, _, _, err := PublicKeyFromNode(n)
	return k, err
}

// VerifyEntries checks the entry chain link by link (FDO 1.1 §3.4.3 / §5.5.x).
func (v *Voucher) VerifyEntries() (bool, string) {
	prevKey, mtyp, _, err := PublicKeyFromNode(v.Header.PubKey)
	if err != nil {
		return false, "manufacturer key: " + err.Error()
	}
	if len(v.Entries) == 0 {
		return true, ""
	}
	alg := v.Entries[0].PrevHash.Alg
	hdrInfo, ok := hashBytes(alg, v.Header.GUID, v.Header.DeviceInfo)
	if !ok {
		return false, fmt.Sprintf("entry hash algorithm %d not supported", alg)
	}
	prev, _ := hashBytes(alg, v.HeaderBytes, v.HmacItem)
	for i, e := range v.Entries {
		if ok, why := VerifySign1(e.Sign1, prevKey, nil, nil); !ok {
			return false, fmt.Sprintf("entry %d signature: %s", i, why)
		}
		if e.HdrHash.Alg != alg || !bytes.Equal(e.HdrHash.Val, hdrInfo) {
			return false, fmt.Sprintf("entry %d header hash does not match hash[GUID||DeviceInfo]", i)
		}
		if e.PrevHash.Alg != alg || !bytes.Equal(e.PrevHash.Val, prev) {
			return false, fmt.Sprintf("entry %d previous-entry hash does not match", i)
		}
		k, typ, _, err := PublicKeyFromNode(e.PubKey)
		if err != nil {
			return false, fmt.Sprintf("entry %d public key: %v", i, err)
		}
		_ = typ
		_ = mtyp
		prevKey = k
		prev, _ = hashBytes(alg, e.Item)
	}
	return true, ""
}
