// Package ev is the shared evidence/violation/known-finding machinery of the
// verification harness. Every property test package drives its generated cases
// through Rapid / Enum, which count cases, hash non-trivial descriptors, sample
// them, shrink failures (rapid) and write replay files.
package ev

import (
	"encoding/binary"
	"encoding/json"
	"flag"
	"fmt"
	"hash/fnv"
	"os"
	"path/filepath"
	"regexp"
	"runtime"
	"sort"
	"strconv"
	"strings"
	"sync"
	"testing"
	"time"

	"pgregory.net/rapid"
)

// Result is the verdict of one evaluated case.
type Result struct {
	NonTrivial bool   // non-trivial by the sub-property's stated rule
	Class      string // histogram class (generator distribution)
	ID         string // optional distinctness key (defaults to the descriptor JSON)
	Fail       string // non-empty: the property is violated on this case
	Key        string // violation class key (known-finding matching, de-duplication)
	Skip       bool   // case not executed (outside the domain); not counted
}

// OK is a passing, non-trivial result with a class.
func OK(class string) Result { return Result{NonTrivial: true, Class: class} }

// Trivial is a passing, trivial result with a class.
func Trivial(class string) Result { return Result{Class: class} }

// Failf builds a violation.
func Failf(key, format string, a ...any) Result {
	return Result{NonTrivial: true, Fail: fmt.Sprintf(format, a...), Key: key, Class: "FAIL:" + key}
}

// N is the number of cases per tier (total over all shards).
type N struct{ Quick, Thorough int }

// Violation is one recorded failing case.
type Violation struct {
	Sub    string          `json:"sub"`
	Key    string          `json:"key"`
	Msg    string          `json:"msg"`
	Replay string          `json:"replay"`
	Desc   json.RawMessage `json:"desc"`
}

// KnownFinding is an entry of /verif/known_findings.json.
type KnownFinding struct {
	Property string          `json:"property"`
	Status   string          `json:"status"` // "known" or "fixed"
	Key      string          `json:"key"`    // regexp matched against the violation key
	Sub      string          `json:"sub,omitempty"`     // sub-property the witness belongs to (and, unless AnySub, the only one matched)
	AnySub   bool            `json:"any_sub,omitempty"` // match the key in every sub-property
	What     string          `json:"what"`
	Commit   string          `json:"commit,omitempty"`
	Witness  json.RawMessage `json:"witness,omitempty"` // descriptor that must still fail (known only)
	re       *regexp.Regexp
}

type subStats struct {
	Evaluations int            `json:"evaluations"`
	NonTrivial  int            `json:"nontrivial_total"`
	Classes     map[string]int `json:"classes"`
	Samples     []any          `json:"samples"`
	Excluded    int            `json:"excluded_known"`
	Exhaustive  bool           `json:"exhaustive"`
	Requested   int            `json:"requested"`
	Rule        string         `json:"rule"`
	hashes      map[uint64]struct{}
}

// Run is the per-process collector.
type Run struct {
	T       *testing.T
	Prop    string
	Tier    string
	Seed    uint64
	Shard   int
	NShards int
	OutDir  string
	Verif   string

	mu         sync.Mutex
	subs       map[string]*subStats
	order      []string
	violations []Violation
	knownSeen  map[string]int
	known      []*KnownFinding
	replay     *replayFile
	replayHit  bool
	start      time.Time
	sidecar    *os.File
	notes      []string
}

type replayFile struct {
	Prop string          `json:"prop"`
	Sub  string          `json:"sub"`
	Key  string          `json:"key"`
	Msg  string          `json:"msg"`
	Desc json.RawMessage `json:"desc"`
}

func envInt(name string, def int) int {
	if v := os.Getenv(name); v != "" {
		if n, err := strconv.Atoi(v); err == nil {
			return n
		}
	}
	return def
}

// Start creates the collector from the environment set by /verif/check.
func Start(t *testing.T, prop string) *Run {
	r := &Run{
		T: t, Prop: prop,
		Tier:      os.Getenv("VERIF_TIER"),
		Shard:     envInt("VERIF_SHARD", 0),
		NShards:   envInt("VERIF_NSHARDS", 1),
		OutDir:    os.Getenv("VERIF_OUT"),
		Verif:     os.Getenv("VERIF_DIR"),
		subs:      map[string]*subStats{},
		knownSeen: map[string]int{},
		start:     time.Now(),
	}
	if r.Tier == "" {
		r.Tier = "quick"
	}
	if r.Verif == "" {
		r.Verif = "/verif"
	}
	seed := os.Getenv("VERIF_SEED")
	if seed == "" {
		seed = "1"
	}
	if n, err := strconv.ParseUint(seed, 10, 64); err == nil {
		r.Seed = n
	} else {
		h := fnv.New64a()
		h.Write([]byte(seed))
		r.Seed = h.Sum64()
	}
	// known findings
	if b, err := os.ReadFile(filepath.Join(r.Verif, "known_findings.json")); err == nil {
		var all struct {
			Findings []*KnownFinding `json:"findings"`
		}
		if err := json.Unmarshal(b, &all); err != nil {
			t.Fatalf("known_findings.json: %v", err)
		}
		for _, k := range all.Findings {
			if k.Property == prop && k.Status == "known" {
				k.re = regexp.MustCompile(k.Key)
				r.known = append(r.known, k)
			}
		}
	}
	if p := os.Getenv("VERIF_REPLAY"); p != "" {
		b, err := os.ReadFile(p)
		if err != nil {
			t.Fatalf("replay file: %v", err)
		}
		var rf replayFile
		if err := json.Unmarshal(b, &rf); err != nil {
			t.Fatalf("replay file: %v", err)
		}
		r.replay = &rf
	}
	if r.OutDir != "" {
		_ = os.MkdirAll(r.OutDir, 0o755)
		if os.Getenv("VERIF_SIDECAR") != "" {
			f, err := os.Create(filepath.Join(r.OutDir, fmt.Sprintf("sidecar-%d.json", r.Shard)))
			if err == nil {
				r.sidecar = f
			}
		}
	}
	return r
}

// Thorough reports whether the thorough tier is running.
func (r *Run) Thorough() bool { return r.Tier == "thorough" }

// Replaying reports whether a single descriptor is being replayed.
func (r *Run) Replaying() bool { return r.replay != nil }

// Note records a free-text remark into the evidence.
func (r *Run) Note(format string, a ...any) {
	r.mu.Lock()
	r.notes = append(r.notes, fmt.Sprintf(format, a...))
	r.mu.Unlock()
}

func (r *Run) sub(name string) *subStats {
	s := r.subs[name]
	if s == nil {
		s = &subStats{Classes: map[string]int{}, hashes: map[uint64]struct{}{}}
		r.subs[name] = s
		r.order = append(r.order, name)
	}
	return s
}

// SetRule records the generator / non-trivial rule text of a sub-property.
func (r *Run) SetRule(sub, rule string) {
	r.mu.Lock()
	r.sub(sub).Rule = rule
	r.mu.Unlock()
}

func hash64(b []byte) uint64 {
	h := fnv.New64a()
	h.Write(b)
	return h.Sum64()
}

// HitKnown lets an evaluator that continues past a known finding (so that the
// search goes on behind it) count the exclusion. It returns true when key is a
// listed known finding.
func (r *Run) HitKnown(sub, key string) bool {
	r.mu.Lock()
	defer r.mu.Unlock()
	k := r.IsKnown(sub, key)
	if k == nil {
		return false
	}
	r.knownSeen[k.Key]++
	r.sub(sub).Excluded++
	return true
}

// IsKnown reports whether key matches a recorded known finding for this property.
func (r *Run) IsKnown(sub, key string) *KnownFinding {
	for _, k := range r.known {
		if k.Sub != "" && k.Sub != sub && !k.AnySub {
			continue
		}
		if k.re.MatchString(key) {
			return k
		}
	}
	return nil
}

func shorten(v any) any {
	b, err := json.Marshal(v)
	if err != nil {
		return fmt.Sprintf("%v", v)
	}
	if len(b) > 1500 {
		return string(b[:1500]) + "...(truncated)"
	}
	return json.RawMessage(b)
}

// record accounts one evaluated case; it returns true when the case is an
// unlisted violation.
func (r *Run) record(sub string, desc any, descJSON []byte, res Result) bool {
	r.mu.Lock()
	defer r.mu.Unlock()
	s := r.sub(sub)
	if res.Skip {
		s.Classes["skipped"]++
		return false
	}
	s.Evaluations++
	if res.Class != "" {
		s.Classes[res.Class]++
	}
	if res.Fail != "" && (strings.HasPrefix(res.Key, "hang") || strings.HasPrefix(res.Key, "slow")) {
		// hangs make shrinking slow and may get the worker killed: log them at once
		fmt.Fprintf(os.Stderr, "URGENT %s/%s key=%s desc=%s\n", r.Prop, sub, res.Key, descJSON)
	}
	if res.Fail != "" {
		if k := r.IsKnown(sub, res.Key); k != nil {
			s.Excluded++
			r.knownSeen[k.Key]++
			return false
		}
	}
	if res.NonTrivial {
		s.NonTrivial++
		var id []byte
		if res.ID != "" {
			id = []byte(res.ID)
		} else {
			id = descJSON
		}
		h := hash64(append([]byte(sub+"|"), id...))
		if _, dup := s.hashes[h]; !dup {
			s.hashes[h] = struct{}{}
			// keep a few samples: first 2, then sparse
			n := len(s.hashes)
			if len(s.Samples) < 3 || (len(s.Samples) < 6 && n%997 == 0) {
				s.Samples = append(s.Samples, shorten(desc))
			}
		}
	}
	return res.Fail != ""
}

func (r *Run) addViolation(sub string, descJSON []byte, res Result) {
	r.mu.Lock()
	defer r.mu.Unlock()
	for _, v := range r.violations {
		if v.Sub == sub && v.Key == res.Key {
			return
		}
	}
	dir := filepath.Join(r.Verif, "replays", r.Prop)
	if alt := os.Getenv("VERIF_REPLAYS"); alt != "" {
		dir = filepath.Join(alt, r.Prop)
	}
	_ = os.MkdirAll(dir, 0o755)
	name := fmt.Sprintf("%s-%016x.json", sanitize(sub), hash64(append([]byte(res.Key), descJSON...)))
	path := filepath.Join(dir, name)
	rf := replayFile{Prop: r.Prop, Sub: sub, Key: res.Key, Msg: res.Fail, Desc: json.RawMessage(descJSON)}
	b, _ := json.MarshalIndent(rf, "", " ")
	_ = os.WriteFile(path, b, 0o644)
	r.violations = append(r.violations, Violation{Sub: sub, Key: res.Key, Msg: res.Fail, Replay: path, Desc: json.RawMessage(descJSON)})
}

func sanitize(s string) string {
	return strings.Map(func(c rune) rune {
		if c >= 'a' && c <= 'z' || c >= 'A' && c <= 'Z' || c >= '0' && c <= '9' || c == '-' || c == '_' {
			return c
		}
		return '_'
	}, s)
}

func (r *Run) writeSidecar(sub string, descJSON []byte) {
	if r.sidecar == nil {
		return
	}
	rf := replayFile{Prop: r.Prop, Sub: sub, Key: "process-death", Msg: "worker died while executing this case", Desc: json.RawMessage(descJSON)}
	b, _ := json.Marshal(rf)
	_, _ = r.sidecar.WriteAt(b, 0)
	_ = r.sidecar.Truncate(int64(len(b)))
}

// PanicKey derives a stable key from a recovered panic: top go-fdo frame + message class.
func PanicKey(p any, stack []byte) string {
	frame := "?"
	lines := strings.Split(string(stack), "\n")
	for i := 0; i+1 < len(lines); i++ {
		l := lines[i]
		if strings.HasPrefix(l, "github.com/fido-device-onboard/go-fdo") && !strings.Contains(l, "verif/harness") {
			fn := l
			if j := strings.LastIndex(fn, "("); j > 0 {
				fn = fn[:j]
			}
			fn = strings.TrimPrefix(fn, "github.com/fido-device-onboard/go-fdo")
			// strip generic instantiation noise
			if j := strings.Index(fn, "["); j > 0 {
				if k := strings.LastIndex(fn, "]"); k > j {
					fn = fn[:j] + fn[k+1:]
				}
			}
			frame = fn
			break
		}
	}
	msg := fmt.Sprint(p)
	msg = regexp.MustCompile(`0x[0-9a-f]+|\d+`).ReplaceAllString(msg, "N")
	if len(msg) > 80 {
		msg = msg[:80]
	}
	return "panic:" + frame + ":" + msg
}

// Safe runs eval, converting a panic into a violation result.
func Safe[D any](eval func(D) Result, d D) (res Result) {
	defer func() {
		if p := recover(); p != nil {
			buf := make([]byte, 1<<16)
			buf = buf[:runtime.Stack(buf, false)]
			key := PanicKey(p, buf)
			res = Result{NonTrivial: true, Fail: fmt.Sprintf("panic: %v", p), Key: key, Class: "FAIL:" + key}
		}
	}()
	return eval(d)
}

// Guard runs fn and converts a panic into (key, msg); ok=true when no panic.
func Guard(fn func()) (key, msg string, ok bool) {
	defer func() {
		if p := recover(); p != nil {
			buf := make([]byte, 1<<16)
			buf = buf[:runtime.Stack(buf, false)]
			key = PanicKey(p, buf)
			msg = fmt.Sprintf("panic: %v", p)
			ok = false
		}
	}()
	fn()
	return "", "", true
}

// WithTimeout runs fn in a goroutine; returns false if it did not return in time.
func WithTimeout(d time.Duration, fn func()) bool {
	done := make(chan struct{})
	go func() { defer close(done); fn() }()
	select {
	case <-done:
		return true
	case <-time.After(d):
		return false
	}
}

func (r *Run) count(n N) int {
	total := n.Quick
	if r.Thorough() {
		total = n.Thorough
	}
	per := (total + r.NShards - 1) / r.NShards
	if per < 1 {
		per = 1
	}
	return per
}

func (r *Run) rapidSeed(sub string) uint64 {
	var b [8]byte
	binary.LittleEndian.PutUint64(b[:], r.Seed)
	s := hash64(append(b[:], []byte(fmt.Sprintf("|%s|%s|%d", r.Prop, sub, r.Shard))...))
	s &= 0x7fffffffffffffff
	if s == 0 {
		s = 1
	}
	return s
}

// Rapid drives a rapid property: gen draws a JSON-serialisable descriptor, eval
// decides it. Failures are shrunk by rapid; the minimal descriptor becomes the
// replay file.
// confirmed re-evaluates a failure whose verdict depends on a wall-clock watchdog
// or an allocation meter (keys hang*, slow*, alloc*): it is a violation only when it
// fails the same way three times in a row; otherwise the case is counted as
// inconclusive (a loaded machine, a GC cycle of a neighbour case) and not reported.
func confirmed[D any](r *Run, sub string, eval func(D) Result, d D, res Result) Result {
	if res.Fail == "" || !(strings.HasPrefix(res.Key, "hang") || strings.HasPrefix(res.Key, "slow") || strings.HasPrefix(res.Key, "alloc")) {
		return res
	}
	for i := 0; i < 2; i++ {
		again := Safe(eval, d)
		if again.Fail == "" || again.Key != res.Key {
			r.Note("%s: a %s verdict did not reproduce on re-evaluation and was not counted", sub, res.Key)
			if again.Fail != "" {
				return again
			}
			again.Class = "timing-verdict-not-reproduced"
			again.NonTrivial = false
			return again
		}
	}
	return res
}

func Rapid[D any](r *Run, sub string, n N, gen func(*rapid.T) D, eval func(D) Result) {
	if r.replay != nil {
		replayOne(r, sub, eval)
		return
	}
	per := r.count(n)
	r.mu.Lock()
	r.sub(sub).Requested += per
	r.mu.Unlock()
	_ = os.RemoveAll("testdata/rapid")
	mustSet("rapid.checks", strconv.Itoa(per))
	mustSet("rapid.seed", strconv.FormatUint(r.rapidSeed(sub), 10))
	mustSet("rapid.nofailfile", "true")
	mustSet("rapid.shrinktime", "20s")
	var lastFail struct {
		json []byte
		res  Result
		set  bool
	}
	tb := &quietTB{}
	r.T.Run(sub, func(t *testing.T) {
		tb.TB = t
		rapid.Check(tb, func(rt *rapid.T) {
			d := gen(rt)
			dj, err := json.Marshal(d)
			if err != nil {
				panic(fmt.Sprintf("descriptor not serialisable: %v", err))
			}
			r.writeSidecar(sub, dj)
			res := confirmed(r, sub, eval, d, Safe(eval, d))
			if r.record(sub, d, dj, res) {
				lastFail.json, lastFail.res, lastFail.set = dj, res, true
				rt.Fatalf("VIOLATION %s/%s key=%s: %s", r.Prop, sub, res.Key, res.Fail)
			}
		})
	})
	if lastFail.set {
		for _, m := range tb.msgs {
			if strings.Contains(m, "flaky test") {
				lastFail.res.Fail += " [rapid: failure did not reproduce deterministically while shrinking]"
			}
		}
		r.addViolation(sub, lastFail.json, lastFail.res)
	} else if tb.failed {
		r.T.Errorf("rapid failed without a recorded violation in %s/%s: %v", r.Prop, sub, tb.msgs)
	}
}

// quietTB swallows rapid's failure so that the go test process exit status stays
// under the collector's control (violations are reported through the shard file).
type quietTB struct {
	testing.TB
	failed bool
	msgs   []string
}

func (q *quietTB) note(s string) {
	q.failed = true
	if len(s) > 400 {
		s = s[:400]
	}
	q.msgs = append(q.msgs, s)
	q.TB.Log(s)
}
func (q *quietTB) Errorf(format string, a ...any) { q.note(fmt.Sprintf(format, a...)) }
func (q *quietTB) Error(a ...any)                 { q.note(fmt.Sprint(a...)) }
func (q *quietTB) Fatalf(format string, a ...any) { q.note(fmt.Sprintf(format, a...)); q.TB.SkipNow() }
func (q *quietTB) Fatal(a ...any)                 { q.note(fmt.Sprint(a...)); q.TB.SkipNow() }
func (q *quietTB) Fail()                          { q.failed = true }
func (q *quietTB) FailNow()                       { q.failed = true; q.TB.SkipNow() }
func (q *quietTB) Failed() bool                   { return q.failed }

func mustSet(name, val string) {
	if err := flag.Set(name, val); err != nil {
		panic(err)
	}
}

// Enum drives an explicit enumeration (exhaustive spaces, sweeps). The
// enumerator must itself restrict to this shard using r.Mine(i) where useful.
func Enum[D any](r *Run, sub string, exhaustive bool, enum func(yield func(D) bool), eval func(D) Result) {
	if r.replay != nil {
		replayOne(r, sub, eval)
		return
	}
	r.mu.Lock()
	r.sub(sub).Exhaustive = exhaustive
	r.mu.Unlock()
	nviol := 0
	enum(func(d D) bool {
		dj, err := json.Marshal(d)
		if err != nil {
			panic(fmt.Sprintf("descriptor not serialisable: %v", err))
		}
		res := confirmed(r, sub, eval, d, Safe(eval, d))
		if r.record(sub, d, dj, res) {
			r.addViolation(sub, dj, res)
			nviol++
		}
		return nviol < 50
	})
}

// One evaluates a single hand-written descriptor (regression / positive control).
func One[D any](r *Run, sub string, d D, eval func(D) Result) {
	Enum(r, sub, false, func(yield func(D) bool) { yield(d) }, eval)
}

// Mine reports whether enumeration index i belongs to this shard.
func (r *Run) Mine(i int) bool { return i%r.NShards == r.Shard }

func replayOne[D any](r *Run, sub string, eval func(D) Result) {
	if r.replay.Sub != sub {
		return
	}
	r.replayHit = true
	var d D
	if err := json.Unmarshal(r.replay.Desc, &d); err != nil {
		r.T.Fatalf("replay descriptor does not decode for %s: %v", sub, err)
	}
	res := confirmed(r, sub, eval, d, Safe(eval, d))
	if res.Fail != "" {
		fmt.Printf("REPLAY-RESULT violation key=%s msg=%s\n", res.Key, res.Fail)
		r.mu.Lock()
		r.violations = append(r.violations, Violation{Sub: sub, Key: res.Key, Msg: res.Fail, Replay: os.Getenv("VERIF_REPLAY"), Desc: r.replay.Desc})
		r.mu.Unlock()
	} else {
		fmt.Printf("REPLAY-RESULT pass class=%s\n", res.Class)
	}
}

// CheckWitnesses replays the witness descriptor of every known finding of this
// property through the given evaluator table; the driver prints KNOWN-FINDING
// only for findings whose witness still fails.
func CheckWitness[D any](r *Run, sub string, eval func(D) Result) {
	if r.replay != nil {
		return
	}
	for _, k := range r.known {
		if k.Sub != sub || len(k.Witness) == 0 {
			continue
		}
		var d D
		if err := json.Unmarshal(k.Witness, &d); err != nil {
			r.T.Fatalf("known finding witness does not decode (%s): %v", k.Key, err)
		}
		res := confirmed(r, sub, eval, d, Safe(eval, d))
		r.mu.Lock()
		if res.Fail != "" && k.re.MatchString(res.Key) {
			r.knownSeen["witness:"+k.Key]++
		} else {
			r.knownSeen["witness-pass:"+k.Key]++
		}
		r.mu.Unlock()
	}
}

type shardOut struct {
	Prop       string               `json:"prop"`
	Tier       string               `json:"tier"`
	Seed       uint64               `json:"seed"`
	Shard      int                  `json:"shard"`
	Subs       map[string]*subStats `json:"subs"`
	Order      []string             `json:"order"`
	Violations []Violation          `json:"violations"`
	KnownSeen  map[string]int       `json:"known_seen"`
	Notes      []string             `json:"notes"`
	WallS      float64              `json:"wall_s"`
	GoVersion  string               `json:"go_version"`
	ReplayHit  bool                 `json:"replay_hit"`
}

// Finish writes the shard result file.
func (r *Run) Finish() {
	r.mu.Lock()
	defer r.mu.Unlock()
	out := shardOut{Prop: r.Prop, Tier: r.Tier, Seed: r.Seed, Shard: r.Shard, Subs: r.subs, Order: r.order,
		Violations: r.violations, KnownSeen: r.knownSeen, Notes: r.notes, WallS: time.Since(r.start).Seconds(),
		GoVersion: runtime.Version(), ReplayHit: r.replayHit}
	if r.OutDir == "" {
		// stand-alone `go test` use: fail the test on violations
		for _, v := range r.violations {
			r.T.Errorf("VIOLATION property=%s sub=%s key=%s replay=%s: %s", r.Prop, v.Sub, v.Key, v.Replay, v.Msg)
		}
		return
	}
	b, _ := json.Marshal(out)
	if err := os.WriteFile(filepath.Join(r.OutDir, fmt.Sprintf("shard-%d.json", r.Shard)), b, 0o644); err != nil {
		r.T.Fatalf("writing shard file: %v", err)
	}
	// hashes, binary
	for name, s := range r.subs {
		hs := make([]uint64, 0, len(s.hashes))
		for h := range s.hashes {
			hs = append(hs, h)
		}
		sort.Slice(hs, func(i, j int) bool { return hs[i] < hs[j] })
		buf := make([]byte, 8*len(hs))
		for i, h := range hs {
			binary.LittleEndian.PutUint64(buf[8*i:], h)
		}
		_ = os.WriteFile(filepath.Join(r.OutDir, fmt.Sprintf("hashes-%d-%s.bin", r.Shard, sanitize(name))), buf, 0o644)
	}
	if r.sidecar != nil {
		name := r.sidecar.Name()
		_ = r.sidecar.Close()
		_ = os.Remove(name)
	}
}

// Fuzz turns a rapid generator plus evaluator into a native fuzz function
// (f.Fuzz(ev.Fuzz(gen, eval))): the fuzz bytes drive the generator's choices, so Go's
// coverage guidance searches the same structured domain as the rapid sub-check. A
// failing case fails the fuzz run with its descriptor in the message; the saved corpus
// file is the replay.
func Fuzz[D any](prop, sub string, gen func(*rapid.T) D, eval func(D) Result) func(*testing.T, []byte) {
	return rapid.MakeFuzz(func(rt *rapid.T) {
		d := gen(rt)
		res := Safe(eval, d)
		if res.Fail == "" || res.Key == "setup" {
			return
		}
		// watchdog / allocation verdicts must reproduce
		if strings.HasPrefix(res.Key, "hang") || strings.HasPrefix(res.Key, "slow") || strings.HasPrefix(res.Key, "alloc") {
			for i := 0; i < 2; i++ {
				if r2 := Safe(eval, d); r2.Fail == "" || r2.Key != res.Key {
					return
				}
			}
		}
		dj, _ := json.Marshal(d)
		rt.Fatalf("VIOLATION %s/%s key=%s: %s\ndescriptor: %s", prop, sub, res.Key, res.Fail, dj)
	})
}
