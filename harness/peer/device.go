// Package peer contains manual protocol peers written from the FDO 1.1 CDDL:
// they build and parse wire messages themselves (package wire) so that attack
// clients, out-of-order sequences and forged tokens can be produced, and so that
// the library's own message structs are cross-checked against the specification.
package peer

import (
	"bytes"
	"crypto"
	"crypto/rand"
	"crypto/rsa"
	"errors"
	"fmt"
	"io"
	"net/http"
	"strconv"
	"strings"

	"github.com/fido-device-onboard/go-fdo/cbor"
	"github.com/fido-device-onboard/go-fdo/kex"

	"verif/harness/deploy"
	"verif/harness/refcbor"
	"verif/harness/refverify"
	"verif/harness/wire"
)

// Resp is one HTTP response of the FDO handler.
type Resp struct {
	Status int
	Type   int
	Body   []byte
	Token  string
	Panic  string
}

// OK reports a success response of the given type.
func (r Resp) OK(typ int) bool { return r.Status == 200 && r.Type == typ }

// IsError reports an FDO error message (or an HTTP-level refusal).
func (r Resp) IsError() bool { return r.Type == 255 || r.Status >= 400 }

// Post sends one message to a handler in-process (panics are recovered and reported).
func Post(h http.Handler, msgType int, token string, body []byte) Resp {
	req, _ := http.NewRequest(http.MethodPost, "http://svc.test/fdo/101/msg/"+strconv.Itoa(msgType), bytes.NewReader(body))
	req.Header.Set("Content-Type", "application/cbor")
	if token != "" {
		req.Header.Set("Authorization", "Bearer "+token)
	}
	rec, panicked := deploy.Serve(h, req)
	if panicked != "" {
		return Resp{Panic: panicked}
	}
	resp := rec.Result()
	b, _ := io.ReadAll(resp.Body)
	typ, err := strconv.Atoi(resp.Header.Get("Message-Type"))
	if err != nil {
		typ = -1
	}
	return Resp{Status: resp.StatusCode, Type: typ, Body: b, Token: strings.TrimPrefix(resp.Header.Get("Authorization"), "Bearer ")}
}

// PanicKey derives a short key from a recovered handler panic text.
func PanicKey(p string) string {
	lines := strings.Split(p, "\n")
	msg := lines[0]
	for _, l := range lines[1:] {
		l = strings.TrimSpace(l)
		if strings.HasPrefix(l, "github.com/fido-device-onboard/go-fdo") && !strings.Contains(l, "harness") {
			fn := l
			if i := strings.LastIndex(fn, "("); i > 0 {
				fn = fn[:i]
			}
			fn = strings.TrimPrefix(fn, "github.com/fido-device-onboard/go-fdo")
			if i := strings.Index(fn, "["); i > 0 {
				if j := strings.LastIndex(fn, "]"); j > i {
					fn = fn[:i] + fn[j+1:]
				}
			}
			if len(msg) > 70 {
				msg = msg[:70]
			}
			return "panic:" + fn + ":" + digitsToN(msg)
		}
	}
	return "panic:?:" + digitsToN(msg)
}

func digitsToN(s string) string {
	var sb strings.Builder
	prev := false
	for _, c := range s {
		if c >= '0' && c <= '9' {
			if !prev {
				sb.WriteByte('N')
			}
			prev = true
			continue
		}
		prev = false
		sb.WriteRune(c)
	}
	return sb.String()
}

// Device is a manual TO2 device.
type Device struct {
	Cfg    deploy.Config
	Key    crypto.Signer
	GUID   []byte
	H      http.Handler
	Token  string
	Nonce  []byte // NonceTO2ProveOV chosen by the device
	Hello  []byte // encoded HelloDevice
	Prove  *wire.ProveOVHdr
	Sess   kex.Session // device side key-exchange session (after 61)
	XB     []byte
	SetupN []byte // NonceTO2SetupDv chosen by the device
	Keys   bool   // session keys established
}

// NewDevice creates a manual device for a credential GUID.
func NewDevice(cfg deploy.Config, key crypto.Signer, guid []byte, h http.Handler) *Device {
	return &Device{Cfg: cfg, Key: key, GUID: guid, H: h}
}

func rnd(n int) []byte {
	b := make([]byte, n)
	_, _ = rand.Read(b)
	return b
}

// HelloBody builds TO2.HelloDevice.
func (d *Device) HelloBody() []byte {
	d.Nonce = rnd(16)
	alg := wire.AlgFor(d.Key.Public(), d.Cfg.PSS())
	d.Hello = refcbor.Encode(refcbor.A(refcbor.U(65535), refcbor.B(d.GUID), refcbor.B(d.Nonce), refcbor.T(d.Cfg.Kex), refcbor.I(int64(d.Cfg.CipherID())), refcbor.A(refcbor.I(alg), refcbor.B(nil))))
	return d.Hello
}

// SendHello performs 60 -> 61 and prepares the key-exchange session.
func (d *Device) SendHello() (Resp, error) {
	r := Post(d.H, 60, "", d.HelloBody())
	if r.Panic != "" {
		return r, errors.New("panic")
	}
	if !r.OK(61) {
		return r, fmt.Errorf("HelloDevice answered %d/%d", r.Status, r.Type)
	}
	d.Token = r.Token
	p, err := wire.ParseProveOVHdr(r.Body)
	if err != nil {
		return r, err
	}
	d.Prove = p
	d.Sess = d.Cfg.Suite().New(bytes.Clone(p.XA), d.Cfg.CipherID())
	return r, nil
}

// GetEntry performs 62 -> 63.
func (d *Device) GetEntry(i int64) Resp {
	return Post(d.H, 62, d.Token, refcbor.Encode(refcbor.A(refcbor.I(i))))
}

// OwnerRSA returns the owner's RSA public key advertised in ProveOVHdr (for ASYMKEX), or nil.
func (d *Device) OwnerRSA() *rsa.PublicKey {
	if d.Prove == nil || d.Prove.CUPHOwnerKey == nil {
		return nil
	}
	k, _, _, err := refverify.PublicKeyFromNode(d.Prove.CUPHOwnerKey)
	if err != nil {
		return nil
	}
	r, _ := k.(*rsa.PublicKey)
	return r
}

// KeyExchange computes xB (and the device-side keys).
func (d *Device) KeyExchange() error {
	xb, err := d.Sess.Parameter(rand.Reader, d.OwnerRSA())
	if err != nil {
		return err
	}
	d.XB = bytes.Clone(xb)
	return nil
}

// Token64 describes the ProveDevice token to build.
type Token64 struct {
	Signer     crypto.Signer // nil: d.Key
	PSS        bool
	Nonce      *refcbor.Node // EAT nonce claim (10); nil: the owner's ProveDevice nonce as bstr
	UEID       *refcbor.Node // claim 256; nil: 0x01||GUID
	FDO        *refcbor.Node // claim -257; nil: [xB]
	OmitNonce  bool
	OmitUEID   bool
	OmitFDO    bool
	SetupNonce *refcbor.Node // unprotected -259; nil: fresh 16 bytes
	OmitSetup  bool
}

// ProveDeviceBody builds TO2.ProveDevice (an EAT in a COSE_Sign1).
func (d *Device) ProveDeviceBody(t Token64) []byte {
	signer := t.Signer
	if signer == nil {
		signer = d.Key
		t.PSS = d.Cfg.PSS()
	}
	eat := refcbor.M()
	if !t.OmitNonce {
		n := t.Nonce
		if n == nil {
			n = refcbor.B(d.Prove.CUPHNonce)
		}
		eat.Items = append(eat.Items, refcbor.I(10), n)
	}
	if !t.OmitUEID {
		u := t.UEID
		if u == nil {
			u = refcbor.B(append([]byte{1}, d.GUID...))
		}
		eat.Items = append(eat.Items, refcbor.I(256), u)
	}
	if !t.OmitFDO {
		f := t.FDO
		if f == nil {
			f = refcbor.A(refcbor.B(d.XB))
		}
		eat.Items = append(eat.Items, refcbor.I(-257), f)
	}
	unprot := refcbor.M()
	if !t.OmitSetup {
		sn := t.SetupNonce
		if sn == nil {
			d.SetupN = rnd(16)
			sn = refcbor.B(d.SetupN)
		}
		unprot.Items = append(unprot.Items, refcbor.I(-259), sn)
	}
	s1, err := wire.Sign1(signer, wire.AlgFor(signer.Public(), t.PSS), nil, unprot, refcbor.Encode(eat), true)
	if err != nil {
		panic(err)
	}
	return refcbor.Encode(s1)
}

// Encrypt protects a plaintext message with the session keys.
func (d *Device) Encrypt(plain []byte) ([]byte, error) {
	enc, err := d.Sess.Encrypt(rand.Reader, cbor.RawBytes(plain))
	if err != nil {
		return nil, err
	}
	return cbor.Marshal(enc)
}

// Decrypt opens a protected response.
func (d *Device) Decrypt(body []byte) ([]byte, error) {
	return d.Sess.Decrypt(rand.Reader, bytes.NewReader(body))
}

// Plain message bodies for 66, 68, 70.
func ReadyBody(hmacAlg int64, hmacVal []byte, mtu uint64) []byte {
	h := refcbor.Null()
	if hmacVal != nil {
		h = refcbor.A(refcbor.I(hmacAlg), refcbor.B(hmacVal))
	}
	return refcbor.Encode(refcbor.A(h, refcbor.U(mtu)))
}

// ServiceInfoBody builds DeviceServiceInfo.
func ServiceInfoBody(more bool, kvs ...[2][]byte) []byte {
	arr := refcbor.A()
	for _, kv := range kvs {
		arr.Items = append(arr.Items, refcbor.A(refcbor.T(string(kv[0])), refcbor.B(kv[1])))
	}
	return refcbor.Encode(refcbor.A(refcbor.Bool(more), arr))
}

// DoneBody builds TO2.Done.
func DoneBody(nonce []byte) []byte { return refcbor.Encode(refcbor.A(refcbor.B(nonce))) }

// DevmodKVs returns the mandatory devmod messages announcing the given modules.
func DevmodKVs(modules ...string) [][2][]byte {
	enc := func(n *refcbor.Node) []byte { return refcbor.Encode(n) }
	kvs := [][2][]byte{
		{[]byte("devmod:active"), enc(refcbor.Bool(true))},
		{[]byte("devmod:os"), enc(refcbor.T("linux"))},
		{[]byte("devmod:arch"), enc(refcbor.T("amd64"))},
		{[]byte("devmod:version"), enc(refcbor.T("1"))},
		{[]byte("devmod:device"), enc(refcbor.T("manual"))},
		{[]byte("devmod:sep"), enc(refcbor.T(";"))},
		{[]byte("devmod:bin"), enc(refcbor.T("amd64"))},
		{[]byte("devmod:nummodules"), enc(refcbor.U(uint64(len(modules))))},
	}
	list := refcbor.A(refcbor.U(0), refcbor.U(uint64(len(modules))))
	for _, m := range modules {
		list.Items = append(list.Items, refcbor.T(m))
	}
	kvs = append(kvs, [2][]byte{[]byte("devmod:modules"), enc(list)})
	return kvs
}
