package peer

import (
	"crypto"
	"crypto/rand"
	"crypto/x509"
	"crypto/x509/pkix"

	"verif/harness/deploy"
	"verif/harness/refcbor"
	"verif/harness/refverify"
	"verif/harness/wire"
)

// AppStartBody builds DI.AppStart for the library's custom.DeviceMfgInfo:
// [bstr .cbor [keytype, keyenc, serial, devinfo, csr]].
func AppStartBody(cfg deploy.Config, key crypto.Signer, serial, info string) []byte {
	der, err := x509.CreateCertificateRequest(rand.Reader, &x509.CertificateRequest{Subject: pkix.Name{CommonName: serial}}, key)
	if err != nil {
		panic(err)
	}
	kt, _ := cfg.KeyType()
	mfg := refcbor.A(refcbor.U(uint64(kt)), refcbor.U(uint64(cfg.KeyEncoding())), refcbor.T(serial), refcbor.T(info), refcbor.B(der))
	return refcbor.Encode(refcbor.A(refcbor.Wrap(mfg)))
}

// SetHmacBody builds DI.SetHMAC over the OVHeader received in DI.SetCredentials.
func SetHmacBody(secret []byte, setCredentials []byte, sha384 bool) ([]byte, bool) {
	n, err := refcbor.ParseAll(setCredentials)
	if err != nil || n.Kind != refcbor.Array || len(n.Items) != 1 || n.Items[0].Kind != refcbor.Bytes {
		return nil, false
	}
	alg := int64(5)
	if sha384 {
		alg = 6
	}
	mac, _ := refverify.Hmac(alg, secret, n.Items[0].Bytes)
	return refcbor.Encode(refcbor.A(refcbor.A(refcbor.I(alg), refcbor.B(mac)))), true
}

// OwnerSignBody builds TO0.OwnerSign for an encoded voucher.
func OwnerSignBody(cfg deploy.Config, voucher []byte, wait uint32, nonce []byte, signer crypto.Signer) []byte {
	v, err := refcbor.ParseAll(voucher)
	if err != nil {
		panic(err)
	}
	to0d := refcbor.EncodeKeepOrder(refcbor.A(v, refcbor.U(uint64(wait)), refcbor.B(nonce)))
	alg := int64(-16)
	if cfg.Kind() == "ec384" || cfg.Kind() == "rsa3072" {
		alg = -43
	}
	payload := refcbor.EncodeKeepOrder(refcbor.A(refcbor.A(refcbor.A(refcbor.Null(), refcbor.T("owner.test"), refcbor.U(8043), refcbor.U(3))), wire.HashNode(alg, to0d)))
	to1d, err := wire.Sign1(signer, wire.AlgFor(signer.Public(), cfg.PSS()), nil, nil, payload, true)
	if err != nil {
		panic(err)
	}
	return refcbor.EncodeKeepOrder(refcbor.A(refcbor.B(to0d), to1d))
}

// HelloRVBody builds TO1.HelloRV.
func HelloRVBody(cfg deploy.Config, key crypto.Signer, guid []byte) []byte {
	return refcbor.Encode(refcbor.A(refcbor.B(guid), refcbor.A(refcbor.I(wire.AlgFor(key.Public(), cfg.PSS())), refcbor.B(nil))))
}

// ProveToRVBody builds TO1.ProveToRV.
func ProveToRVBody(cfg deploy.Config, key crypto.Signer, guid, nonce []byte) []byte {
	eat := refcbor.M(refcbor.I(10), refcbor.B(nonce), refcbor.I(256), refcbor.B(append([]byte{1}, guid...)))
	s1, err := wire.Sign1(key, wire.AlgFor(key.Public(), cfg.PSS()), nil, nil, refcbor.Encode(eat), true)
	if err != nil {
		panic(err)
	}
	return refcbor.Encode(s1)
}

// FirstBytes returns items[0] of a one-element (or longer) array response when it is a bstr.
func FirstBytes(body []byte) []byte {
	n, err := refcbor.ParseAll(body)
	if err != nil || n.Kind != refcbor.Array || len(n.Items) == 0 || n.Items[0].Kind != refcbor.Bytes {
		return nil
	}
	return n.Items[0].Bytes
}

// ErrorBody builds an FDO error message (type 255) as a client would send it.
func ErrorBody(prev int) []byte {
	return refcbor.Encode(refcbor.A(refcbor.U(500), refcbor.U(uint64(prev)), refcbor.T("client gives up"), refcbor.U(1), refcbor.Null()))
}
