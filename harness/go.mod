module verif/harness

go 1.25.0

require (
	github.com/fido-device-onboard/go-fdo v0.0.0
	github.com/fido-device-onboard/go-fdo/fsim v0.0.0
	github.com/fido-device-onboard/go-fdo/sqlite v0.0.0
	pgregory.net/rapid v1.3.0
)

replace github.com/fido-device-onboard/go-fdo => /repo

replace github.com/fido-device-onboard/go-fdo/sqlite => /repo/sqlite

replace github.com/fido-device-onboard/go-fdo/fsim => /repo/fsim
