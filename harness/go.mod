module verif/harness

go 1.25.0

require (
	github.com/fido-device-onboard/go-fdo v0.0.0
	github.com/fido-device-onboard/go-fdo/fsim v0.0.0
	github.com/fido-device-onboard/go-fdo/sqlite v0.0.0
	pgregory.net/rapid v1.3.0
)

require (
	github.com/ncruces/go-sqlite3 v0.30.5 // indirect
	github.com/ncruces/julianday v1.0.0 // indirect
	github.com/tetratelabs/wazero v1.11.0 // indirect
	golang.org/x/crypto v0.47.0 // indirect
	golang.org/x/sys v0.40.0 // indirect
)

replace github.com/fido-device-onboard/go-fdo => /repo

replace github.com/fido-device-onboard/go-fdo/sqlite => /repo/sqlite

replace github.com/fido-device-onboard/go-fdo/fsim => /repo/fsim
