#!/bin/bash
# usage: seedsave.sh <PROP> <mutdir> <name> "<needs>" "<ran>" "<caught-by>"
PROP=$1; MD=$2; NAME=$3; NEEDS=$4; RAN=$5; CAUGHT=$6
D=/verif/seeded/$NAME; mkdir -p $D
cp $MD/patch.diff $D/; for f in $(ls $MD | grep -v "patch.diff\|notes.md"); do cp $MD/$f $D/; done
cp $MD/notes.md $D/notes.md 2>/dev/null
python3 - "$PROP" "$NAME" "$NEEDS" "$RAN" "$CAUGHT" <<'PY'
import json,sys
p,n,needs,ran,caught=sys.argv[1:6]
json.dump({"property":p,"name":n,"breaks":p,"needs_to_manifest":needs,"what_i_ran":ran,"caught_by":caught,"origin":"independent sub-agent given only the property text and a scratch worktree"},open('/verif/seeded/%s/meta.json'%n,'w'),indent=1)
PY
