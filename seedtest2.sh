#!/bin/bash
# usage: seedtest2.sh <PROP> <mutdir> [check-ids...]
# Like seedtest.sh but never touches /repo: the seeded change lives in a scratch worktree and the
# checks are built against it through VERIF_REPO (alternative modfile), so several changes can be
# tried in parallel and background runs against /repo are not disturbed.
#  1. confirms in the scratch worktree that the patch applies, builds, passes the existing tests, and that the demo fails with / passes without it
#  2. runs the given checks (default: <PROP> quick) against the patched worktree
set -u
PROP=$1; MD=$(readlink -f $2); shift 2
CHECKS="${*:-$PROP}"
export GOFLAGS=-mod=mod GOPROXY=off
SW=/tmp/seedwt-$$
git -C /repo worktree add -q --detach $SW HEAD || exit 2
cleanup(){ git -C /repo worktree remove --force $SW 2>/dev/null; rm -rf /verif/.build/*-alt$TAG* /verif/.build/go-alt$TAG* /verif/.work/*-alt$TAG 2>/dev/null; }
TAG=$(python3 -c "import hashlib,sys;print(hashlib.sha1(sys.argv[1].encode()).hexdigest()[:8])" $SW)
trap cleanup EXIT
cd $SW
if ! git apply --check $MD/patch.diff 2>/dev/null; then echo "SEED: patch does not apply at HEAD"; exit 3; fi
git apply $MD/patch.diff
if [ -z "${SKIP_CONFIRM:-}" ]; then
  (go build ./... && go test -vet=off -count=1 ./... ) > /tmp/seedtest-$$.log 2>&1; rc=$?
  (cd sqlite && go build ./... && go test -vet=off -count=1 ./... ) >> /tmp/seedtest-$$.log 2>&1; rc2=$?
  (cd fsim && go build ./... && go test -vet=off -count=1 ./... ) >> /tmp/seedtest-$$.log 2>&1; rc3=$?
  echo "SEED: existing tests with patch: root=$rc sqlite=$rc2 fsim=$rc3"
  if [ $rc != 0 ] || [ $rc2 != 0 ] || [ $rc3 != 0 ]; then grep -v "^ok\|no test files\|print.go\|^ *\[" /tmp/seedtest-$$.log | cut -c1-200 | head -8; fi
  DEMOS=$(ls $MD | grep "_test.go$")
  for d in $DEMOS; do
    dest=$(grep -o "[a-zA-Z0-9_/.-]*$d" $MD/notes.md | grep "/" | head -1 | sed "s#^/tmp/mut/[A-Za-z0-9]*/##")
    [ -z "$dest" ] && dest=$d
    mkdir -p $(dirname $SW/$dest); cp $MD/$d $SW/$dest
    pkgdir=$(dirname $dest)
    name=$(grep -o "^func Test[A-Za-z0-9_]*" $MD/$d | sed 's/func //' | paste -sd'|')
    moddir=$SW; sub=./$pkgdir
    case $pkgdir in sqlite*) moddir=$SW/sqlite; sub=./${pkgdir#sqlite};; fsim*) moddir=$SW/fsim; sub=./${pkgdir#fsim};; esac
    (cd $moddir && go test -vet=off -count=1 -run "^($name)\$" $sub) > /tmp/seeddemo-$$.log 2>&1; with=$?
    git apply -R $MD/patch.diff
    (cd $moddir && go test -vet=off -count=1 -run "^($name)\$" $sub) > /tmp/seeddemo2-$$.log 2>&1; without=$?
    git apply $MD/patch.diff
    echo "SEED: demo $dest ($name): with patch rc=$with (want !=0), without rc=$without (want 0)"
    [ $with = 0 ] && tail -5 /tmp/seeddemo-$$.log
    [ $without != 0 ] && tail -15 /tmp/seeddemo2-$$.log
    rm -f $SW/$dest
  done
fi
cd /verif
for c in $CHECKS; do
  tier=${TIER:-quick}
  VERIF_REPO=$SW ./check $c $tier > /tmp/seedcheck-$$.log 2>&1; rc=$?
  echo "SEED: check $c $tier on mutant: exit=$rc $(grep -c '^VIOLATION' /tmp/seedcheck-$$.log) violation line(s)"
  grep -A2 "^VIOLATION" /tmp/seedcheck-$$.log | grep "key=" | sort | uniq | head -8
  [ $rc = 2 ] && tail -20 /tmp/seedcheck-$$.log
done
rm -f /tmp/seedtest-$$.log /tmp/seeddemo-$$.log /tmp/seeddemo2-$$.log /tmp/seedcheck-$$.log
