#!/bin/sh
# validates MANIFEST.json and all evidence files against the schemas
python3-vt - <<'PY'
import json,jsonschema,glob,sys
jsonschema.validate(json.load(open('/verif/MANIFEST.json')),json.load(open('/root/.vp/MANIFEST.schema.json')))
ok=True
for f in sorted(glob.glob('/verif/evidence/*.json')):
    try:
        jsonschema.validate(json.load(open(f)),json.load(open('/root/.vp/EVIDENCE.schema.json')))
    except Exception as e:
        ok=False; print('INVALID',f,str(e)[:300])
print('manifest ok; evidence', 'ok' if ok else 'INVALID')
PY
